import sys, os
def rep(root, p, old, new):
    p = os.path.join(root, p)
    s = open(p).read()
    assert old in s, (p, old[:60])
    open(p, 'w').write(s.replace(old, new, 1))

def fix01(root):   # for/some/every: range expressions are evaluated completely (inner focus restored) before use
    rep(root, 'elementpath/xpath_context.py',
"""        if varnames is None:
            varnames = []
        iterators = [x(self) for x in selectors]
""",
"""        if varnames is None:
            varnames = []

        def evaluated(selector: Callable[[Any], Any]) -> Callable[[Any], Any]:
            # evaluate a range expression completely when it is started, so that an inner
            # focus (predicates, '!') is not left active while other expressions are evaluated
            def select(context: Any) -> Iterator[Any]:
                yield from list(selector(context))
            return select

        selectors = [evaluated(x) for x in selectors]
        iterators = [x(self) for x in selectors]
""")

def fix02(root):   # remove position conversion
    rep(root, 'elementpath/xpath2/_xpath2_functions.py',
"""    position = self.get_argument(context, 1)
    if not isinstance(position, int):
        raise self.error('XPTY0004', 'an xs:integer required')
""",
"""    position = self.get_argument(context, 1, required=True, cls=int)
""")

def fix03(root):   # index-of
    rep(root, 'elementpath/xpath2/_xpath2_functions.py',
"""    with CollationManager(collation, self) as manager:
        for pos, result in enumerate(self[0].atomization(context), start=1):
            if manager.eq(result, value):
                yield pos
""",
"""    if isinstance(value, UntypedAtomic):
        value = value.value  # xs:untypedAtomic values are compared as xs:string

    with CollationManager(collation, self) as manager:
        for pos, result in enumerate(self[0].atomization(context), start=1):
            if isinstance(result, UntypedAtomic):
                result = result.value
            if isinstance(result, bool) is not isinstance(value, bool):
                continue  # xs:boolean is comparable only with xs:boolean
            if manager.eq(result, value):
                yield pos
""")

def fix04(root):   # distinct-values
    rep(root, 'elementpath/xpath2/_xpath2_functions.py',
"""                elif all(not math.isclose(value, x, rel_tol=1E-18, abs_tol=0)
                         for x in results if isinstance(x, (int, Decimal, float))):
                    yield value
                    results.append(value)

            elif value not in results:
                yield value
                results.append(value)
""",
"""                elif all(not math.isclose(value, x, rel_tol=1E-18, abs_tol=0)
                         for x in results
                         if isinstance(x, (int, Decimal, float)) and not isinstance(x, bool)):
                    yield value
                    results.append(value)
                continue

            # xs:untypedAtomic is compared as xs:string, xs:boolean only with xs:boolean
            other = value.value if isinstance(value, UntypedAtomic) else value
            if not any(isinstance(x, bool) is isinstance(other, bool) and x == other
                       for x in results):
                yield value
                results.append(other)
""")

def fix05(root):   # sum: booleans and invalid untypedAtomic
    p = 'elementpath/xpath1/_xpath1_functions.py'
    rep(root, p, "    StringProxy, AnyAtomicType, Duration\n", "    StringProxy, AnyAtomicType, Duration, UntypedAtomic\n")
    rep(root, p,
"""                  if isinstance(x, XPathNode) else x
                  for x in self[0].select_flatten(context)]
""",
"""                  if isinstance(x, (XPathNode, UntypedAtomic)) else x
                  for x in self[0].select_flatten(context)]
""")
    rep(root, p,
"""    if all(isinstance(x, (decimal.Decimal, int)) for x in values):
        result = sum(values) if len(values) > 1 else values[0]
""",
"""    if any(isinstance(x, bool) for x in values):
        raise self.error('FORG0006', 'cannot apply fn:sum() to xs:boolean values')
    elif all(isinstance(x, (decimal.Decimal, int)) for x in values):
        result = sum(values) if len(values) > 1 else values[0]
""")

def fix06(root):   # min/max booleans mixed
    rep(root, 'elementpath/xpath2/_xpath2_functions.py',
"""        if not values:
            return []
        elif all(isinstance(x, str) for x in values):
            if to_any_uri:""",
"""        if not values:
            return []
        elif any(isinstance(x, bool) for x in values) and \\
                not all(isinstance(x, bool) for x in values):
            raise self.error('FORG0006', "cannot compare xs:boolean with other types")
        elif all(isinstance(x, str) for x in values):
            if to_any_uri:""")

def fix07(root):   # sum: xs:float result type
    p = 'elementpath/xpath1/_xpath1_functions.py'
    rep(root, p,
"""    elif any(isinstance(x, float) and math.isnan(x) for x in values):
        return math.nan
    elif all(isinstance(x, Float) for x in values):""",
"""    elif any(isinstance(x, float) and math.isnan(x) for x in values):
        result = math.nan
    elif all(isinstance(x, Float) for x in values):""")
    rep(root, p,
"""    assert isinstance(result, AnyAtomicType)
    return result
""",
"""    if type(result) is float and \\
            all(isinstance(x, (Float, decimal.Decimal, int)) for x in values):
        result = Float(result)  # no xs:double in the sequence: the sum is an xs:float
    assert isinstance(result, AnyAtomicType)
    return result
""")

def fix08(root):   # the outer focus is restored also when an inner-focus iteration is abandoned early
    rep(root, 'elementpath/xpath_tokens/base.py',
"""        context.axis = None
        context.size = len(results)
        for context.position, context.item in enumerate(results, start=1):
            yield context.item

        context.item, context.size, context.position, context.axis = status
""",
"""        context.axis = None
        context.size = len(results)
        try:
            for context.position, context.item in enumerate(results, start=1):
                yield context.item
        finally:
            # also when the consumer stops early (fn:head, fn:exists, fn:empty, ...)
            context.item, context.size, context.position, context.axis = status
""")


def fix09(root):   # insert-before evaluates $inserts before it iterates over $target
    p = 'elementpath/xpath2/_xpath2_functions.py'
    rep(root, p,
"""    insert_at_pos = max(0, position - 1)

    inserted = False
    for pos, result in enumerate(self[0].select(context)):
        if not inserted and pos == insert_at_pos:
            yield from self[2].select(context)
            inserted = True
        yield result

    if not inserted:
        yield from self[2].select(context)
""",
"""    insert_at_pos = max(0, position - 1)
    # evaluated before the iteration over $target, that can have an inner focus active
    inserts = [x for x in self[2].select(context)]

    inserted = False
    for pos, result in enumerate(self[0].select(context)):
        if not inserted and pos == insert_at_pos:
            yield from inserts
            inserted = True
        yield result

    if not inserted:
        yield from inserts
""")


def fix10(root):   # round_number (fn:subsequence, fn:round) for values with more than 28 digits
    rep(root, 'elementpath/helpers.py',
"""    if number > 0:
        return type(value)(number.quantize(Decimal('1'), rounding='ROUND_HALF_UP'))
    else:
        return type(value)(number.quantize(Decimal('1'), rounding='ROUND_HALF_DOWN'))
""",
"""    if number > 0:
        return type(value)(number.to_integral_value(rounding='ROUND_HALF_UP'))
    else:
        return type(value)(number.to_integral_value(rounding='ROUND_HALF_DOWN'))
""")


if __name__ == '__main__':
    root = sys.argv[1]
    for name in sys.argv[2:]:
        globals()[name](root)
