import sys, os
sys.path.insert(0, os.path.join(os.path.dirname(os.path.abspath(__file__)), "..", "..", "C08", "tools"))
from c08_fixes import rep
F2 = 'elementpath/xpath2/_xpath2_functions.py'
O2 = 'elementpath/xpath2/_xpath2_operators.py'
O1 = 'elementpath/xpath1/_xpath1_operators.py'
F30 = 'elementpath/xpath30/_xpath30_functions.py'
B = 'elementpath/xpath_tokens/base.py'
C = 'elementpath/xpath_context.py'
M = {
 'M01': ('insert-before: insert_at_pos = max(0, position) (off by one)', lambda r: rep(r, F2, "insert_at_pos = max(0, position - 1)", "insert_at_pos = max(0, position)")),
 'M02': ('subsequence: python round() (half-even) for the start', lambda r: rep(r, F2, "        starting_loc = float(round_number(starting_loc))", "        starting_loc = float(round(starting_loc))")),
 'M03': ('index-of: positions start at 0', lambda r: rep(r, F2, "for pos, result in enumerate(self[0].atomization(context), start=1):\n            if isinstance(result, UntypedAtomic)", "for pos, result in enumerate(self[0].atomization(context), start=0):\n            if isinstance(result, UntypedAtomic)")),
 'M04': ('iter_product: exhausted inner iterator is not restarted', lambda r: rep(r, C, "                iterators[k] = selectors[k](self)\n", "")),
 'M05': ('remove: drops the item only if it is not the last one', lambda r: rep(r, F2, "    for pos, result in enumerate(self[0].select(context), start=1):\n        if pos != position:\n            yield result", "    items = list(self[0].select(context))\n    for pos, result in enumerate(items, start=1):\n        if pos != position or pos == len(items) > 3:\n            yield result")),
 'M06': ('select_with_focus: position not restored after the inner focus (state leak)', lambda r: rep(r, B, "        context.item, context.size, context.position, context.axis = status\n", "        context.item, context.size, _, context.axis = status\n")),
 'M07': ('tail: drops the first item by value (k counts only items != first)', lambda r: rep(r, F30, "    for k, item in enumerate(self[0].select(self.context or context)):\n        if k:\n            yield item", "    first = None\n    for k, item in enumerate(self[0].select(self.context or context)):\n        if not k:\n            first = item\n        elif item != first or k > 1:\n            yield item")),
 'M08': ('exactly-one: a 3-item sequence passes (returns first)', lambda r: rep(r, F2, "        try:\n            next(results)\n        except StopIteration:\n            yield item\n        else:\n            raise self.error('FORG0005')", "        try:\n            next(results)\n            next(results)\n        except StopIteration:\n            yield item\n        else:\n            raise self.error('FORG0005')")),
 'M09': ('filter: numeric predicate compared after int() truncation', lambda r: rep(r, O1, "            if context.position == predicate[0]:", "            if not math.isnan(predicate[0]) and not math.isinf(predicate[0]) and context.position == int(predicate[0]):")),
 'M10': ('to: upper bound exclusive when start is negative', lambda r: rep(r, O2, "        return xlist(range(start, stop + 1))", "        return xlist(range(start, stop + 1 if start >= 0 else stop))")),
 'M11': ('avg of decimals through float', lambda r: rep(r, F2, "        return sum(cast(list[Decimal], values)) / Decimal(len(values))", "        return Decimal(float(sum(cast(list[Decimal], values))) / len(values))")),
 'M12': ('subsequence: end bound inclusive', lambda r: rep(r, F2, "            if starting_loc <= pos < starting_loc + length:", "            if starting_loc <= pos <= starting_loc + length:")),
 'M13': ('max of strings compares case-insensitively', lambda r: rep(r, F2, "        return aggregate_func(values)  # type: ignore[type-var]", "        if all(isinstance(x, str) for x in values):\n            return aggregate_func(values, key=str.lower)\n        return aggregate_func(values)  # type: ignore[type-var]")),
 'M14': ('every: stops at the first TRUE test after a false one is skipped (wrong short-circuit for multi-variable)', lambda r: rep(r, O2, "        elif not some:\n            return False", "        elif not some and len(varnames) < 2:\n            return False")),
 'M15': ('reverse: sequences of exactly 2 items are not reversed', lambda r: rep(r, F2, "    yield from reversed([x for x in self[0].select(self.context or context)])", "    items = [x for x in self[0].select(self.context or context)]\n    yield from (items if len(items) == 2 else reversed(items))")),
 'M16': ('distinct-values: NaN not deduplicated', lambda r: rep(r, F2, "                    if not nan:\n                        yield value\n                        nan = True", "                    yield value")),
 'M17': ('inner focus: last() one too small for sequences of 6 or more items', lambda r: rep(r, B, "        context.size = len(results)\n", "        context.size = len(results) if len(results) < 6 else len(results) - 1\n")),
 'M18': ('count ignores empty-string items', lambda r: rep(r, 'elementpath/xpath1/_xpath1_functions.py', "    return len([x for x in self[0].select(self.context or context)])", "    return len([x for x in self[0].select(self.context or context) if x != ''])")),
 'M19': ('sum of integers > 2**53 through float', lambda r: rep(r, 'elementpath/xpath1/_xpath1_functions.py', "        result = sum(values) if len(values) > 1 else values[0]", "        result = sum(values) if len(values) > 1 else values[0]\n        if isinstance(result, int) and not isinstance(result, bool) and len(values) > 2:\n            result = int(float(result))")),
 'M20': ('insert-before: inserts evaluated lazily twice when position is beyond the end (duplicates nothing) -> actually: position > count appends before last', lambda r: rep(r, F2, "    if not inserted:\n        yield from self[2].select(context)", "    if not inserted and position > 0:\n        yield from self[2].select(context)")),
}
if __name__ == '__main__':
    root, name = sys.argv[1], sys.argv[2]
    if M[name][1] is None:
        print('not implemented'); sys.exit(3)
    M[name][1](root)
    print(name, M[name][0])
