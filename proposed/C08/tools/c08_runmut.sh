#!/bin/bash
# usage: c08_runmut.sh PROP M01 M02 ...
PROP=$1; shift
for m in "$@"; do
  rm -rf /tmp/scratch_${PROP}_mut && cp -a /tmp/scratch_${PROP}_fix /tmp/scratch_${PROP}_mut
  desc=$(/venv/bin/python /tmp/${PROP,,}_mutants.py /tmp/scratch_${PROP}_mut $m) || { echo "$m APPLY-FAILED $desc"; continue; }
  t0=$(date +%s)
  out=$(cd /verif && VERIF_EXTRA_KNOWN=/verif/proposed/$PROP/known.json VERIF_REPO=/tmp/scratch_${PROP}_mut VERIF_SEED=1 timeout 1200 /venv/bin/python run.py $PROP --tier quick --nproc 5 2>&1)
  t1=$(date +%s)
  nb=$(echo "$out" | grep -c "^new bucket")
  first=$(echo "$out" | grep "^new bucket" | head -3 | cut -c1-160)
  summary=$(echo "$out" | grep "quick seed=" | cut -c1-200)
  echo "== $desc"
  echo "   new_buckets=$nb secs=$((t1-t0)) :: $summary"
  echo "$first" | sed 's/^/   /'
  echo "$out" | grep "HARNESS" | head -3
done
rm -rf /tmp/scratch_${PROP}_mut
