import json, os, sys, subprocess
sys.path.insert(0, os.environ.get('VERIF_REPO', '/repo')); sys.path.insert(1, '/verif')
from vp.checks import c18

def J(v, t, doc='et', ctx=None, route='var'):
    return ('judge', {'doc': doc, 'xsd': '1.0', 'ctx': ctx, 'v': v, 'ts': [t], 'route': route})
A = lambda t, e: ['A', t, e]
INT = A('xs:integer', '7')
ARR = ['R', [INT]]
MAP = ['M', [[A('xs:integer', '1'), A('xs:string', "'a'")]]]
F_INT = ['F', ['xs:integer'], 'xs:integer']

# (name, bucket pattern for known.json, what, fixed_by or None, witness (check, case), exact expect_bucket)
E = [
 ('known_parse_parenthesized', 'C18/parse/instance/XPST0003:unexpected-parenthesized-expression/(...)',
  "ParenthesizedItemType (XPath 3.0+ production [113], e.g. `1 instance of (xs:integer)?`, needed to put an occurrence on a typed function test) is rejected with XPST0003",
  None, J(INT, '(xs:integer)?'), 'C18/parse/instance/XPST0003:unexpected-parenthesized-expression/(...)'),
 ('known_parse_empty_sequence_nested', 'C18/parse/instance/XPST0003:unexpected-x-sequence-type/*',
  "empty-sequence() as member/value type of array()/map() is rejected (`[] instance of array(empty-sequence())` -> XPST0003); ArrayTest/MapTest take any SequenceType",
  None, J(['R', []], 'array(empty-sequence())'), 'C18/parse/instance/XPST0003:unexpected-x-sequence-type/array(..empty-sequence()..)'),
 ('known_parse_function_star_occurrence_array', 'C18/parse/instance/XPST0003:unexpected-x-symbol/array(..T+*?..)',
  "`function(*)?` / `map(*)?` as member type inside array(...) is a syntax error (the ? is taken for a lookup operator)",
  None, J(['R', []], 'array(function(*)?)'), 'C18/parse/instance/XPST0003:unexpected-x-symbol/array(..T+*?..)'),
 ('known_parse_function_star_occurrence_map', 'C18/parse/instance/XPST0003:unexpected-x-symbol/map(..T+*?..)',
  "`function(*)?` / `map(*)?` as value type inside map(K, ...) is a syntax error (same cause as in array(...))",
  None, J(['M', []], 'map(xs:integer, function(*)?)'), 'C18/parse/instance/XPST0003:unexpected-x-symbol/map(..T+*?..)'),
 ('known_signature_attribute', 'C18/parse/signature/XPST0003:a-sequence-type-expected/attribute(*',
  "is_sequence_type() (string validation of inline-function signatures and function tests) does not know attribute tests: `function($a as attribute()) as item() {1}` and `. instance of function(attribute(x)) as item()` raise XPST0003",
  None, J(['F', ['attribute(x)'], 'attribute(x)'], 'item()'), 'C18/parse/signature/XPST0003:a-sequence-type-expected/attribute(N)'),
 ('known_signature_element_nillable', 'C18/parse/signature/XPST0003:a-sequence-type-expected/element(*',
  "is_sequence_type() rejects element(N, T?) (nillable type argument) in signatures",
  None, J(['F', ['element(a, xs:integer?)'], 'item()'], 'item()'), 'C18/parse/signature/XPST0003:a-sequence-type-expected/element(N,T?)'),
 ('known_signature_namespace_node', 'C18/parse/signature/XPST0003:a-sequence-type-expected/namespace-node()',
  "is_sequence_type() rejects namespace-node() in signatures", None,
  J(['F', ['namespace-node()'], 'item()'], 'item()'), 'C18/parse/signature/XPST0003:a-sequence-type-expected/namespace-node()'),
 ('known_signature_pi_name', 'C18/parse/signature/XPST0003:a-sequence-type-expected/pi(N)',
  "is_sequence_type() rejects processing-instruction(name) in signatures", None,
  J(['F', ['processing-instruction(zz)'], 'item()'], 'item()'), 'C18/parse/signature/XPST0003:a-sequence-type-expected/pi(N)'),
 ('known_signature_nested_function', 'C18/parse/signature/XPST0003:a-sequence-type-expected/function(*',
  "is_sequence_type() rejects typed function tests whose return type is a typed function test, or that mention empty-sequence() / nested occurrences in some positions (`function($f as function() as xs:long) as function() as xs:long {$f}`)",
  None, J(['F', ['function() as xs:long'], 'function() as xs:long'], 'item()'), 'C18/parse/signature/XPST0003:a-sequence-type-expected/function(...)'),
 ('known_instance_occurrence_accepts', 'C18/instance/kind-test/nonmatching-item-accepted-under-?*',
  "`V instance of K?` / `K*` with K a kind test, item(), function/map/array test: the first item that does NOT match K ends the loop with `return occurs in ('*', '?')`, so `/a instance of attribute()*`, `1 instance of node()?`, `(1, 'a') instance of map(*)*` are true",
  'fix01', J(INT, 'node()?'), 'C18/instance/kind-test/nonmatching-item-accepted-under-?*'),
 ('known_instance_attribute_test_on_element', 'C18/instance/attribute-or-namespace-test-on-element/false-positive',
  "`/a instance of attribute()` and `/a instance of namespace-node()` are true for an element that has attributes / namespace nodes: the tests double as abbreviated axis steps and select the element's attributes instead of testing the item",
  'fix01', J(['N', 1], 'attribute()'), 'C18/instance/attribute-or-namespace-test-on-element/false-positive'),
 ('known_instance_attribute_prefixed', 'C18/instance/attribute-test-prefixed-name/false-negative',
  "`/a/@p:y instance of attribute(p:y)` is false (and `/a/attribute(p:y)` selects nothing): the lexical QName is compared with the expanded name",
  'fix08', J(['N', 5], 'attribute(p:y)'), 'C18/instance/attribute-test-prefixed-name/false-negative'),
 ('known_type_argument_anytype_instance', 'C18/instance/node-test-type-argument/*',
  "element(N, xs:anyType) / attribute(N, xs:anySimpleType) / document-node(element(*, xs:anyType)): the type argument is looked up among atomic types only, `instance of` raises ElementPathKeyError('unknown type') instead of applying derives-from (XPath 3.1 2.5.5.3: every element matches element(*, xs:anyType)). is_instance() raising KeyError for these names is pinned by tests/test_sequence_types.py::test_is_instance_function",
  None, J(['N', 1], 'element(a, xs:anyType)'), 'C18/instance/node-test-type-argument/xs:anyType/error:ElementPathKeyError:unknown-type-x'),
 ('known_type_argument_anytype_api', 'C18/api/node-test-type-argument/*',
  "match_sequence_type(node, 'element(a, xs:anyType)') raises XPST0051 'Unknown atomic type' (same cause as for instance of)",
  None, J(['N', 1], 'element(a, xs:anyType)'), 'C18/api/node-test-type-argument/xs:anyType/error:XPST0051:unknown-atomic-type'),
 ('known_type_argument_anytype_treat', 'C18/treat/kind-test/rejects-matching:ElementPathKeyError',
  "`/a treat as element(a, xs:anyType)` raises ElementPathKeyError (same cause as for instance of)",
  None, J(['N', 1], 'element(a, xs:anyType)', ctx=None), 'C18/treat/kind-test/rejects-matching:ElementPathKeyError'),
 ('known_type_argument_anytype_treat2', 'C18/treat/kind-test/wrong-code:ElementPathKeyError:unknown-type-x',
  "`(/a, 7) treat as element(*, xs:anyType)` raises ElementPathKeyError instead of XPDY0050 (same cause)",
  None, J(['S', [['N', 1], INT]], 'element(*, xs:anyType)', ctx=1), 'C18/treat/kind-test/wrong-code:ElementPathKeyError:unknown-type-x'),
 ('known_element_type_argument_instance', 'C18/instance/element-type-argument/*',
  "element(N, T) is judged on the typed value of the element, not on its type annotation: an untyped element matches element(b, xs:untypedAtomic) and element(b, xs:anyAtomicType) but not element(*, xs:untyped) (XPath 3.1 2.5.5.3: derives-from(xs:untyped, T))",
  None, J(['N', 2], 'element(*, xs:untyped)'), 'C18/instance/element-type-argument/xs:untyped/false-negative'),
 ('known_element_type_argument_api', 'C18/api/element-type-argument/*',
  "match_sequence_type(untyped element, 'element(b, xs:untypedAtomic)') is true (typed value instead of type annotation)",
  None, J(['N', 2], 'element(b, xs:untypedAtomic)'), 'C18/api/element-type-argument/xs:untypedAtomic/false-positive'),
 ('known_attribute_type_argument_instance', 'C18/instance/attribute-type-argument/*',
  "attribute(N, T) without a schema ignores T: `/a/@x instance of attribute(x, xs:string)` is true for an untyped attribute (annotation xs:untypedAtomic). Pinned by tests/test_xpath2_parser.py::test_attribute_accessor (`attribute(a, xs:int)` must select an untyped attribute)",
  None, J(['N', 4], 'attribute(x, xs:string)'), 'C18/instance/attribute-type-argument/xs:string/false-positive'),
 ('known_attribute_type_argument_api', 'C18/api/attribute-type-argument/xs:untyped/false-positive',
  "match_sequence_type(attribute, 'attribute(x, xs:untyped)') is true: xs:untypedAtomic does not derive from xs:untyped",
  None, J(['N', 4], 'attribute(x, xs:untyped)'), 'C18/api/attribute-type-argument/xs:untyped/false-positive'),
 ('known_function_test_on_map_instance', 'C18/instance/typed-function-test-on-map/*',
  "a map against a typed function test is judged on its entries (any entry whose key/value match), not on its signature function(xs:anyAtomicType) as item()*: `map{1:'a'} instance of function(xs:integer) as xs:string?` is true, XPath 3.1 2.5.5.8 says false; `map{} instance of function(xs:string) as item()*` is false, spec true",
  None, J(MAP, 'function(xs:integer) as xs:string?'), 'C18/instance/typed-function-test-on-map/false-positive'),
 ('known_function_test_on_array_instance', 'C18/instance/typed-function-test-on-array/*',
  "an array against a typed function test is judged on its members, not on its signature function(xs:integer) as item()*: `[7] instance of function(xs:integer) as xs:integer` is true (2.5.5.9: false), `[7] instance of function(xs:int) as item()*` is false (true)",
  None, J(ARR, 'function(xs:integer) as xs:integer'), 'C18/instance/typed-function-test-on-array/false-positive'),
 ('known_function_test_on_map_api', 'C18/api/typed-function-test-on-map/*', "match_sequence_type: same as instance of for maps against typed function tests",
  None, J(MAP, 'function(xs:integer) as xs:string?'), 'C18/api/typed-function-test-on-map/false-positive'),
 ('known_function_test_on_array_api', 'C18/api/typed-function-test-on-array/*', "match_sequence_type: same as instance of for arrays against typed function tests",
  None, J(ARR, 'function(xs:integer) as xs:integer'), 'C18/api/typed-function-test-on-array/false-positive'),
 ('known_function_test_unsound_instance', 'C18/instance/typed-function-test/subtype-unsound/*',
  "typed function tests inherit the unsound occurrence handling of is_sequence_type_restriction: `function($a as xs:integer) as xs:integer {$a} instance of function(xs:integer?) as xs:integer` is true",
  'fix03', J(F_INT, 'function(xs:integer?) as xs:integer'), 'C18/instance/typed-function-test/subtype-unsound/1<-?'),
 ('known_function_test_unsound_api', 'C18/api/typed-function-test/subtype-unsound/*', "match_sequence_type: same as instance of",
  'fix03', J(F_INT, 'function(xs:integer?) as xs:integer'), 'C18/api/typed-function-test/subtype-unsound/1<-?'),
 ('known_function_test_incomplete_instance', 'C18/instance/typed-function-test/subtype-incomplete/*',
  "is_sequence_type_restriction is incomplete (no xs:numeric, no element(N)/element(), no map()/array() covariance, item()* does not cover item()+ ...), so `abs#1 instance of function(xs:integer) as xs:numeric?` and `function($a) {$a} instance of function(item()+) as item()*` are false",
  None, J(['FN', 'abs#1'], 'function(xs:integer) as xs:numeric?'), 'C18/instance/typed-function-test/subtype-incomplete/?<-1'),
 ('known_function_test_incomplete_api', 'C18/api/typed-function-test/subtype-incomplete/*', "match_sequence_type: same as instance of",
  None, J(['FN', 'abs#1'], 'function(xs:integer) as xs:numeric?'), 'C18/api/typed-function-test/subtype-incomplete/?<-1'),
 ('known_api_namespace_node', 'C18/api/namespace-node-test/false-negative',
  "match_sequence_type(namespace node, 'namespace-node()') is false: the matcher compares the text with f'{node_kind}()' = 'namespace()'",
  'fix05', J(['N', 9], 'namespace-node()'), 'C18/api/namespace-node-test/false-negative'),
 ('known_api_pi_name', 'C18/api/pi-name-test/false-negative',
  "match_sequence_type(PI node, 'processing-instruction(tgt)') is false for every name: only element/attribute tests with arguments are handled",
  'fix05', J(['N', 8], 'processing-instruction(tgt)'), 'C18/api/pi-name-test/false-negative'),
 ('known_api_nested_function_occurrence', 'C18/api/occurrence-after-nested-function-test/*',
  "match_sequence_type: an occurrence indicator behind map()/array() tests that contain a typed function test is not recognised (the text contains ') as '): `match_sequence_type([], 'array(function() as item()*)?')` is false",
  None, J(['S', []], 'array(function() as item()*)?'), 'C18/api/occurrence-after-nested-function-test/false-negative'),
 ('known_api_function_test_split', 'C18/api/typed-function-test/string-split-of-nested-parameters/*',
  "match_sequence_type splits a typed function test at ', ' and at the first ') as ': parameters such as map(K, V) or function(A) as R are cut in pieces, `for-each#2` does not match its own signature",
  None, J(['FN', 'for-each#2'], 'function(item()*, function(item()) as item()*) as item()*'), 'C18/api/typed-function-test/string-split-of-nested-parameters/false-negative'),
 ('known_treat_context_accepts', 'C18/treat/kind-test/accepts-nonmatching',
  "`V treat as K` with K a kind test / item() / function, map or array test evaluates K against the OUTER context item instead of each item of V: `1 treat as node()` returns 1 when the context item is a node",
  'fix02', J(INT, 'node()', ctx=1), 'C18/treat/kind-test/accepts-nonmatching'),
 ('known_treat_context_rejects', 'C18/treat/kind-test/rejects-matching:XPDY0050',
  "same cause: `/a/b[1] treat as element(b)` raises XPDY0050 although `instance of` is true; `$f treat as function(*)` always raises",
  'fix02', J(['N', 2], 'element(b)', ctx=None), 'C18/treat/kind-test/rejects-matching:XPDY0050'),
]
SUB = [
 ('1<-?', "is_sequence_type_restriction('xs:integer', 'xs:integer?') is True although () matches only the second (occurrence block strips the ? of st2 when st1 has no indicator)"),
 ('1<-empty', "is_sequence_type_restriction('item()', 'empty-sequence()') is True"),
 ('+<-empty', "is_sequence_type_restriction('item()+', 'empty-sequence()') is True"),
 ('1<-1/typed-function-test', "a trailing ?/* of the return type of a typed function test is taken for an occurrence indicator of the function test: R('function(xs:integer) as xs:integer', 'function(xs:integer) as xs:integer?') is True"),
]
known = []
def add(name, pat, what, fixed_by, wit, expect):
    if fixed_by:
        name = name.replace('known_', fixed_by + '_')
    ent = {'status': 'known', 'property': 'C18', 'bucket': pat, 'what': what, 'witness': f'regressions/C18/{name}.json'}
    if fixed_by:
        ent['fixed_by'] = f'proposed/C18/{fixed_by}.diff'
    known.append(ent)
    check, case = wit
    ds = c18.judge(check, case)
    got = {d.bucket for d in ds}
    if expect is None:
        expect = sorted(got)[0]
    ok = expect in got
    print(('ok  ' if ok else 'MISS'), name, expect if ok else sorted(got))
    rec = {'property': 'C18', 'check': check, 'case': case}
    if not fixed_by:
        rec['expect_bucket'] = expect
    json.dump(rec, open(f'/verif/regressions/C18/{name}.json', 'w'), indent=1)
E.append(('known_api_parenthesized', 'C18/api/parenthesized-item-type/*',
  "match_sequence_type does not know parenthesized item types: match_sequence_type(7, '(xs:integer)') is false / raises",
  None, J(INT, '(xs:integer)'), None))
for e in E:
    add(*e)
G = lambda *ts: ('subtype-gen', {'types': list(ts)})
S = [
 ('known_subtype_unsound_optional', 'C18/subtype/unsound/1<-?*',
  "is_sequence_type_restriction('xs:integer', 'xs:integer?') is True (\"xs:integer? restricts xs:integer\") although () matches only xs:integer?: when st1 has no occurrence indicator a trailing ? of st2 is simply stripped. Used by match_function_test, so function items match function tests they must not match",
  'fix03', G('xs:integer', 'xs:integer?', 'xs:decimal'), 'C18/subtype/unsound/1<-?'),
 ('known_subtype_unsound_empty', 'C18/subtype/unsound/1<-empty*',
  "is_sequence_type_restriction('item()', 'empty-sequence()') is True: the early empty-sequence() branch falls through to `st1 == 'item()'`; with a typed function test as st1 its return type's * is taken for an occurrence of st1",
  'fix03', G('item()', 'empty-sequence()', 'xs:decimal'), 'C18/subtype/unsound/1<-empty'),
 ('known_subtype_unsound_plus_empty', 'C18/subtype/unsound/+<-empty*',
  "is_sequence_type_restriction('item()+', 'empty-sequence()') is True", 'fix03',
  G('item()+', 'empty-sequence()', 'xs:decimal'), 'C18/subtype/unsound/+<-empty'),
 ('known_subtype_not_transitive_star', 'C18/subtype/not-transitive/*<-*',
  "not transitive: R('xs:int*', 'xs:int') and R('xs:int', 'xs:int?') hold but R('xs:int*', 'xs:int?') does not (second premise is the unsound one)",
  'fix03', G('xs:int*', 'xs:int', 'xs:int?'), 'C18/subtype/not-transitive/*<-?'),
 ('known_subtype_not_transitive_plus', 'C18/subtype/not-transitive/+<-*',
  "not transitive: R('xs:int+', 'xs:int') and R('xs:int', 'xs:int?') but not R('xs:int+', 'xs:int?')",
  'fix03', G('xs:int+', 'xs:int', 'xs:int?'), 'C18/subtype/not-transitive/+<-?'),
 ('known_subtype_not_transitive_one', 'C18/subtype/not-transitive/1<-*',
  "not transitive: R('xs:int', 'xs:int?') and R('xs:int?', 'empty-sequence()') but not R('xs:int', 'empty-sequence()')",
  'fix03', G('xs:int', 'xs:int?', 'empty-sequence()'), 'C18/subtype/not-transitive/1<-empty'),
]
for e in S:
    add(*e)
def SG(fn, arity, args, ret, ctx=None):
    return ('signature', {'fn': fn, 'arity': arity, 'args': args, 'doc': 'et', 'ctx': ctx})
EMPTYF = ['F', ['item()*', 'item()'], 'item()*', '()']
X = [
 ('known_sig_fold_left', 'C18/signature/fn:fold-left#3/returns-python-None-as-item',
  "fn:fold-left((), (), $f) returns [None] - a python None inside the result list (count() of it is 1) - instead of the empty sequence; declared item()*", 'fix04',
  SG('fn:fold-left', 3, [['S', []], ['S', []], EMPTYF], 'item()*'), 'C18/signature/fn:fold-left#3/returns-python-None-as-item'),
 ('known_sig_fold_right', 'C18/signature/fn:fold-right#3/returns-python-None-as-item', "fn:fold-right((), (), $f) returns [None] (same cause)", 'fix04',
  SG('fn:fold-right', 3, [['S', []], ['S', []], EMPTYF], 'item()*'), 'C18/signature/fn:fold-right#3/returns-python-None-as-item'),
 ('known_sig_avg', 'C18/signature/fn:avg#1/returns-empty',
  "fn:avg is registered as `function(xs:anyAtomicType*) as xs:anyAtomicType`; fn:avg(()) returns the empty sequence (F&O 3.1 14.4.2 declares xs:anyAtomicType?)", 'fix07',
  SG('fn:avg', 1, [['S', []]], 'xs:anyAtomicType'), 'C18/signature/fn:avg#1/returns-empty'),
 ('known_sig_namespace_uri_1', 'C18/signature/fn:namespace-uri#1/returns-xs:string',
  "fn:namespace-uri(()) and fn:namespace-uri(text/comment/document node) return the python str '' (xs:string); declared and F&O 3.1 13.4: xs:anyURI (`namespace-uri(()) instance of xs:anyURI` is false)", 'fix06',
  SG('fn:namespace-uri', 1, [['S', []]], 'xs:anyURI'), 'C18/signature/fn:namespace-uri#1/returns-xs:string'),
 ('known_sig_namespace_uri_0', 'C18/signature/fn:namespace-uri#0/returns-xs:string', "fn:namespace-uri() on a nameless context node returns xs:string '' (same cause)", 'fix06',
  SG('fn:namespace-uri', 0, [], 'xs:anyURI', ctx=6), 'C18/signature/fn:namespace-uri#0/returns-xs:string'),
]
for e in X:
    add(*e)
json.dump(known, open('/verif/proposed/C18/known.json', 'w'), indent=1)
print(len(known), 'entries')
