import sys, os
sys.path.insert(0, os.path.join(os.path.dirname(os.path.abspath(__file__)), "..", "..", "C08", "tools"))
from c08_fixes import rep

def fix01(root):   # each evaluation of an inline function expression yields a new function item
    rep(root, 'elementpath/xpath30/_xpath30_functions.py',
"""        elif self.label.endswith('function'):
            self.variables = context.variables.copy()  # like a closure
            return self
""",
"""        elif self.label.endswith('function'):
            # each evaluation yields a new function item with its own closure
            func = copy(self)
            func.variables = context.variables.copy()
            return func
""")

def fix02(root):   # fn:sort / deep_compare: NaN key is less than a non-float key also as second operand
    rep(root, 'elementpath/compare.py',
"""                    elif isinstance(value2, float):
                        if math.isnan(value2):
                            return -1
""",
"""                    elif isinstance(value2, float):
                        if math.isnan(value2):
                            return 1
""")

def fix03(root):   # partial application by dynamic call
    rep(root, 'elementpath/xpath30/_xpath30_operators.py',
"""            if any(x.symbol == '?' and not x for x in tokens):
                func.check_arguments_number(len(tokens))
                func = copy(func)
                func[:] = tokens
                func.to_partial_function()
                return func
""",
"""            if any(x.symbol == '?' and not x for x in tokens):
                func.check_arguments_number(len(tokens))
                # the fixed arguments are evaluated now; the new function item gets its own
                # argument list (placeholders of a partial function are filled in order)
                values = iter([
                    x if x.symbol == '?' and not x else
                    ValueToken(self.parser, value=x.evaluate(context)) for x in tokens
                ])
                partial = func.label.endswith('partial function')
                func = copy(func)
                func._items = [
                    next(values) if not partial or x.symbol == '?' and not x else x
                    for x in (func._items if partial else tokens)
                ]
                func.to_partial_function()
                return func
""")



def fix04(root):   # inline function items have an arity
    rep(root, 'elementpath/xpath30/_xpath30_functions.py',
"""            self.parser.advance(')')

        elif self.parser.next_token.symbol == '*':
            self.label = 'function test'""",
"""            self.parser.advance(')')
            self.nargs = len(self.varnames)  # the arity of the function item

        elif self.parser.next_token.symbol == '*':
            self.label = 'function test'""")


def fix05(root):   # dynamic call of a parenthesized non-function raises XPTY0004
    rep(root, 'elementpath/xpath30/_xpath30_operators.py',
"""        elif self[0].symbol == '(':
            if not isinstance(value, list):
                return value
            elif any(not isinstance(x, XPathFunction) for x in value):
                return value

""", "\n")


def fix06(root):   # an inline function call binds its variables in its own copy of the variable map
    rep(root, 'elementpath/xpath30/_xpath30_functions.py',
"""        context = copy(context)
        if self.variables and context is not None:
            context.variables.update(self.variables)
""",
"""        context = copy(context)
        if context is not None:
            # own variable bindings: nothing leaks into (or is clobbered in) the caller's scope
            context.variables = context.variables.copy()
            if self.variables:
                context.variables.update(self.variables)
""")


def fix07(root):   # fold-left / fold-right with an empty $zero
    p = 'elementpath/xpath30/_xpath30_functions.py'
    s = open(os.path.join(root, p)).read()
    old = """    zero = self.get_argument(context, index=1)

    result = zero
"""
    new = """    zero = self.get_argument(context, index=1)

    result = [] if zero is None else zero  # an empty $zero is the empty sequence, not None
"""
    assert s.count(old) == 2
    open(os.path.join(root, p), 'w').write(s.replace(old, new))


def fix08(root):   # for-each-pair evaluates both sequences before calling the function
    rep(root, 'elementpath/xpath30/_xpath30_functions.py',
"""    for item1, item2 in zip(self[0].select(context), self[1].select(context)):
        result = func(item1, item2, context=context)""",
"""    # both sequences are evaluated first: a lazy one can have an inner focus active
    seq1 = [x for x in self[0].select(context)]
    seq2 = [x for x in self[1].select(context)]
    for item1, item2 in zip(seq1, seq2):
        result = func(item1, item2, context=context)""")


if __name__ == '__main__':
    root = sys.argv[1]
    for name in sys.argv[2:]:
        globals()[name](root)
