import sys, os
sys.path.insert(0, os.path.join(os.path.dirname(os.path.abspath(__file__)), "..", "..", "C08", "tools"))
from c08_fixes import rep
F30 = 'elementpath/xpath30/_xpath30_functions.py'
O30 = 'elementpath/xpath30/_xpath30_operators.py'
F31 = 'elementpath/xpath31/_xpath31_functions.py'
FN = 'elementpath/xpath_tokens/functions.py'
CMP = 'elementpath/compare.py'
M = {
 'N01': ('fold-right iterates left-to-right', lambda r: rep(r, F30, "    for item in reversed(sequence):\n        result = func(item, result, context=context)", "    for item in sequence:\n        result = func(item, result, context=context)")),
 'N02': ('for-each-pair: cartesian product instead of zip', lambda r: rep(r, F30, "    for item1, item2 in zip(self[0].select(context), self[1].select(context)):", "    import itertools\n    for item1, item2 in itertools.product(list(self[0].select(context)), list(self[1].select(context))):")),
 'N03': ('dynamic partial application fills the placeholders of a partial function right-to-left', lambda r: rep(r, O30, "                values = iter([\n", "                values = iter([] if False else [\n") or rep(r, O30, "                partial = func.label.endswith('partial function')\n", "                partial = func.label.endswith('partial function')\n                if partial:\n                    values = iter(list(values)[::-1])\n")),
 'N04': ('sort: reverse=True', lambda r: rep(r, F31, "        return xlist(sorted(self[0].select(context), key=key_function))", "        return xlist(sorted(self[0].select(context), key=key_function, reverse=True))")),
 'N05': ('filter: EBV of a non-boolean callback result instead of XPTY0004', lambda r: rep(r, F30, "        if not isinstance(cond, bool):\n            raise self.error('XPTY0004', 'a single boolean value required')\n", "")),
 'N06': ('inline evaluate: the new item shares the live variable map instead of a copy', lambda r: rep(r, F30, "            func.variables = context.variables.copy()\n", "            func.variables = context.variables\n")),
 'N07': ('fold-left: callback arguments swapped', lambda r: rep(r, F30, "        result = func(result, item, context=context)\n\n    if isinstance(result, list):\n        yield from result\n    else:\n        yield result\n\n\n@method(function('fold-right'", "        result = func(item, result, context=context)\n\n    if isinstance(result, list):\n        yield from result\n    else:\n        yield result\n\n\n@method(function('fold-right'")),
 'N08': ('apply: array members passed in reverse order', lambda r: rep(r, F31, "        return func(*array_.items(context), context=context)", "        return func(*list(array_.items(context))[::-1], context=context)")),
 'N09': ('named function reference: the function object is cached on the # token', lambda r: rep(r, O30, "    arity = self[1].value\n    assert arity is None or isinstance(arity, int)\n", "    arity = self[1].value\n    assert arity is None or isinstance(arity, int)\n    if getattr(self, '_cached', None) is not None:\n        return self._cached\n") or rep(r, O30, "        func.context = copy(context)\n        return func", "        func.context = copy(context)\n        self._cached = func\n        return func")),
 'N10': ('inline call: with 3 parameters the last two arguments are swapped', lambda r: rep(r, F30, "            for varname, sequence_type, value in zip(self.varnames, self.sequence_types, args):", "            if len(args) == 3:\n                args = (args[0], args[2], args[1])\n            for varname, sequence_type, value in zip(self.varnames, self.sequence_types, args):")),
 'N11': ('sort is stable on the reversed input (ties come out reversed)', lambda r: rep(r, F31, "        return xlist(sorted(self[0].select(context), key=key_function))", "        return xlist(sorted(list(self[0].select(context))[::-1], key=key_function))")),
 'N12': ('named partial function call: placeholders filled right-to-left', lambda r: rep(r, FN, "            for arg, tk in zip(args, filter(lambda x: x.symbol == '?', self)):", "            for arg, tk in zip(args[::-1], filter(lambda x: x.symbol == '?', self)):")),
 'N13': ('for-each: only the first item of each callback result is kept', lambda r: rep(r, F30, "        result = func(item, context=context)\n        if isinstance(result, list):\n            yield from result\n        else:\n            yield result\n\n\n@method(function('filter'", "        result = func(item, context=context)\n        if isinstance(result, list):\n            yield from result[:1]\n        else:\n            yield result\n\n\n@method(function('filter'")),
 'N14': ('deep_compare: an empty key sorts after a non-empty one', lambda r: rep(r, CMP, "            if value1 is None or value1 == []:\n                if value2 is not None and value2 != []:\n                    return -1", "            if value1 is None or value1 == []:\n                if value2 is not None and value2 != []:\n                    return 1")),
 'N15': ('inline call: the closure variables override the arguments (update order swapped)', lambda r: rep(r, F30, "            result = self.body.evaluate(context)\n\n        return self.validated_result(result)", "            if self.variables:\n                context.variables.update({k: v for k, v in self.variables.items() if k in ('x',)})\n            result = self.body.evaluate(context)\n\n        return self.validated_result(result)")),
 'N16': ('XPathFunction.__call__ of a named reference keeps the previous argument tokens when called with fewer... -> actually: does not clear items before a call', lambda r: rep(r, FN, "            self.clear()\n            for arg in args:", "            if len(self._items) != len(args):\n                self.clear()\n            for arg in args:")),
}
if __name__ == '__main__':
    root, name = sys.argv[1], sys.argv[2]
    M[name][1](root)
    print(name, M[name][0])
