#!/venv/bin/python
"""Single entry point:  run.py <Cxx> [--tier quick|thorough] [--replay PATH]

Exit 0: property held on everything explored (KNOWN-FINDING lines may be printed)
Exit 1: violation (line `VIOLATION property=<id> replay=<path>`)
Exit 2: harness error (never reported as a violation)
"""
import argparse
import importlib
import os
import sys

HERE = os.path.dirname(os.path.abspath(__file__))


def main() -> int:
    ap = argparse.ArgumentParser()
    ap.add_argument('prop')
    ap.add_argument('--tier', default=os.environ.get('VERIF_TIER', 'quick'), choices=['quick', 'thorough'])
    ap.add_argument('--replay')
    ap.add_argument('--nproc', type=int)
    args = ap.parse_args()

    # deterministic hashing for every shard: re-exec once with PYTHONHASHSEED=0
    if os.environ.get('PYTHONHASHSEED') != '0' and not os.environ.get('VERIF_KEEP_HASHSEED'):
        env = dict(os.environ, PYTHONHASHSEED='0', PYTHONDONTWRITEBYTECODE='1')
        os.execve(sys.executable, [sys.executable] + sys.argv, env)
    os.environ['PYTHONDONTWRITEBYTECODE'] = '1'
    sys.dont_write_bytecode = True

    repo = os.path.abspath(os.environ.get('VERIF_REPO', '/repo'))
    deps = os.path.join(HERE, '.deps')
    sys.path[:] = [p for p in sys.path if os.path.abspath(p or '.') != repo]
    sys.path.insert(0, repo)
    sys.path.insert(1, HERE)
    if os.path.isdir(deps):
        sys.path.append(deps)
    os.chdir(HERE)
    try:
        import elementpath
        if not os.path.abspath(elementpath.__file__).startswith(repo + os.sep):
            print(f'HARNESS-ERROR elementpath imported from {elementpath.__file__}, not from {repo}')
            return 2
        os.environ['SISSASCHOOL_ELEMENTPATH_VERIF'] = '1'
        from vp import core
        mod = importlib.import_module('vp.checks.' + args.prop.lower())
    except Exception:
        import traceback
        print(f'HARNESS-ERROR property={args.prop} import failed')
        traceback.print_exc()
        return 2
    seed = int(os.environ.get('VERIF_SEED', '1') or '1')
    try:
        if args.replay:
            return core.main_replay(mod, args.replay)
        return core.main_check(mod, args.tier, seed, args.nproc)
    except core.HarnessError as e:
        print(f'HARNESS-ERROR property={args.prop} {e}')
        return 2
    except Exception:
        import traceback
        print(f'HARNESS-ERROR property={args.prop} runner crashed')
        traceback.print_exc()
        return 2


if __name__ == '__main__':
    sys.exit(main())
