#!/bin/bash
# quiet_sweep.sh "<seeds>" [props...] : run the quick tier of every registered check at the given seeds, report alarms
SEEDS=$1; shift
PROPS=${@:-$(/venv/bin/python -c "import json;print(' '.join(c['property_id'] for c in json.load(open('/verif/MANIFEST.json'))['checks']))")}
cd /verif
for S in $SEEDS; do for P in $PROPS; do
  OUT=$(VERIF_SEED=$S /venv/bin/python run.py $P --tier quick --nproc ${NPROC:-8} 2>&1); RC=$?
  echo "seed=$S $P exit=$RC $(echo "$OUT" | grep "^$P quick" | cut -c1-160)"
  if [ $RC != 0 ]; then echo "$OUT" | grep -E "^new bucket|HARNESS" | cut -c1-300 | head -5; fi
done; done
