#!/venv/bin/python
"""second-round adversary prompt: same as round 1 plus the list of code sites already used (to avoid duplicates)"""
import glob, json, subprocess, sys
pid, wt, n = sys.argv[1], sys.argv[2], sys.argv[3]
first = int(sys.argv[4]) if len(sys.argv) > 4 else 4
base = subprocess.run(['/verif/tools/mkmutprompt.py', pid, wt, n], capture_output=True, text=True).stdout
sites = [json.load(open(f)).get('site', '') + ' - ' + json.load(open(f)).get('summary', '')[:140] for f in sorted(glob.glob(f'/verif/seeded/{pid}_*/meta.json'))]
extra = ('\nALREADY TAKEN (an earlier adversary produced these; yours must differ in code site AND in the kind of input/history needed):\n'
         + '\n'.join(' - ' + s for s in sites)
         + f'\nName your output directories {pid}_{first}, {pid}_{first+1}, {pid}_{first+2} (k = {first}..{first+2}).\n'
         + 'Prefer changes that need a multi-step history, an interaction of two features, a configuration (backend lxml vs ElementTree, XSD version, parser version, compatibility mode) or a rarely combined input class.\n')
print(base.replace('Final message:', extra + 'Final message:'))
