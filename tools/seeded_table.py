#!/venv/bin/python
"""Print the markdown table of seeded (independent, sub-agent written) changes and what the checks did with them."""
import glob, json, os
rows = []
for d in sorted(glob.glob('/verif/seeded/*/meta.json')):
    m = json.load(open(d)); sid = os.path.basename(os.path.dirname(d))
    runs = m.get('check_runs', {})
    q = runs.get('quick'); t = runs.get('thorough')
    sup = m.get('superseded')
    def cell(r):
        if sup and (not r or not r['detected']):
            return 'superseded: ' + sup
        if not r: return 'not run'
        return ('caught (%ds): %s' % (r['wall_s'], ', '.join(b.split('/', 1)[-1] for b in r['new_buckets'][:2]))) if r['detected'] else 'MISSED'
    note = m.get('strengthened', '')
    cross = [(k.split(':', 1)[1], r) for k, r in runs.items() if ':' in k and r.get('detected')]
    crosstxt = ''.join(f' / caught by the {c} check ({r["wall_s"]}s): ' + ', '.join(b.split('/', 1)[-1] for b in r['new_buckets'][:2]) for c, r in cross)
    rows.append(f"| {sid} | {m.get('site','')} | {m.get('needs','')[:150].replace('|','/')} | {cell(q)}{' / thorough: ' + cell(t) if t else ''}{crosstxt} | {note} |")
print('| id | site | needs to manifest | property check (quick tier) | follow-up |\n|---|---|---|---|---|')
print('\n'.join(rows))
