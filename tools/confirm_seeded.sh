#!/bin/bash
# confirm_seeded.sh <PID> <wt>   : confirm every _out/<PID>_k in the worktree, copy confirmed ones to /verif/seeded/
PID=$1; WT=$2
for D in $WT/_out/${PID}_*; do
  [ -d "$D" ] || continue
  K=$(basename $D)
  git -C $WT checkout -- elementpath 2>/dev/null
  ( cd $WT && PYTHONPATH=$WT timeout 300 /venv/bin/python $D/demo.py >/tmp/demo_clean.out 2>&1 ); RC_CLEAN=$?
  if ! git -C $WT apply $D/patch.diff; then echo "$K: patch does not apply"; continue; fi
  ( cd $WT && PYTHONPATH=$WT timeout 300 /venv/bin/python $D/demo.py >/tmp/demo_mut.out 2>&1 ); RC_MUT=$?
  SUITE=$(/venv/bin/python /verif/tools/repo_suite.py $WT | head -1)
  git -C $WT checkout -- elementpath
  echo "$K: demo clean=$RC_CLEAN mutated=$RC_MUT suite: $SUITE"
  if [ $RC_CLEAN = 0 ] && [ $RC_MUT != 0 ] && echo "$SUITE" | grep -q 'regressions=0'; then
    mkdir -p /verif/seeded/$K
    cp $D/patch.diff $D/demo.py /verif/seeded/$K/
    /venv/bin/python - $D/meta.json /verif/seeded/$K/meta.json "$SUITE" <<'PY'
import json, sys
m = json.load(open(sys.argv[1]))
m['confirmed'] = {'demo_exit_unchanged': 0, 'demo_exit_with_change': 'non-zero', 'repo_suite': sys.argv[3],
                  'how': 'tools/confirm_seeded.sh in a scratch git worktree of /repo: demo on clean tree, git apply, demo, tools/repo_suite.py, revert'}
m['base_commit'] = __import__('subprocess').run(['git', '-C', '/repo', 'rev-parse', '--short', 'HEAD'], capture_output=True, text=True).stdout.strip()
json.dump(m, open(sys.argv[2], 'w'), indent=1)
PY
    tail -3 /tmp/demo_mut.out | cut -c1-200
  else
    echo "  NOT CONFIRMED"; tail -3 /tmp/demo_mut.out
  fi
done
