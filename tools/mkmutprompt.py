#!/venv/bin/python
import json, sys
pid, wt, n = sys.argv[1], sys.argv[2], sys.argv[3]
p = [json.loads(l) for l in open('/verif/properties.jsonl') if json.loads(l)['id'] == pid][0]
text = f"{p['title']}\n{p['statement']}\nQuantified over: {p['quantifier']['text']}\nAnchored in: {', '.join(p['anchors']['files'])}"
s = open('/verif/tools/mutant_prompt.md').read()
print(s.replace('{WT}', wt).replace('{PID}', pid).replace('{PROPERTY_TEXT}', text).replace('{N}', n))
