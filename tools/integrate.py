#!/venv/bin/python
"""integrate.py <Cxx> [--skip fix03,fix07] [--no-run]
Applies proposed/<Cxx>/fixNN.diff to /repo one commit each (suite must stay green), merges known findings,
records fixed entries, registers the manifest entry."""
import glob, json, os, subprocess, sys
V = '/verif'
pid = sys.argv[1]
skip = set()
for a in sys.argv[2:]:
    if a.startswith('--skip='):
        skip = set(a.split('=', 1)[1].split(','))
pd = f'{V}/proposed/{pid}'

def sh(*cmd, **kw):
    return subprocess.run(cmd, capture_output=True, text=True, **kw)

applied = []
for diff in sorted(glob.glob(f'{pd}/fix*.diff')):
    name = os.path.basename(diff)[:-5]
    if name in skip:
        print(f'{name}: skipped on request'); continue
    done = f'{pd}/{name}.applied'
    if os.path.exists(done):
        print(f'{name}: already applied {open(done).read().strip()}'); continue
    msg = open(f'{pd}/{name}.msg').read().strip().splitlines()[0]
    if not msg.startswith('fix:'):
        msg = 'fix: ' + msg
    c = sh('git', '-C', '/repo', 'apply', '--check', diff)
    if c.returncode:
        c3 = sh('git', '-C', '/repo', 'apply', '--3way', diff)
        if c3.returncode:
            print(f'{name}: DOES NOT APPLY: {c.stderr.strip()[:300]}'); sh('git', '-C', '/repo', 'checkout', '--', '.'); continue
        sh('git', '-C', '/repo', 'reset', '-q')
    else:
        sh('git', '-C', '/repo', 'apply', diff)
    s = sh('/venv/bin/python', f'{V}/tools/repo_suite.py')
    line = s.stdout.strip().splitlines()[0] if s.stdout.strip() else s.stderr[-300:]
    if 'regressions=0' not in line:
        print(f'{name}: SUITE REGRESSION, reverted: {s.stdout[:600]}')
        sh('git', '-C', '/repo', 'checkout', '--', '.'); sh('git', '-C', '/repo', 'clean', '-fdq', 'elementpath')
        continue
    sh('git', '-C', '/repo', 'add', '-A', 'elementpath')
    sh('git', '-C', '/repo', 'commit', '-q', '-m', msg)
    h = sh('git', '-C', '/repo', 'rev-parse', '--short', 'HEAD').stdout.strip()
    open(done, 'w').write(h)
    applied.append((name, h, msg))
    print(f'{name}: applied as {h}: {msg[:100]}')

# findings
kf = json.load(open(f'{V}/known_findings.json'))
have = {(e.get('property'), e.get('bucket'), e.get('commit')) for e in kf['findings']}
kp = f'{pd}/known.json'
if os.path.exists(kp):
    import re
    for e in json.load(open(kp)):
        fx = str(e.get('proposed_fix') or e.get('fixed_by') or '')
        names = re.findall(r'fix\d+', fx)
        if names and all(os.path.exists(f'{pd}/{n}.applied') for n in names):
            print('known entry dropped (repaired by', names, '):', e.get('bucket')); continue
        e = {k: v for k, v in e.items() if k in ('status', 'property', 'bucket', 'what', 'witness')}
        if (e['property'], e.get('bucket'), None) not in have and e.get('status') == 'known':
            kf['findings'].append(e); have.add((e['property'], e.get('bucket'), None))
for name, h, msg in applied:
    wit = sorted(glob.glob(f'{V}/regressions/{pid}/{name}*.json'))
    ent = {'status': 'fixed', 'property': pid, 'commit': h, 'what': msg[5:].strip()}
    if wit:
        ent['witness'] = ', '.join(os.path.relpath(w, V) for w in wit[:4])
    kf['findings'].append(ent)
json.dump(kf, open(f'{V}/known_findings.json', 'w'), indent=1)

mp = f'{pd}/manifest.json'
if os.path.exists(mp):
    src = json.load(open(f'{V}/tools/manifest_src.json'))
    m = json.load(open(mp))
    src['checks'][pid] = {'text': m['text'], 'design_ref': m.get('design_ref', f'DESIGN.md section 5 {pid}'),
                          'note': m.get('note', ''), 'technique': m.get('technique', 'property-based testing'),
                          'category': m.get('category', 'exploration')}
    json.dump(src, open(f'{V}/tools/manifest_src.json', 'w'), indent=1)
print('applied:', [(n, h) for n, h, _ in applied])
