#!/bin/bash
# chain_integrate.sh Cxx Cyy ... : integrate several properties one after the other (logs in /tmp/int_<Cxx>.log)
cd /verif
for P in "$@"; do tools/integrate.py $P > /tmp/int_$P.log 2>&1; done
echo "CHAIN-DONE $*" >> /tmp/int_chain.done
