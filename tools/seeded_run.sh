#!/bin/bash
# seeded_run.sh <seed-id> [tier]  : run the property's check against the seeded change on a scratch copy of /repo
ID=$1; TIER=${2:-quick}
P=${PROP:-${ID%%_*}}
D=/tmp/vp_seed_${ID}_$$
rm -rf $D; cp -a /repo $D; rm -rf $D/.git; (cd $D && git init -q . >/dev/null 2>&1)
if ! (cd $D && git apply /verif/seeded/$ID/patch.diff); then echo "SEEDED $ID: patch does not apply to current /repo"; rm -rf $D; exit 3; fi
T0=$(date +%s)
OUT=$(cd /verif && VERIF_REPO=$D /venv/bin/python run.py $P --tier $TIER --nproc ${NPROC:-16} 2>&1); RC=$?
T1=$(date +%s)
echo "SEEDED $ID ($TIER): exit=$RC wall=$((T1-T0))s"
echo "$OUT" | grep -E '^new bucket|^regression case' | cut -c1-260 | head -5
echo "$OUT" | grep -E 'HARNESS' | head -3
rm -rf $D
/venv/bin/python - "$ID" "$TIER" "$RC" "$((T1-T0))" "$(echo "$OUT" | grep -E '^new bucket|^regression case' | sed -e 's/^new bucket \([^ ]*\).*/\1/' -e 's/^regression case \([^ ]*\) shows bucket \([^ :]*\).*/\2[regression-replay:\1]/' | head -8 | tr '\n' ' ')" <<'PY'
import json, sys
sid, tier, rc, wall, buckets = sys.argv[1:6]
p = f'/verif/seeded/{sid}/meta.json'
m = json.load(open(p))
m.setdefault('check_runs', {})[tier if sid.split('_')[0] == __import__('os').environ.get('PROP', sid.split('_')[0]) else tier + ':' + __import__('os').environ['PROP']] = {'cmd': f'VERIF_REPO=<scratch copy with patch> run.py {sid.split("_")[0]} --tier {tier}', 'exit': int(rc), 'wall_s': int(wall),
                                       'detected': rc == '1', 'new_buckets': buckets.split()}
json.dump(m, open(p, 'w'), indent=1)
PY
