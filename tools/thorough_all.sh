#!/bin/bash
# run the thorough tier of the given properties one after the other; one summary line each
for P in "$@"; do
  T0=$(date +%s); OUT=$(/venv/bin/python run.py $P --tier thorough 2>&1); RC=$?; T1=$(date +%s)
  echo "THOROUGH $P exit=$RC wall=$((T1-T0))s $(echo "$OUT" | grep "^$P thorough" | cut -c1-170)"
  echo "$OUT" | grep -E "^new bucket|HARNESS|VIOLATION" | cut -c1-300 | head -6
done
