#!/venv/bin/python
"""prune_stale.py <Cxx> : drop known findings whose witness no longer reproduces (repaired as a side effect of
another fix: commit) and turn the witness into a plain regression case that must pass from now on."""
import json, os, re, subprocess, sys
pid = sys.argv[1]
out = subprocess.run(['/venv/bin/python', '/verif/run.py', pid, '--tier', 'quick'], capture_output=True, text=True,
                     env=dict(os.environ, VERIF_ONLY_REGRESSIONS='1')).stdout
stale = [x for x in re.findall(r'^note: (\S+\.json): expected known bucket (\S+) no longer reproduces', out, re.M) if not x[1].endswith('*')]
kf = json.load(open('/verif/known_findings.json'))
for fname, bucket in stale:
    p = f'/verif/regressions/{pid}/{fname}'
    n = len(kf['findings'])
    kf['findings'] = [e for e in kf['findings'] if not (e['property'] == pid and e.get('status') == 'known' and e['bucket'] == bucket)]
    r = json.load(open(p)); r.pop('expect_bucket', None)
    r['note'] = f'was the witness of known finding {bucket}; repaired as a side effect of another fix: commit, must pass now'
    newp = p.replace('known_', 'fixed_') if 'known_' in fname else p
    json.dump(r, open(newp, 'w'), indent=1)
    if newp != p:
        os.remove(p)
    print('dropped', bucket, 'entries removed:', n - len(kf['findings']), '->', os.path.basename(newp))
json.dump(kf, open('/verif/known_findings.json', 'w'), indent=1)
