#!/venv/bin/python
"""Regenerate MANIFEST.json from tools/manifest_src.json (claimed checks + not_applicable)."""
import json, os
here = os.path.dirname(os.path.dirname(os.path.abspath(__file__)))
src = json.load(open(os.path.join(here, 'tools', 'manifest_src.json')))
props = [json.loads(l)['id'] for l in open(os.path.join(here, 'properties.jsonl'))]
checks, na = [], []
for pid in props:
    c = src['checks'].get(pid)
    if c and os.path.exists(os.path.join(here, 'vp', 'checks', pid.lower() + '.py')):
        checks.append({
            'property_id': pid,
            'quick_cmd': f'/venv/bin/python run.py {pid} --tier quick',
            'thorough_cmd': f'/venv/bin/python run.py {pid} --tier thorough',
            'evidence_file': f'evidence/{pid}.json',
            'replay_cmd_template': f'/venv/bin/python run.py {pid} --replay {{path}}',
            'engine': 'vp-runner',
            'level_claimed': {'category': c.get('category', 'exploration'), 'text': c['text'], 'design_ref': c['design_ref']},
            'level_note': c['note'],
            'technique': c['technique'],
        })
    else:
        na.append({'property_id': pid, 'reason': src['not_applicable'].get(pid, 'check not built yet in this framework (planned, see DESIGN.md section 5); not claimed until its check is registered')})
m = {
    'version': 1,
    'setup_cmd': src['setup_cmd'],
    'hooks': src['hooks'],
    'engines': src['engines'],
    'checks': checks,
    'notes': src['notes'],
    'not_applicable': na,
}
json.dump(m, open(os.path.join(here, 'MANIFEST.json'), 'w'), indent=1)
print('claimed', [c['property_id'] for c in checks], 'not_applicable', [n['property_id'] for n in na])
