#!/venv/bin/python
"""Run the repository's suite (guard off) and compare with BASELINE.json stable_pass.
usage: repo_suite.py [repo_dir]   exit 0 iff every stable_pass test passes."""
import json, os, subprocess, sys, tempfile, xml.etree.ElementTree as ET
repo = sys.argv[1] if len(sys.argv) > 1 else '/repo'
base = json.load(open('/root/.vp/BASELINE.json'))
want = set(base['stable_pass'])
with tempfile.TemporaryDirectory() as d:
    out = os.path.join(d, 'j.xml')
    env = {k: v for k, v in os.environ.items() if k != 'SISSASCHOOL_ELEMENTPATH_VERIF'}
    env['PYTHONPATH'] = repo
    p = subprocess.run(['/venv/bin/python', '-m', 'pytest', '-q', '-n', '14', '-p', 'no:cacheprovider', '--timeout=900',
                        '--continue-on-collection-errors', f'--junitxml={out}'], cwd=repo, env=env,
                       capture_output=True, text=True)
    passed = set()
    failed = []
    for tc in ET.parse(out).getroot().iter('testcase'):
        name = f"{tc.get('classname')}::{tc.get('name')}"
        if any(c.tag in ('failure', 'error') for c in tc):
            failed.append(name)
        elif not any(c.tag == 'skipped' for c in tc):
            passed.add(name)
missing = sorted(want - passed)
print(f'stable_pass={len(want)} passed_now={len(passed)} failed_now={len(failed)} regressions={len(missing)}')
for m in missing[:40]:
    print('  REGRESSION', m)
sys.exit(1 if missing else 0)
