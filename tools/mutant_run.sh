#!/bin/bash
# usage: mutant_run.sh <Cxx> <name> <file-relative-to-repo> <python-expr-old> <python-expr-new> [extra run args]
# makes a scratch copy of /repo, replaces the first occurrence of OLD by NEW in FILE, runs the quick check on it
set -u
P=$1; NAME=$2; F=$3; OLD=$4; NEW=$5
D=/tmp/vp_mut_${P}_$$
rm -rf $D; cp -a /repo $D; rm -rf $D/.git
/venv/bin/python - "$D/$F" "$OLD" "$NEW" <<'PY' || { rm -rf $D; exit 3; }
import sys
p, old, new = sys.argv[1:4]
s = open(p).read()
if old not in s:
    print('MUTANT-ERROR: pattern not found'); sys.exit(1)
open(p, 'w').write(s.replace(old, new, 1))
PY
T0=$(date +%s)
OUT=$(cd /verif && VERIF_REPO=$D /venv/bin/python run.py $P --tier ${TIER:-quick} --nproc ${NPROC:-8} 2>&1)
RC=$?
T1=$(date +%s)
NB=$(echo "$OUT" | grep -c '^new bucket')
echo "MUTANT $P $NAME: exit=$RC new_buckets=$NB wall=$((T1-T0))s"
echo "$OUT" | grep '^new bucket' | cut -c1-220 | head -4
if [ "${SUITE:-0}" = 1 ]; then /verif/tools/repo_suite.py $D | head -3; fi
rm -rf $D
