#!/venv/bin/python
"""mkreg.py <Cxx> <check> <name> '<json case>' [expect_bucket]  -> regressions/<Cxx>/<name>.json"""
import json, os, sys
prop, check, name, case = sys.argv[1:5]
d = os.path.join(os.path.dirname(os.path.dirname(os.path.abspath(__file__))), 'regressions', prop)
os.makedirs(d, exist_ok=True)
rec = {'property': prop, 'check': check, 'case': json.loads(case)}
if len(sys.argv) > 5:
    rec['expect_bucket'] = sys.argv[5]
json.dump(rec, open(os.path.join(d, name + '.json'), 'w'), indent=1)
print('wrote', os.path.join(d, name + '.json'))
