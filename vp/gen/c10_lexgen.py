"""C10 generators: valid lexical forms of the built-in atomic types (written from the XSD grammars, independent of
elementpath) and near-valid mutations.  Everything is a pure function of a splitmix64 stream (`Mix`) seeded by
one hypothesis-drawn integer, so that one hypothesis example yields a whole batch of cases cheaply."""
from __future__ import annotations

import base64


class Mix:
    """splitmix64: deterministic stream of choices derived from one drawn integer"""

    def __init__(self, seed: int):
        self.x = seed & 0xFFFFFFFFFFFFFFFF

    def next(self) -> int:
        self.x = (self.x + 0x9E3779B97F4A7C15) & 0xFFFFFFFFFFFFFFFF
        z = self.x
        z = ((z ^ (z >> 30)) * 0xBF58476D1CE4E5B9) & 0xFFFFFFFFFFFFFFFF
        z = ((z ^ (z >> 27)) * 0x94D049BB133111EB) & 0xFFFFFFFFFFFFFFFF
        return z ^ (z >> 31)

    def below(self, n: int) -> int:
        return self.next() % n

    def pick(self, seq):
        return seq[self.next() % len(seq)]

    def chance(self, num: int, den: int) -> bool:
        return self.next() % den < num


INT_BOUNDS = {
    'integer': (None, None), 'nonPositiveInteger': (None, 0), 'negativeInteger': (None, -1),
    'long': (-2 ** 63, 2 ** 63 - 1), 'int': (-2 ** 31, 2 ** 31 - 1), 'short': (-2 ** 15, 2 ** 15 - 1),
    'byte': (-2 ** 7, 2 ** 7 - 1), 'nonNegativeInteger': (0, None), 'positiveInteger': (1, None),
    'unsignedLong': (0, 2 ** 64 - 1), 'unsignedInt': (0, 2 ** 32 - 1), 'unsignedShort': (0, 2 ** 16 - 1),
    'unsignedByte': (0, 2 ** 8 - 1),
}
INTEGER_TYPES = tuple(INT_BOUNDS)
STRING_TYPES = ('string', 'normalizedString', 'token', 'language', 'NMTOKEN', 'Name', 'NCName', 'ID', 'IDREF', 'ENTITY')
DATE_TYPES = ('dateTime', 'date', 'time', 'gYearMonth', 'gYear', 'gMonthDay', 'gDay', 'gMonth', 'dateTimeStamp')
DURATION_TYPES = ('duration', 'yearMonthDuration', 'dayTimeDuration')
ALL_TYPES = STRING_TYPES + ('untypedAtomic', 'anyURI', 'QName', 'boolean', 'decimal') + INTEGER_TYPES + \
    ('double', 'float') + DURATION_TYPES + DATE_TYPES + ('hexBinary', 'base64Binary')


def digits(mx: Mix, lo=1, hi=4) -> str:
    return ''.join(mx.pick('0123456789') for _ in range(lo + mx.below(hi - lo + 1)))


def gen_integer(mx: Mix, t='integer') -> str:
    lo, hi = INT_BOUNDS[t]
    k = mx.below(10)
    cands = [0, 1, -1, 7, -12, 100, 255, 256, -128, -129, 127, 128, 32767, 32768, 65535, 65536, 2 ** 31 - 1, 2 ** 31, -2 ** 31,
             -2 ** 31 - 1, 2 ** 32 - 1, 2 ** 32, 2 ** 63 - 1, 2 ** 63, -2 ** 63, -2 ** 63 - 1, 2 ** 64 - 1, 2 ** 64, 10 ** 30, -10 ** 30]
    if k < 4:
        pool = [b for b in (lo, hi) if b is not None]
        pool = [b + d for b in pool for d in (-1, 0, 1)] or cands
        n = mx.pick(pool)
    elif k < 7:
        n = mx.pick(cands)
    else:
        n = int(digits(mx, 1, 5)) * (-1 if mx.below(3) == 0 else 1)
    s = str(abs(n))
    if mx.below(5) == 0:
        s = '0' * (1 + mx.below(3)) + s
    sign = '-' if n < 0 else ('+' if mx.below(5) == 0 else '')
    if n == 0 and mx.below(4) == 0:
        sign = '-'
    return sign + s


def gen_decimal(mx: Mix) -> str:
    k = mx.below(8)
    sign = mx.pick(['', '', '', '-', '+'])
    if k < 4:
        body = digits(mx, 1, 4) + '.' + digits(mx, 1, 4)
    elif k == 4:
        body = digits(mx, 1, 6)
    elif k == 5:
        body = '.' + digits(mx, 1, 3)
    elif k == 6:
        body = digits(mx, 1, 3) + '.'
    else:
        body = mx.pick(['0.0', '000.500', '1.50', '12345678901234567890.123456789', '0.000001', '1000000', '99.990',
                        '0.0000001', '0.000000000000000000015', '0.00000000000000000000000000001', '100000000000000000000',
                        '0.' + '0' * (6 + mx.below(24)) + digits(mx, 1, 4), digits(mx, 18, 30) + '.' + digits(mx, 18, 30),
                        digits(mx, 1, 3) + '0' * (2 + mx.below(20)), '0.' + digits(mx, 20, 30)])
    return sign + body


_DOUBLE_SPECIAL = ['INF', '-INF', 'NaN', '+INF', '1e400', '-1e400', '1e-400', '4.9e-324', '2e-324', '1.7976931348623157e308',
                   '1.7976931348623159e308', '3.4028235e38', '3.4028236e38', '3.40282357e38', '1e-45', '7e-46', '1e-46', '16777217',
                   '16777219', '0.1', '1e21', '1e-7', '1E6', '999999.9', '0.000001', '0.0000009', '-0', '-0.0', '0e0', '1e0',
                   '123456789', '1.00000001', '0.30000001192092896', '33554433']


def gen_double(mx: Mix) -> str:
    k = mx.below(10)
    if k < 3:
        return mx.pick(_DOUBLE_SPECIAL)
    s = gen_decimal(mx)
    if k < 7:
        s += mx.pick('eE') + mx.pick(['', '', '+', '-']) + digits(mx, 1, 2)
    return s


def gen_boolean(mx: Mix) -> str:
    return mx.pick(['true', 'false', '1', '0'])


def gen_duration(mx: Mix, kind='duration') -> str:
    neg = '-' if mx.below(4) == 0 else ''
    d, t = '', ''
    if kind != 'dayTimeDuration':
        if mx.below(2):
            d += digits(mx, 1, 3) + 'Y'
        if mx.below(2):
            d += digits(mx, 1, 3) + 'M'
    if kind != 'yearMonthDuration':
        if mx.below(2):
            d += digits(mx, 1, 3) + 'D'
        if mx.below(2):
            t += digits(mx, 1, 3) + 'H'
        if mx.below(2):
            t += digits(mx, 1, 3) + 'M'
        if mx.below(2):
            t += digits(mx, 1, 3) + ('.' + digits(mx, 1, 4) if mx.below(2) else '') + 'S'
    if not d and not t:
        if kind == 'yearMonthDuration':
            d = mx.pick(['0Y', '0M', '12M', '1Y'])
        else:
            t = mx.pick(['0S', '0.0S', '60S', '1H'])
    return neg + 'P' + d + ('T' + t if t else '')


def gen_tz(mx: Mix) -> str:
    k = mx.below(10)
    if k < 4:
        return ''
    if k < 6:
        return 'Z'
    if k == 6:
        return mx.pick(['+00:00', '-00:00', '+14:00', '-14:00', '+13:59'])
    return mx.pick('+-') + '%02d:%02d' % (mx.below(14), mx.pick([0, 0, 30, 45, 59]))


def gen_year(mx: Mix) -> str:
    k = mx.below(12)
    if k < 6:
        return '%04d' % (1 + mx.below(9999))
    if k < 8:
        return mx.pick(['2000', '1900', '2004', '0001', '9999', '1600', '2100', '0400'])
    if k == 8:
        return '0000'
    if k < 11:
        return '-%04d' % (1 + mx.below(9999))
    return mx.pick(['12000', '-10000', '100000', '2147483647'])


_DIM = [31, 28, 31, 30, 31, 30, 31, 31, 30, 31, 30, 31]


def gen_time_fields(mx: Mix) -> str:
    if mx.below(12) == 0:
        return mx.pick(['24:00:00', '24:00:00.0', '24:00:00.000'])
    s = '%02d:%02d:%02d' % (mx.below(24), mx.below(60), mx.below(60))
    k = mx.below(6)
    if k == 0:
        s += '.' + digits(mx, 1, 6)
    elif k == 1:
        s += mx.pick(['.5', '.500', '.123456', '.000', '.000001', '.10', '.999999'])
    return s


def gen_datetime(mx: Mix, kind='dateTime') -> str:
    y = gen_year(mx)
    mo = 1 + mx.below(12)
    d = 1 + mx.below(_DIM[mo - 1])
    if mx.below(10) == 0:
        mo, d = 2, 29
        y = mx.pick(['2000', '2004', '1996', '0004', '2400'])
    if mx.below(15) == 0:
        mo, d = 12, 31
    tz = gen_tz(mx)
    if kind == 'dateTimeStamp' and tz == '' and mx.below(4):
        tz = 'Z'
    if kind in ('dateTime', 'dateTimeStamp'):
        return '%s-%02d-%02dT%s%s' % (y, mo, d, gen_time_fields(mx), tz)
    if kind == 'date':
        return '%s-%02d-%02d%s' % (y, mo, d, tz)
    if kind == 'time':
        return gen_time_fields(mx) + tz
    if kind == 'gYearMonth':
        return '%s-%02d%s' % (y, mo, tz)
    if kind == 'gYear':
        return y + tz
    if kind == 'gMonthDay':
        if mx.below(6) == 0:
            mo, d = 2, 29
        return '--%02d-%02d%s' % (mo, d, tz)
    if kind == 'gDay':
        return '---%02d%s' % (1 + mx.below(31), tz)
    if kind == 'gMonth':
        return '--%02d%s' % (mo, tz)
    raise ValueError(kind)


def gen_hex(mx: Mix) -> str:
    return ''.join(mx.pick('0123456789abcdefABCDEF') for _ in range(2 * mx.below(5)))


def gen_base64(mx: Mix) -> str:
    raw = bytes(mx.below(256) for _ in range(mx.below(7)))
    s = base64.b64encode(raw).decode()
    if s and mx.below(3) == 0:      # optional single spaces between characters
        out = []
        for c in s:
            out.append(c)
            if mx.below(4) == 0:
                out.append(' ')
        s = ''.join(out).rstrip(' ')
    return s


_NAME_START = 'abcxyzABZ_\xe9'
_NAME_CHARS = _NAME_START + '0123456789.-' + '\xb7\u0301'


def gen_ncname(mx: Mix) -> str:
    return mx.pick(_NAME_START) + ''.join(mx.pick(_NAME_CHARS) for _ in range(mx.below(5)))


def gen_name(mx: Mix) -> str:
    s = gen_ncname(mx)
    k = mx.below(6)
    if k == 0:
        s = ':' + s
    elif k == 1:
        s = s + ':' + gen_ncname(mx)
    return s


def gen_nmtoken(mx: Mix) -> str:
    return ''.join(mx.pick(_NAME_CHARS + ':') for _ in range(1 + mx.below(5)))


def gen_language(mx: Mix) -> str:
    s = ''.join(mx.pick('abcdefXYZ') for _ in range(1 + mx.below(8)))
    for _ in range(mx.below(3)):
        s += '-' + ''.join(mx.pick('abcXYZ0189') for _ in range(1 + mx.below(8)))
    return s


_TEXT = list('abcXYZ019 .-_:/') + [' ', ' ', '\t', '\n', '\r', '\xa0', '\xe9', '\u2003', '\U0001F600']


def gen_text(mx: Mix) -> str:
    return ''.join(mx.pick(_TEXT) for _ in range(mx.below(9)))


_URIS = ['http://example.com/a?b=c#d', 'a/b', '', 'urn:x:y', '../a', 'http://example.com/a%20b', 'mailto:a@b.c', '#f',
         'http://[::1]/', '%zz', 'a#b#c', 'http://a/%', 'http://a/%4', 'a b', 'http://example.com:80/', 'ftp://h/é', ':a', '%41']


def gen_valid(mx: Mix, t: str) -> str:
    """a string from the lexical space of t (mostly; a few generators also emit edge forms the reference judges)"""
    if t in INT_BOUNDS:
        return gen_integer(mx, t)
    if t == 'decimal':
        return gen_decimal(mx)
    if t in ('double', 'float'):
        return gen_double(mx)
    if t == 'boolean':
        return gen_boolean(mx)
    if t in DURATION_TYPES:
        return gen_duration(mx, t)
    if t in DATE_TYPES:
        return gen_datetime(mx, t)
    if t == 'hexBinary':
        return gen_hex(mx)
    if t == 'base64Binary':
        return gen_base64(mx)
    if t in ('NCName', 'ID', 'IDREF', 'ENTITY'):
        return gen_ncname(mx)
    if t == 'Name':
        return gen_name(mx)
    if t == 'NMTOKEN':
        return gen_nmtoken(mx)
    if t == 'language':
        return gen_language(mx)
    if t == 'QName':
        return mx.pick(['xs:', 'xs:', 'fn:', '', '', 'xml:']) + gen_ncname(mx)
    if t == 'anyURI':
        return mx.pick(_URIS)
    return gen_text(mx)


XML_WS = [' ', '\t', '\n', '\r', '  ', ' \n']
OTHER_WS = ['\x0b', '\x0c', '\xa0', '\u2003', '\x85', '\u200b', '\u3000', '\x1f', '\u2028', '\ufeff']
NON_ASCII_DIGITS = ['\u0663', '\uff13', '\u0969', '\xb2']

MUTATIONS = ['ws-xml-outer', 'ws-xml-outer', 'ws-xml-inner', 'ws-other-outer', 'ws-other-outer', 'ws-other-inner', 'plus',
             'underscore', 'underscore', 'nonascii-digit', 'nonascii-digit', 'case', 'delete', 'dup', 'junk', 'swap', 'sign-dup', 'minus']


def mutate(mx: Mix, s: str, how: str) -> str:
    n = len(s)
    if how == 'ws-xml-outer':
        k = mx.below(3)
        w1, w2 = mx.pick(XML_WS), mx.pick(XML_WS)
        return w1 + s if k == 0 else s + w2 if k == 1 else w1 + s + w2
    if how == 'ws-xml-inner':
        if n < 2:
            return s + ' ' + s
        i = 1 + mx.below(n - 1)
        return s[:i] + mx.pick(XML_WS) + s[i:]
    if how == 'ws-other-outer':
        w = mx.pick(OTHER_WS)
        return w + s if mx.below(2) else s + w
    if how == 'ws-other-inner':
        if n < 2:
            return s + mx.pick(OTHER_WS) + s
        i = 1 + mx.below(n - 1)
        return s[:i] + mx.pick(OTHER_WS) + s[i:]
    if how == 'plus':
        return '+' + s
    if how == 'minus':
        return '-' + s
    if how == 'sign-dup':
        return s[:1] + s if s[:1] in '+-' else '+-' + s
    if how == 'underscore':
        pos = [i for i in range(1, n) if s[i - 1].isdigit() and s[i].isdigit()]
        if not pos:
            return s + '_'
        i = mx.pick(pos)
        return s[:i] + '_' + s[i:]
    if how == 'nonascii-digit':
        pos = [i for i in range(n) if s[i] in '0123456789']
        if not pos:
            return s + mx.pick(NON_ASCII_DIGITS)
        i = mx.pick(pos)
        return s[:i] + mx.pick(NON_ASCII_DIGITS) + s[i + 1:]
    if how == 'case':
        return s.swapcase() if s.swapcase() != s else s.upper() + 'e'
    if how == 'delete':
        if n == 0:
            return s
        i = mx.below(n)
        return s[:i] + s[i + 1:]
    if how == 'dup':
        if n == 0:
            return s
        i = mx.below(n)
        return s[:i] + s[i] + s[i:]
    if how == 'junk':
        return s + mx.pick(['x', '.', '-', ':', 'Z', '0', 'T', '=', 'e', 'E1', '#'])
    if how == 'swap':
        if n < 2:
            return s
        i = mx.below(n - 1)
        return s[:i] + s[i + 1] + s[i] + s[i + 2:]
    raise ValueError(how)


#: hand-picked near-valid strings per type (impossible dates, bad durations, literal-syntax leaks ...)
TRICKY = {
    'integer': ['1_0', '٣', '1.0', '1e2', '0x10', '', '+', '-', '--1', '1 0', '0b1', '1L', '١٢', ' 12 ', '\t12\n', '1,000', 'INF', 'NaN', '１２'],
    'decimal': ['1_0.5', '1 .5', '1. 5', '.', '1e2', '+.5', 'NaN', 'INF', '1.5.0', '٣.٥', '', '+', '1,5', '- 1', '0x1.8', '1__0'],
    'double': ['1_0', 'inf', 'nan', 'NAN', '-NaN', '+NaN', 'Infinity', '-Infinity', 'infinity', 'INFINITY', 'iNf', '0x1p3', '1e', 'e5', '.', '1e5.0',
               '١', '1 e5', '1e 5', '1e+', '+-1', '1.0f', '1d', '', '- 1', '1__0', '1_0e1_0', 'NaN ', ' INF', '+ INF', 'INF0', '-+INF'],
    'boolean': ['TRUE', 'True', 'FALSE', 'yes', 'no', '', '2', 't', 'f', '00', '01', '+1', '-0', 'true false', ' true ', 'true\x0b', '\xa0true', 'tru e'],
    'hexBinary': ['F', '0g', '0F B7', '0x0F', ' 0f ', '0F\n', 'GG', '0f0', '+0f'],
    'base64Binary': ['A', 'AQ=', 'AQI', 'AR==', 'AQJ=', '=AQI', 'AQ=I', 'AQ===', 'AQID!', 'AQ==AQ==', 'A Q = =', 'AQ  ==', '====', 'A===', 'AQ\n==', 'AQ-_'],
    'duration': ['P', 'PT', 'P1.5Y', '1Y', 'P1S', 'PT1Y', 'P1MT', 'P-1Y', '+P1Y', 'P1Y1Y', 'P1M1Y', 'PT1S1M', 'P1YT', 'PT.5S', 'PT5.S', 'pt1s', 'P 1Y',
                 'PT1.5M', 'P1Y-1M', '-P', 'P1D1H', 'PT1H1D', 'P1W', 'P0.5D', 'PT1e1S', 'PT1_0S', 'P١Y'],
    'yearMonthDuration': ['P1D', 'P1YT0S', 'PT0S', 'P1Y0D', 'P', 'P1.5Y', 'P1M1Y', 'PT1M', 'P1YT'],
    'dayTimeDuration': ['P1M', 'P1Y', 'P0Y', 'P1Y1D', 'P', 'PT', 'P1DT', 'P0M1D', 'P1.5D'],
    'dateTime': ['2000-02-30T00:00:00', '2000-13-01T00:00:00', '2000-00-10T00:00:00', '2001-02-29T00:00:00', '2000-01-01T25:00:00',
                 '2000-01-01T24:00:01', '2000-01-01T24:01:00', '2000-01-01T00:60:00', '2000-01-01T00:00:61', '2000-1-01T00:00:00', '2000-01-01',
                 '2000-01-01T00:00', '2000-01-01 00:00:00', '2000-01-01T00:00:00+14:01', '2000-01-01T00:00:00+15:00', '2000-01-01T00:00:00z',
                 '02000-01-01T00:00:00', '200-01-01T00:00:00', '+2000-01-01T00:00:00', '2000-01-01T00:00:00.', '2000-01-01T00:00:00Z+01:00',
                 '2000-01-32T00:00:00', '2000-04-31T00:00:00', '1900-02-29T00:00:00', '2000-01-01t00:00:00', '2000-01-01T0:00:00',
                 '2000-01-01T00:00:00+1:00', '2000-01-01T00:00:00+01', '2000-01-01T00:00:00+0100', '2000-01-01T00:00:00UTC',
                 '2000-01-01T00:00:00 Z', '٢000-01-01T00:00:00', '2000-01-01T00:00:00,5', '2000-01-01T00:00:00-14:30', '20000101T000000',
                 '2000-01-01T24:00:00.1', '2000-01-01T00:00:00+00:60', '-2000-01-01T00:00:00', '--2000-01-01T00:00:00'],
    'date': ['2000-02-30', '1900-02-29', '2000-13-01', '2000-00-01', '2000-01-00', '2000-1-1', '20000101', '2000/01/01', '2000-01-01T00:00:00',
             '2000-01-01+14:01', '2000-01-01z', '02000-01-01', '200-01-01', '2000-04-31', '2000-01-32', '2000-01-01+1:00', '2000-01-01Z ', '２000-01-01'],
    'time': ['25:00:00', '24:00:01', '24:00:00.1', '12:60:00', '12:00:61', '1:00:00', '12:00', '12:00:00.', '12:00:00+14:01', '12:00:00z', '120000',
             '12.00.00', 'T12:00:00', '12:00:00 Z', '12:00:00+24:00', '-12:00:00'],
    'gDay': ['---32', '---00', '--31', '---1', '---31--', '----31', '---31+14:01', '---31z', '31'],
    'gMonth': ['--13', '--00', '--1', '--12--', '-12', '---12', '--12+14:01', '12'],
    'gMonthDay': ['--02-30', '--04-31', '--13-01', '--00-01', '--01-00', '--01-32', '--1-1', '-01-01', '---01-01', '--01-01--', '01-01', '--06-31', '--09-31', '--11-31'],
    'gYear': ['200', '02000', '+2000', '20000', '2000-', '-200', '2000+14:01', '2000z', '٢000', 'MM'],
    'gYearMonth': ['2000-13', '2000-00', '2000-1', '200-01', '02000-01', '2000-01-', '2000/01', '200001', '2000-01+14:01', '2000-01-01'],
    'dateTimeStamp': ['2000-01-01T00:00:00', '2000-02-30T00:00:00Z', '2000-01-01T00:00:00+14:01', '2000-01-01Z'],
    'language': ['en_US', 'abcdefghi', '', 'en-', '-en', 'en--US', 'e n', '12', 'en-abcdefghi', 'é'],
    'NCName': ['a:b', '1a', 'a b', '', '.a', '-a', 'a!', ':a', '·a', '́a', 'a\xa0b', '٣a'],
    'Name': ['1a', 'a b', '', '.a', '-a', 'a!', '·a', 'a/b'],
    'NMTOKEN': ['a b', '', 'a!', 'a/b', 'a\xa0', '!'],
    'QName': [':a', 'a:', 'a:b:c', 'xs:1a', '1a', 'xs: int', 'xs :int', '', 'xs:', ' xs:int ', 'a b'],
    'anyURI': _URIS,
}


TRICKY['double'] = TRICKY['double'] + ['+INF', '+INF', '+INF', ' +INF', '+INF\n', '-NaN', '+NaN', '+inf']
TRICKY['float'] = TRICKY['double']


def gen_case_string(mx: Mix, t: str) -> tuple[str, str]:
    """(string, how) for type t: valid form, mutated valid form, a tricky literal, or a form valid for another type"""
    k = mx.below(20)
    base = t if t in TRICKY else ('integer' if t in INT_BOUNDS else 'NCName' if t in ('ID', 'IDREF', 'ENTITY') else None)
    if k < 6:
        return gen_valid(mx, t), 'valid'
    if k < 14:
        how = mx.pick(MUTATIONS)
        s = mutate(mx, gen_valid(mx, t), how)
        if mx.below(8) == 0:
            how2 = mx.pick(MUTATIONS)
            s, how = mutate(mx, s, how2), how + '+' + how2
        return s, how
    if k < 17 and base:
        s = mx.pick(TRICKY[base])
        if mx.below(4) == 0:
            s = mutate(mx, s, 'ws-xml-outer')
        return s, 'tricky'
    other = mx.pick(ALL_TYPES)
    return gen_valid(mx, other), 'other-type:' + other


# ---- python Decimal representations for the decimal -> string sub-check (exponent forms a lexical xs:decimal never has)

def gen_pydecimal(mx: Mix) -> tuple[str, str]:
    """(python Decimal literal, class): tiny magnitudes, positive exponents, trailing zeros, long digit strings"""
    k = mx.below(10)
    sign = '-' if mx.below(4) == 0 else ''
    nz = mx.pick('123456789')
    if k < 3:
        if mx.below(2):
            return sign + nz + ('.' + digits(mx, 1, 3) if mx.below(2) else '') + 'E-' + str(7 + mx.below(24)), 'tiny'
        return sign + '0.' + '0' * (6 + mx.below(24)) + nz + digits(mx, 0, 3), 'tiny'
    if k < 5:
        return sign + nz + ('.' + digits(mx, 1, 4) if mx.below(2) else '') + 'E+' + str(1 + mx.below(22)), 'pos-exponent'
    if k == 5:
        return mx.pick(['12.300', '1.50E-10', '100', '0E-8', '0E+3', '1.0', '1200.00', '5E+0', '0.10', '1E+2', '1.2E+4', '1E-7']), 'trailing-zeros'
    if k < 8:
        j = mx.below(3)
        ip = digits(mx, 18, 30).lstrip('0') or '1'
        if j == 0:
            return sign + ip, 'long'
        if j == 1:
            return sign + nz + '.' + digits(mx, 18, 30), 'long'
        return sign + ip + '.' + digits(mx, 18, 30), 'long'
    return sign + digits(mx, 1, 4).lstrip('0') + '.' + digits(mx, 1, 4) if mx.below(2) else sign + nz + digits(mx, 0, 5), 'plain'
