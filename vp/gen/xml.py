"""Shared XML tree generator (DESIGN 4.1).

A tree is generated as a plain JSON value, the *TreeSpec*:

    spec  = {'root': elem, 'pre': [misc...], 'post': [misc...]}
    elem  = {'k': 'e', 'ns': uri|None, 'n': local, 'decl': [prefix...],
             'a': [[uri|None, local, value]...], 't': str|None, 'c': [elem|misc...], 'tl': str|None}
    misc  = {'k': 'c', 'v': str, 'tl': str|None}                    comment
          | {'k': 'p', 'tg': target, 'v': str|None, 'tl': str|None}  processing instruction

* prefixes and namespace URIs are a fixed table (PREFIX_URI); 'decl' lists the prefixes declared on
  that element ('' = default namespace).  `normalize(spec)` adds the declarations that a namespaced
  element/attribute name needs (so that lxml never has to invent an `ns0` prefix) and is idempotent;
  every consumer (materialisers, vp.ref.xdm.RefTree) works on the normalised spec.
* 'pre'/'post' are comments/PIs before/after the root element (document level); only lxml can hold
  them, the ElementTree materialiser ignores them (and says so via Built.doc_misc).
* text/tail None means "no text node", '' is a (degenerate) chunk that is not None.

`materialize(spec, backend)` builds the tree BY CONSTRUCTION (never by parsing: ET.XML drops comments and
PIs) and returns a `Built` with the objects and the structural address of every object:

    address = tuple of child indexes from the top node of the tree, counting XDM children
              (text chunks included); attributes append ('@', '{uri}local'), namespaces ('ns', prefix).
    The top node is the document node when the tree has one (address ()), then the root element is
    (len(pre),); for an element-topped tree the root element is ().

Strategies: `tree_specs(...)`.  Everything random is drawn from hypothesis.
"""
from __future__ import annotations

import xml.etree.ElementTree as ET
from dataclasses import dataclass, field
from typing import Any

from hypothesis import strategies as st

XML_NS = 'http://www.w3.org/XML/1998/namespace'
# 'r' -> urn:pp: a URI of which urn:p is a proper string prefix (only generated with tree_specs(prefix_uris=True))
PREFIX_URI = {'': 'urn:d', 'p': 'urn:p', 'q': 'urn:q', 's': 'urn:p', 'r': 'urn:pp'}
CANON_PREFIX = {'urn:d': '', 'urn:p': 'p', 'urn:q': 'q', 'urn:pp': 'r'}
# namespace names that begin with a number, most of them not in canonical lexical form (only with tree_specs(num_uris=True))
NUM_URIS = ('007/agents', '1e3/units', '01.50/pricing', '.5x', '1.', '00', '1E5x', '0x10', '2001/records', '1.0', '0.9/feed')
for _i, _u in enumerate(NUM_URIS, 1):
    PREFIX_URI['n%d' % _i] = _u
    CANON_PREFIX[_u] = 'n%d' % _i
# what a parser / lxml.xpath gets to resolve prefixes used in generated paths (no default namespace)
PATH_NAMESPACES = {'p': 'urn:p', 'q': 'urn:q'}

ELEM_LOCALS = ('a', 'b', 'c')
ATTR_LOCALS = ('x', 'y', 'id')
# NCNames that start with (or are) an XPath reserved word, operator, axis, kind-test or function name: <kw>, <kw>.x, <kw>-x,
# <kw>1, <kw>_x.  Opt-in pools (C14): KEYWORD_NAMES for element/attribute local names and PI targets, kw_prefixes for prefixes.
XPATH_WORDS = ('for', 'if', 'is', 'to', 'return', 'div', 'mod', 'idiv', 'and', 'or', 'let', 'some', 'every', 'in', 'satisfies', 'then',
               'else', 'instance', 'of', 'cast', 'castable', 'treat', 'as', 'union', 'intersect', 'except', 'eq', 'ne', 'lt', 'le', 'gt',
               'ge', 'child', 'descendant', 'attribute', 'self', 'parent', 'ancestor', 'following', 'preceding', 'namespace',
               'text', 'node', 'comment', 'element', 'item', 'document-node', 'processing-instruction', 'count', 'last', 'position',
               'not', 'true', 'map', 'array', 'function', 'namespace-node', 'empty-sequence', 'schema-element', 'schema-attribute')
# the bare kind-test / item-type names (also used, bare, as namespace prefixes)
KIND_TEST_NAMES = ('node', 'namespace-node', 'text', 'comment', 'processing-instruction', 'element', 'attribute', 'document-node',
                   'item', 'function', 'map', 'array', 'empty-sequence', 'schema-element', 'schema-attribute')
KEYWORD_NAMES = tuple(dict.fromkeys(
    ['for.each', 'if.empty', 'is.valid', 'to.date', 'return.code', 'div.x', 'mod.1', 'and.or', 'let.x', 'some.x', 'every.x',
     'instance.of', 'cast.as', 'union.x', 'eq.x'] + [w + sfx for w in XPATH_WORDS for sfx in ('.x', '-x', '', '1', '_x')]))
KEYWORD_PREFIXES = ('for.each', 'if.x', 'div-x', 'eq.x', 'union', 'to1', 'is_x', 'child.x') + KIND_TEST_NAMES
for _i, _p in enumerate(KEYWORD_PREFIXES, 1):
    PREFIX_URI[_p] = 'urn:kw%d' % _i
    CANON_PREFIX['urn:kw%d' % _i] = _p
TEXTS = (None, None, '', 't', ' ', '1', 'x y')
PI_TARGETS = ('x', 'y', 'pi', 'xml-stylesheet')
PI_TARGETS_FN = ('pi', 'exp', 'text', 'data', 'x', 'y', 'node', 'comment', 'div', 'if')
COMMENTS = ('', 'c', 'x y', '1')
ATTR_VALUES = ('', 'v', '1', 'x y', 't')


def clark(uri, local):
    return local if not uri else '{%s}%s' % (uri, local)


# --------------------------------------------------------------------------
# normalisation: make in-scope declarations explicit
# --------------------------------------------------------------------------

def _needed_decls(e, scope):
    """prefixes to add on element e given inherited scope {prefix: uri}."""
    sc = dict(scope)
    for p in e['decl']:
        sc[p] = PREFIX_URI[p]
    add = []
    if e['ns'] is not None and e['ns'] not in sc.values():
        p = CANON_PREFIX[e['ns']]
        add.append(p)
        sc[p] = PREFIX_URI[p]
    for uri, _local, _v in e['a']:
        if uri is not None and uri != XML_NS:
            if not any(u == uri and p for p, u in sc.items()):
                p = CANON_PREFIX[uri]
                assert p, 'attributes cannot be in the default-namespace URI'
                add.append(p)
                sc[p] = PREFIX_URI[p]
    return add, sc


def normalize(spec):
    """Return a deep copy with all needed declarations explicit; idempotent."""
    def elem(e, scope):
        add, sc = _needed_decls(e, scope)
        decl = list(dict.fromkeys(list(e['decl']) + add))
        seen, attrs = set(), []
        for uri, local, v in e['a']:
            if (uri, local) not in seen:
                seen.add((uri, local))
                attrs.append([uri, local, v])
        return {'k': 'e', 'ns': e['ns'], 'n': e['n'], 'decl': decl, 'a': attrs, 't': e['t'],
                'c': [elem(c, sc) if c['k'] == 'e' else dict(c) for c in e['c']], 'tl': e['tl']}
    root = elem(spec['root'], {})
    root['tl'] = None
    return {'root': root, 'pre': [dict(m, tl=None) for m in spec.get('pre', [])],
            'post': [dict(m, tl=None) for m in spec.get('post', [])]}


def count_elements(spec):
    def n(e):
        return 1 + sum(n(c) for c in e['c'] if c['k'] == 'e')
    return n(spec['root'])


def spec_classes(spec):
    """cheap classification of a normalised spec (for histograms/floors)."""
    cl = set()

    def walk(e, depth, scope_n):
        scope_n = scope_n + len(e['decl'])
        if e['ns']:
            cl.add('tree:ns-element')
        if len(e['decl']) >= 1:
            cl.add('tree:ns-decl')
        if scope_n >= 2 and e['a']:
            cl.add('tree:2ns+attr')
        if any(u for u, _l, _v in e['a']):
            cl.add('tree:ns-attr')
        if e['t'] == '' or e['tl'] == '':
            cl.add('tree:empty-text')
        names = [c['n'] for c in e['c'] if c['k'] == 'e']
        if len(names) != len(set(names)):
            cl.add('tree:same-name-siblings')
        if e['n'] in names:
            cl.add('tree:nested-same-name')
        for c in e['c']:
            if c['k'] == 'e':
                walk(c, depth + 1, scope_n)
            else:
                cl.add('tree:comment' if c['k'] == 'c' else 'tree:pi')
                if c['tl'] is not None:
                    cl.add('tree:misc-tail')
        if depth >= 3:
            cl.add('tree:depth>=3')
    walk(spec['root'], 0, 0)
    if spec['pre'] or spec['post']:
        cl.add('tree:doc-misc')
    return sorted(cl)


# --------------------------------------------------------------------------
# materialisation
# --------------------------------------------------------------------------

@dataclass
class Built:
    backend: str                       # 'et' | 'lxml'
    root: Any                          # root Element
    tree: Any                          # ElementTree wrapping root
    doc_misc: bool                     # document-level comments/PIs present in the objects
    objs: list = field(default_factory=list)        # keeps every proxy alive (lxml)
    # addresses relative to a DOCUMENT-topped tree; use addr(..., top) to convert
    obj_addr: dict = field(default_factory=dict)    # id(obj) -> address of element/comment/PI
    text_addr: dict = field(default_factory=dict)   # id(elem) -> address of its text chunk
    tail_addr: dict = field(default_factory=dict)   # id(obj)  -> address of its tail chunk
    by_addr: dict = field(default_factory=dict)     # address -> obj (elements, comments, PIs)
    n_pre: int = 0

    def address(self, obj, doc_top: bool):
        a = self.obj_addr[id(obj)]
        return a if doc_top else a[1:]

    def in_fragment(self, a):
        """is the doc-topped address inside the root element's subtree?"""
        return len(a) >= 1 and a[0] == self.n_pre

    def conv(self, a, doc_top: bool):
        return a if doc_top else a[1:]


def _mk_et(kind, m):
    if kind == 'c':
        return ET.Comment(m['v'])
    return ET.ProcessingInstruction(m['tg'], m['v'])


def materialize(spec, backend: str) -> Built:
    """Build xml.etree ('et') or lxml ('lxml') objects from a NORMALISED spec."""
    if backend == 'et':
        return _materialize_et(spec)
    return _materialize_lxml(spec)


def _fill(b: Built, parent_obj, e, addr, make_child):
    """common child loop: registers addresses; make_child(parent_obj, childspec) -> obj"""
    idx = 0
    if e['t'] is not None:
        b.text_addr[id(parent_obj)] = addr + (idx,)
        idx += 1
    for c in e['c']:
        obj = make_child(parent_obj, c)
        b.objs.append(obj)
        caddr = addr + (idx,)
        b.obj_addr[id(obj)] = caddr
        b.by_addr[caddr] = obj
        idx += 1
        if c['k'] == 'e':
            _fill(b, obj, c, caddr, make_child)
        if c['tl'] is not None:
            obj.tail = c['tl']
            b.tail_addr[id(obj)] = addr + (idx,)
            idx += 1


def _materialize_et(spec) -> Built:
    def mk_elem(e):
        el = ET.Element(clark(e['ns'], e['n']))
        for uri, local, v in e['a']:
            el.set(clark(uri, local), v)
        el.text = e['t']
        return el

    def make_child(parent, c):
        obj = mk_elem(c) if c['k'] == 'e' else _mk_et(c['k'], c)
        parent.append(obj)
        return obj

    root = mk_elem(spec['root'])
    b = Built('et', root, ET.ElementTree(root), False)
    b.objs.append(root)
    b.n_pre = 0
    b.obj_addr[id(root)] = (0,)
    b.by_addr[(0,)] = root
    _fill(b, root, spec['root'], (0,), make_child)
    return b


def _materialize_lxml(spec) -> Built:
    from lxml import etree as L

    def nsmap_of(e):
        return {(p or None): PREFIX_URI[p] for p in e['decl']} or None

    def set_attrs(el, e):
        for uri, local, v in e['a']:
            el.set(clark(uri, local), v)
        el.text = e['t']

    def make_child(parent, c):
        if c['k'] == 'e':
            el = L.SubElement(parent, clark(c['ns'], c['n']), nsmap=nsmap_of(c))
            set_attrs(el, c)
            return el
        obj = L.Comment(c['v']) if c['k'] == 'c' else L.ProcessingInstruction(c['tg'], c['v'])
        parent.append(obj)
        return obj

    r = spec['root']
    root = L.Element(clark(r['ns'], r['n']), nsmap=nsmap_of(r))
    set_attrs(root, r)
    b = Built('lxml', root, root.getroottree(), bool(spec['pre'] or spec['post']))
    b.objs.append(root)
    b.n_pre = len(spec['pre'])
    for i, m in enumerate(spec['pre']):
        obj = L.Comment(m['v']) if m['k'] == 'c' else L.ProcessingInstruction(m['tg'], m['v'])
        root.addprevious(obj)
        b.objs.append(obj)
        b.obj_addr[id(obj)] = (i,)
        b.by_addr[(i,)] = obj
    ra = (b.n_pre,)
    b.obj_addr[id(root)] = ra
    b.by_addr[ra] = root
    _fill(b, root, r, ra, make_child)
    last = root
    for i, m in enumerate(spec['post']):
        obj = L.Comment(m['v']) if m['k'] == 'c' else L.ProcessingInstruction(m['tg'], m['v'])
        last.addnext(obj)
        last = obj
        b.objs.append(obj)
        a = (b.n_pre + 1 + i,)
        b.obj_addr[id(obj)] = a
        b.by_addr[a] = obj
    return b


# --------------------------------------------------------------------------
# strategies
# --------------------------------------------------------------------------

def _misc(pi_targets, with_tail=True):
    tail = st.sampled_from(TEXTS) if with_tail else st.none()
    return st.one_of(
        st.fixed_dictionaries({'k': st.just('c'), 'v': st.sampled_from(COMMENTS), 'tl': tail}),
        st.fixed_dictionaries({'k': st.just('p'), 'tg': st.sampled_from(pi_targets),
                               'v': st.sampled_from((None, 'd', 'a b', '1')), 'tl': tail}),
    )


_ATTR_NS = (None, None, None, 'urn:p', 'urn:q', XML_NS)
_ELEM_NS = (None, None, None, 'urn:d', 'urn:p', 'urn:q')
_DECLS = ((), (), (), ('',), ('p',), ('q',), ('s',), ('p', 'q'), ('', 'p'), ('', 'p', 'q', 's'), ('s', 'p'))
_ATTR_NS_PP = _ATTR_NS + ('urn:pp', 'urn:pp', 'urn:p')
_ELEM_NS_PP = _ELEM_NS + ('urn:pp', 'urn:pp', 'urn:p')
_DECLS_PP = _DECLS + (('r',), ('p', 'r'), ('r', 'q'))


@st.composite
def tree_specs(draw, max_elems=12, max_depth=4, max_attrs=3, ns=True, doc_misc=True,
               pi_targets=PI_TARGETS, misc_weight=3, elem_locals=ELEM_LOCALS, min_elems=1, prefix_uris=False, num_uris=False, attr_locals=ATTR_LOCALS,
               kw_prefixes=False):
    """Normalised TreeSpec.  Small name pools on purpose (nested/sibling same names are the norm)."""
    budget = [draw(st.integers(min(min_elems, max_elems), max_elems)) - 1]
    misc = _misc(pi_targets)
    # prefix_uris: also names in urn:pp, so that urn:p is a proper string prefix of another namespace URI in the document
    elem_ns = st.sampled_from(_ELEM_NS_PP if prefix_uris else _ELEM_NS) if ns else st.none()
    attr_ns = st.sampled_from(_ATTR_NS_PP if prefix_uris else _ATTR_NS) if ns else st.none()
    decls = st.sampled_from(_DECLS_PP if prefix_uris else _DECLS) if ns else st.just(())
    if ns and num_uris:
        elem_ns = st.one_of(elem_ns, elem_ns, st.sampled_from(NUM_URIS))
        attr_ns = st.one_of(attr_ns, attr_ns, attr_ns, st.sampled_from(NUM_URIS))
        decls = st.one_of(decls, decls, decls, st.sampled_from(['n%d' % i for i in range(1, len(NUM_URIS) + 1)]).map(lambda p: (p,)))
    if ns and kw_prefixes:
        kwu = st.sampled_from(['urn:kw%d' % i for i in range(1, len(KEYWORD_PREFIXES) + 1)])
        elem_ns = st.one_of(elem_ns, elem_ns, elem_ns, kwu)
        attr_ns = st.one_of(attr_ns, attr_ns, attr_ns, kwu)
        decls = st.one_of(decls, decls, decls, st.sampled_from(KEYWORD_PREFIXES).map(lambda p: (p,)),
                          st.sampled_from(KIND_TEST_NAMES).map(lambda p: (p, 'p')), st.sampled_from(KIND_TEST_NAMES).map(lambda p: ('q', p)))
    attr = st.tuples(attr_ns, st.sampled_from(attr_locals), st.sampled_from(ATTR_VALUES)).map(list)

    def elem(depth):
        e = {'k': 'e', 'ns': draw(elem_ns), 'n': draw(st.sampled_from(elem_locals)),
             'decl': list(draw(decls)),
             'a': draw(st.lists(attr, max_size=max_attrs)) if draw(st.integers(0, 2)) else [],
             't': draw(st.sampled_from(TEXTS)), 'c': [], 'tl': draw(st.sampled_from(TEXTS))}
        if depth < max_depth:
            n = draw(st.integers(2 if min_elems > 1 and budget[0] >= min_elems // 2 else 0, 4))
            for _ in range(n):
                if draw(st.integers(0, 9)) < misc_weight:
                    e['c'].append(draw(misc))
                elif budget[0] > 0:
                    budget[0] -= 1
                    e['c'].append(elem(depth + 1))
        return e

    root = elem(0)
    pre = post = []
    if doc_misc == 'balanced':
        # none / only before / only after / both: equally frequent
        m = _misc(pi_targets, with_tail=False)
        mode = draw(st.integers(0, 3))
        pre = draw(st.lists(m, min_size=1, max_size=2)) if mode in (1, 3) else []
        post = draw(st.lists(m, min_size=1, max_size=2)) if mode in (2, 3) else []
    elif doc_misc and draw(st.integers(0, 3)) == 0:
        m = _misc(pi_targets, with_tail=False)
        pre = draw(st.lists(m, max_size=2))
        post = draw(st.lists(m, max_size=2))
    return normalize({'root': root, 'pre': pre, 'post': post})


def to_xml(spec) -> str:
    """Debug rendering of a normalised spec (not used by any oracle)."""
    def esc(s):
        return s.replace('&', '&amp;').replace('<', '&lt;')

    def name(uri, local, scope, attr=False):
        if not uri:
            return local
        if uri == XML_NS:
            return 'xml:' + local
        for p, u in scope.items():
            if u == uri and (p or not attr):
                return (p + ':' if p else '') + local
        return '?:' + local

    def misc(m):
        s = '<!--%s-->' % m['v'] if m['k'] == 'c' else '<?%s%s?>' % (m['tg'], ' ' + m['v'] if m['v'] else '')
        return s + ('[%s]' % m['tl'] if m['tl'] == '' else esc(m['tl'] or ''))

    def elem(e, scope):
        sc = dict(scope)
        for p in e['decl']:
            sc[p] = PREFIX_URI[p]
        s = '<' + name(e['ns'], e['n'], sc)
        for p in e['decl']:
            s += ' xmlns%s="%s"' % (':' + p if p else '', PREFIX_URI[p])
        for uri, local, v in e['a']:
            s += ' %s="%s"' % (name(uri, local, sc, True), esc(v))
        s += '>' + ('[]' if e['t'] == '' else esc(e['t'] or ''))
        for c in e['c']:
            s += elem(c, sc) if c['k'] == 'e' else misc(c)
        return s + '</%s>' % name(e['ns'], e['n'], sc) + ('[]' if e['tl'] == '' else esc(e['tl'] or ''))
    return ''.join(misc(m) for m in spec['pre']) + elem(spec['root'], {}) + ''.join(misc(m) for m in spec['post'])


def serialize(e, scope=None):
    """well-formed XML text of an element spec (a no-namespace element below a default namespace gets xmlns="";
    '' text chunks cannot be expressed in text and are dropped).  Used to feed parsers, e.g. fn:parse-xml-fragment."""
    def esc(t, attr=False):
        t = t.replace('&', '&amp;').replace('<', '&lt;').replace('>', '&gt;')
        return t.replace('"', '&quot;') if attr else t

    def misc(m):
        if m['k'] == 'c':
            return '<!--%s-->' % m['v']
        return '<?%s%s?>' % (m['tg'], ' ' + m['v'] if m['v'] else '')

    scope = dict(scope or {})
    out = []
    decls = []
    for p in e['decl']:
        if scope.get(p) != PREFIX_URI[p]:
            scope[p] = PREFIX_URI[p]
            decls.append((p, PREFIX_URI[p]))
    if e['ns'] is None:
        if scope.get(''):
            scope[''] = ''
            decls = [d for d in decls if d[0] != ''] + [('', '')]
        name = e['n']
    else:
        pfx = next((p for p, u in scope.items() if u == e['ns']), None)
        if pfx is None:
            pfx = CANON_PREFIX[e['ns']]
            scope[pfx] = e['ns']
            decls.append((pfx, e['ns']))
        name = (pfx + ':' if pfx else '') + e['n']
    attrs = []
    for uri, local, v in e['a']:
        if uri is None:
            an = local
        elif uri == XML_NS:
            an = 'xml:' + local
        else:
            pfx = next((p for p, u in scope.items() if u == uri and p), None)
            if pfx is None:
                pfx = CANON_PREFIX[uri]
                scope[pfx] = uri
                decls.append((pfx, uri))
            an = pfx + ':' + local
        attrs.append(' %s="%s"' % (an, esc(v, True)))
    out.append('<' + name + ''.join(' xmlns%s="%s"' % (':' + p if p else '', u) for p, u in decls) + ''.join(attrs) + '>')
    out.append(esc(e['t'] or ''))
    for c in e['c']:
        out.append(serialize(c, scope) if c['k'] == 'e' else misc(c))
        out.append(esc(c['tl'] or ''))
    out.append('</%s>' % name)
    return ''.join(out)


# --------------------------------------------------------------------------
# in-place edits of a tree (spec level and object level, kept in step)
# --------------------------------------------------------------------------
EDIT_OPS = ('append', 'insert0', 'remove', 'move-last-first', 'set-attr', 'set-text')


def edits():
    return st.fixed_dictionaries({'op': st.sampled_from(EDIT_OPS), 'e': st.integers(0, 40), 'j': st.integers(0, 6),
                                  'name': st.sampled_from(ELEM_LOCALS), 'attr': st.sampled_from(('x', 'id')),
                                  'val': st.sampled_from(('z', 'v', '1', ''))})


def _spec_elements(spec):
    out = []

    def walk(e):
        out.append(e)
        for c in e['c']:
            if c['k'] == 'e':
                walk(c)
    walk(spec['root'])
    return out


def _new_child(edit):
    return {'k': 'e', 'ns': None, 'n': edit['name'], 'decl': [], 'a': [[None, edit['attr'], edit['val']]],
            't': edit['val'] or None, 'c': [], 'tl': None}


def apply_edit(spec, edit):
    """edited deep copy of a normalised spec (what apply_edit_objs does to the objects)"""
    import copy
    s = copy.deepcopy(spec)
    els = _spec_elements(s)
    e = els[edit['e'] % len(els)]
    op = edit['op']
    if op == 'append':
        e['c'].append(_new_child(edit))
    elif op == 'insert0':
        e['c'].insert(0, _new_child(edit))
    elif op == 'remove':
        if e['c']:
            del e['c'][edit['j'] % len(e['c'])]
    elif op == 'move-last-first':
        if len(e['c']) >= 2:
            e['c'].insert(0, e['c'].pop())
    elif op == 'set-attr':
        for a in e['a']:
            if a[0] is None and a[1] == edit['attr']:
                a[2] = edit['val']
                break
        else:
            e['a'].append([None, edit['attr'], edit['val']])
    elif op == 'set-text':
        e['t'] = edit['val'] or None
    return normalize(s)


def apply_edit_objs(built, edit):
    """the same edit on the xml.etree / lxml objects of a Built, in place"""
    if built.backend == 'et':
        mk = ET.Element
    else:
        from lxml import etree as L
        mk = L.Element
    els = [x for x in built.root.iter() if not callable(x.tag)]
    e = els[edit['e'] % len(els)]
    op = edit['op']
    if op in ('append', 'insert0'):
        n = mk(edit['name'])
        n.set(edit['attr'], edit['val'])
        n.text = edit['val'] or None
        if op == 'append':
            e.append(n)
        else:
            e.insert(0, n)
    elif op == 'remove':
        if len(e):
            e.remove(e[edit['j'] % len(e)])
    elif op == 'move-last-first':
        if len(e) >= 2:
            c = e[len(e) - 1]
            e.remove(c)
            e.insert(0, c)
    elif op == 'set-attr':
        e.set(edit['attr'], edit['val'])
    elif op == 'set-text':
        e.text = edit['val'] or None


def reindex(built):
    """recompute the address maps of a Built from the objects as they are now (after an edit)"""
    root = built.root
    keep = [o for o in built.objs]
    built.obj_addr, built.text_addr, built.tail_addr, built.by_addr = {}, {}, {}, {}
    pre = []
    if built.backend == 'lxml':
        pre = list(reversed(list(root.itersiblings(preceding=True))))
        for i, o in enumerate(pre):
            built.obj_addr[id(o)] = (i,)
            built.by_addr[(i,)] = o
        for i, o in enumerate(root.itersiblings()):
            a = (len(pre) + 1 + i,)
            built.obj_addr[id(o)] = a
            built.by_addr[a] = o
    built.n_pre = len(pre)

    def walk(obj, addr):
        built.obj_addr[id(obj)] = addr
        built.by_addr[addr] = obj
        keep.append(obj)
        if callable(obj.tag):
            return
        idx = 0
        if obj.text is not None:
            built.text_addr[id(obj)] = addr + (idx,)
            idx += 1
        for c in obj:
            walk(c, addr + (idx,))
            idx += 1
            if c.tail is not None:
                built.tail_addr[id(c)] = addr + (idx,)
                idx += 1
    walk(root, (built.n_pre,))
    built.objs = keep
    return built


# --------------------------------------------------------------------------
# deterministic greedy minimisation (used instead of hypothesis' shrinker: batched cases are large)
# --------------------------------------------------------------------------

def _spec_edits(spec):
    """candidate smaller specs, biggest cuts first"""
    import copy

    def elems(e, path):
        yield e, path
        for i, c in enumerate(e['c']):
            if c['k'] == 'e':
                yield from elems(c, path + (i,))

    def at(s, path):
        e = s['root']
        for i in path:
            e = e['c'][i]
        return e

    if spec['pre'] or spec['post']:
        s = copy.deepcopy(spec)
        s['pre'], s['post'] = [], []
        yield s
    root = spec['root']
    for i, c in enumerate(root['c']):
        if c['k'] == 'e' and not spec['pre'] and not spec['post']:
            s = copy.deepcopy(spec)
            s['root'] = copy.deepcopy(c)
            yield s
    for e, path in list(elems(root, ())):
        for i in reversed(range(len(e['c']))):
            s = copy.deepcopy(spec)
            del at(s, path)['c'][i]
            yield s
    for e, path in list(elems(root, ())):
        for i in reversed(range(len(e['a']))):
            s = copy.deepcopy(spec)
            del at(s, path)['a'][i]
            yield s
        for i in reversed(range(len(e['decl']))):
            s = copy.deepcopy(spec)
            del at(s, path)['decl'][i]
            yield s
        for key in ('t', 'tl', 'ns'):
            if e[key] is not None:
                s = copy.deepcopy(spec)
                at(s, path)[key] = None
                yield s
        for i, c in enumerate(e['c']):
            if c['k'] != 'e' and c['tl'] is not None:
                s = copy.deepcopy(spec)
                at(s, path)['c'][i]['tl'] = None
                yield s


def minimize_spec(spec, still_fails, budget=150):
    """greedy: apply the first edit that keeps `still_fails(spec)` true, restart; stops at a fixpoint or budget."""
    calls = 0
    changed = True
    while changed and calls < budget:
        changed = False
        for cand in _spec_edits(spec):
            cand = normalize(cand)
            if cand == spec:
                continue
            calls += 1
            if still_fails(cand):
                spec, changed = cand, True
                break
            if calls >= budget:
                break
    return spec


def minimize_case(case, judge_fn, bucket, budget=200, list_keys=('cfgs', 'paths', 'ops')):
    """case = {'spec': ..., <list fields>...}: keep one element per list field, then minimise the spec."""
    def fails(c):
        return any(d.bucket == bucket for d in judge_fn(c))

    for key in list_keys:
        if key in case and len(case[key]) > 1:
            for item in case[key]:
                c = dict(case, **{key: [item]})
                if fails(c):
                    case = c
                    break
    spec = minimize_spec(case['spec'], lambda s: fails(dict(case, spec=s)), budget)
    case = dict(case, spec=spec)
    for d in judge_fn(case):
        if d.bucket == bucket:
            return case, d
    return None


class _Stop(Exception):
    pass


def find_and_minimize(strategy, judge_fn, bucket, n, seed, budget=200, list_keys=('cfgs', 'paths', 'ops')):
    """replay the seeded generation until the first case showing `bucket`, then minimise it greedily."""
    from vp.core import hyp_collect
    found = []

    def body(case):
        if any(d.bucket == bucket for d in judge_fn(case)):
            found.append(case)
            raise _Stop()

    try:
        hyp_collect(strategy, body, n, seed)
    except _Stop:
        pass
    if not found:
        return None
    return minimize_case(found[0], judge_fn, bucket, budget, list_keys)
