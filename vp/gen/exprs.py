"""Expression ASTs over the W3C XPath grammars (1.0, 2.0, 3.0, 3.1).

Everything in this module is transcribed from the EBNF of the four W3C
recommendations (XPath 1.0 section 3, XPath 2.0 / 3.0 / 3.1 appendix A.1), *not*
from elementpath's binding powers:

* `LEVELS[ver]`   the precedence chain of the version, lowest first
* `BINOPS[ver]`   binary operator -> (level, associativity)
* `ast(ver, depth)`   hypothesis strategy producing a JSON AST valid for `ver`
* `render(ast, ver, full=False)` -> (terminals, shape): minimal-parenthesis (or fully
  parenthesised) terminal list and the *shape* = the AST with a `['paren', x]` node
  wherever the renderer emitted parentheses
* `join(terminals)` canonical string; `join_ws(terminals, gaps)` re-rendering with
  whitespace / comments between terminals; `gaps(ver, n)` strategy for them
* `shape_of(token)`  elementpath token tree -> shape (same vocabulary)
* `canon(shape)`     normal form applied to both sides before comparing
* `negatives(shape, ver)` chains that the EBNF does not derive (non-associative levels)
* `mutate(...)`      token-level mutations (used by C03)

AST vocabulary (JSON lists):
  leaves   ['int', lex] ['dec', lex] ['dbl', lex] ['str', value, quote] ['var', name] ['dot'] ['parent']
           ['name', n] ['wild'] ['attr', test] ['axis', axis, test] ['kind', name, [args]] ['empty'] ['rootonly']
           ['fref', name, arity] ['placeholder']
  compound ['bin', op, l, r] ['path', op, l, r] ['root', op, r] ['neg', op, x] ['type', op, x, itemtype, occ]
           ['arrow', l, spec, [args]] ['pred', base, e] ['lookup', base, key] ['ulookup', key]
           ['dyncall', base, [args]] ['call', name, [args]] ['seq', [items]] ['if', c, t, e]
           ['for'|'let'|'some'|'every', [[var, e], ...], body] ['inline', [params], body]
           ['map', [[k, v], ...]] ['sqarr', [items]] ['curlarr', [items]] ['paren', e]
"""
from __future__ import annotations

from decimal import Decimal

from hypothesis import strategies as st

VERSIONS = ('1.0', '2.0', '3.0', '3.1')

# --------------------------------------------------------------------------
# Grammar tables (W3C EBNF)
# --------------------------------------------------------------------------
# XPath 1.0 (REC-xpath-19991116 section 3): OrExpr > AndExpr > EqualityExpr > RelationalExpr > AdditiveExpr >
# MultiplicativeExpr > UnaryExpr > UnionExpr > PathExpr > FilterExpr/Step > PrimaryExpr; every binary level is
# left-recursive (left-associative), comparisons included.
# XPath 2.0 (A.1): Expr > ExprSingle(for/some/every/if) > OrExpr > AndExpr > ComparisonExpr(non-assoc) >
# RangeExpr(non-assoc) > AdditiveExpr > MultiplicativeExpr > UnionExpr > IntersectExceptExpr > InstanceofExpr >
# TreatExpr > CastableExpr > CastExpr > UnaryExpr > ValueExpr=PathExpr > StepExpr(FilterExpr|AxisStep) > PrimaryExpr
# XPath 3.0: + StringConcatExpr between ComparisonExpr and RangeExpr, SimpleMapExpr between UnaryExpr and PathExpr,
#            LetExpr in ExprSingle, PostfixExpr with ArgumentList.
# XPath 3.1: + ArrowExpr between CastExpr and UnaryExpr, Lookup in PostfixExpr, UnaryLookup / map / array primaries.
LEVELS = {
    '1.0': ['or', 'and', 'eq', 'rel', 'add', 'mul', 'unary', 'union', 'path', 'step', 'primary'],
    '2.0': ['expr', 'single', 'or', 'and', 'cmp', 'to', 'add', 'mul', 'union', 'intersect', 'instance', 'treat',
            'castable', 'cast', 'unary', 'path', 'step', 'primary'],
    '3.0': ['expr', 'single', 'or', 'and', 'cmp', 'concat', 'to', 'add', 'mul', 'union', 'intersect', 'instance',
            'treat', 'castable', 'cast', 'unary', 'map', 'path', 'step', 'primary'],
    '3.1': ['expr', 'single', 'or', 'and', 'cmp', 'concat', 'to', 'add', 'mul', 'union', 'intersect', 'instance',
            'treat', 'castable', 'cast', 'arrow', 'unary', 'map', 'path', 'step', 'primary'],
}
LV = {v: {n: i for i, n in enumerate(ls)} for v, ls in LEVELS.items()}

GENERAL_CMP = ('=', '!=', '<', '<=', '>', '>=')
VALUE_CMP = ('eq', 'ne', 'lt', 'le', 'gt', 'ge')
NODE_CMP = ('is', '<<', '>>')


def _binops(ver):
    t = {'or': ('or', 'left'), 'and': ('and', 'left'), '+': ('add', 'left'), '-': ('add', 'left'),
         '*': ('mul', 'left'), 'div': ('mul', 'left'), 'mod': ('mul', 'left'), '|': ('union', 'left')}
    if ver == '1.0':
        for o in ('=', '!='):
            t[o] = ('eq', 'left')
        for o in ('<', '<=', '>', '>='):
            t[o] = ('rel', 'left')
        return t
    for o in GENERAL_CMP + VALUE_CMP + NODE_CMP:
        t[o] = ('cmp', 'none')
    t['to'] = ('to', 'none')
    t['idiv'] = ('mul', 'left')
    t['union'] = ('union', 'left')
    t['intersect'] = ('intersect', 'left')
    t['except'] = ('intersect', 'left')
    if ver >= '3.0':
        t['||'] = ('concat', 'left')
        t['!'] = ('map', 'left')
    return t


BINOPS = {v: _binops(v) for v in VERSIONS}
TYPEOPS = {'instance': 'of', 'treat': 'as', 'castable': 'as', 'cast': 'as'}

AXES = ('child', 'descendant', 'parent', 'ancestor', 'following-sibling', 'preceding-sibling', 'following',
        'preceding', 'attribute', 'self', 'descendant-or-self', 'ancestor-or-self')
KINDS = ('text', 'node', 'comment')
# functions usable as leaves: name -> allowed arities (same in all versions that have them)
FUNCS = {
    '1.0': {'count': (1,), 'concat': (2, 3), 'not': (1,), 'string': (0, 1), 'true': (0,), 'sum': (1,),
            'position': (0,), 'last': (0,)},
}
FUNCS['2.0'] = dict(FUNCS['1.0'], **{'abs': (1,), 'exists': (1,), 'empty': (1,), 'string-join': (2,), 'fn:count': (1,),
                                    'xs:integer': (1,), 'xs:string': (1,), 'reverse': (1,), 'data': (1,)})
FUNCS['3.0'] = dict(FUNCS['2.0'], **{'head': (1,), 'tail': (1,)})
FUNCS['3.1'] = dict(FUNCS['3.0'], **{'array:size': (1,), 'map:size': (1,)})
ARROW_FUNCS = {'abs': 0, 'count': 0, 'string': 0, 'concat': 1, 'string-join': 1, 'fn:exists': 0, 'reverse': 0}

ITEM_TYPES = {
    '2.0': ['xs:integer', 'xs:string', 'xs:decimal', 'item()', 'node()', 'element()', 'text()', 'xs:anyAtomicType',
            'attribute()', 'document-node()', 'xs:untypedAtomic', 'element(a)'],
}
ITEM_TYPES['3.0'] = ITEM_TYPES['2.0'] + ['function(*)']
ITEM_TYPES['3.1'] = ITEM_TYPES['3.0'] + ['map(*)', 'array(*)']
SINGLE_TYPES = ['xs:integer', 'xs:string', 'xs:decimal', 'xs:double', 'xs:boolean', 'xs:untypedAtomic', 'xs:date']

KEYWORD_NAMES = ('div', 'mod', 'and', 'or', 'to', 'eq', 'ne', 'lt', 'is', 'union', 'intersect', 'except', 'idiv',
                 'instance', 'treat', 'cast', 'castable', 'if', 'for', 'some', 'every', 'let', 'return', 'in',
                 'satisfies', 'then', 'else', 'of', 'as', 'map', 'array', 'text', 'child', 'self')
NAMES = ('a', 'b', 'c', 'x-y', 'a.b', '_n', 'e1')

COMPOUND = {'bin', 'path', 'root', 'neg', 'type', 'arrow', 'seq', 'if', 'for', 'let', 'some', 'every'}
AXIS_STEP_HEADS = {'name', 'wild', 'attr', 'axis', 'kind', 'parent'}


def is_axis_step(n):
    h = n[0]
    if h in AXIS_STEP_HEADS:
        return True
    if h == 'pred':
        return is_axis_step(n[1])
    return False


def leftmost_is_root(n):
    return n[0] in ('root', 'rootonly') or (n[0] == 'path' and leftmost_is_root(n[2]))


def is_step1(n):
    """XPath 1.0 Step ::= AxisSpecifier NodeTest Predicate* | AbbreviatedStep"""
    if n[0] in ('dot', 'parent'):
        return True
    if n[0] == 'pred':
        return n[1][0] not in ('dot', 'parent') and is_axis_step(n[1])
    return n[0] in AXIS_STEP_HEADS


def is_relpath1(n):
    """XPath 1.0 RelativeLocationPath"""
    if n[0] == 'path':
        return is_relpath1(n[2]) and is_step1(n[3])
    return is_step1(n)


def node_level(n, ver):
    """Name of the EBNF level a node belongs to (the production that derives it without parentheses)."""
    h = n[0]
    if h == 'bin':
        return BINOPS[ver][n[1]][0]
    if h in ('path', 'root'):
        return 'path'
    if h == 'neg':
        return 'unary'
    if h == 'type':
        return n[1]
    if h == 'arrow':
        return 'arrow'
    if h == 'seq':
        return 'expr'
    if h in ('if', 'for', 'let', 'some', 'every'):
        return 'single'
    if h == 'rootonly':
        return 'path'
    if h in ('pred', 'lookup', 'dyncall') or h in AXIS_STEP_HEADS:
        return 'step'
    return 'primary'


# --------------------------------------------------------------------------
# Rendering
# --------------------------------------------------------------------------
class SeqTypeEnd(str):
    """last terminal of a SequenceType (an occurrence indicator may follow: xgc occurrence-indicators)"""


class MapColon(str):
    """the ':' of a map constructor entry (needs separation from names: 'a:b' is a QName)"""


def _lit_tokens(n):
    h = n[0]
    if h == 'str':
        q = n[2]
        return [q + n[1].replace(q, q + q) + q]
    return [n[1]]


def _type_tokens(itemtype, occ):
    """terminals of a SequenceType / SingleType"""
    if itemtype.endswith(')'):
        head, rest = itemtype.split('(', 1)
        inner = rest[:-1]
        toks = [head, '('] + ([inner] if inner else []) + [')']
    else:
        toks = [itemtype]
    if occ:
        toks.append(occ)
    toks[-1] = SeqTypeEnd(toks[-1])
    return toks


class Renderer:
    def __init__(self, ver, full=False):
        self.ver = ver
        self.full = full
        self.lv = LV[ver]
        self.low = LEVELS[ver][0]
        self.arg = 'or' if ver == '1.0' else 'single'

    # -- helpers ----------------------------------------------------------
    def wrap(self, toks, shape):
        return ['('] + toks + [')'], ['paren', shape]

    def sub(self, child, min_level, allow_paren=True, abs1=False, operand=True):
        """render child for a position that requires at least EBNF level `min_level`"""
        toks, shape = self.r(child, abs1) if abs1 else self.r(child)
        lvl = self.lv[node_level(child, self.ver)]
        if child[0] == 'rootonly' and operand:
            lvl = -1                       # leading-lone-slash constraint: always parenthesise as an operand
        need = lvl < self.lv[min_level]
        if self.full and allow_paren and child[0] in COMPOUND:
            need = True
        if need:
            if not allow_paren:
                raise ValueError(f'AST not derivable in XPath {self.ver}: {child!r} below {min_level}')
            return self.wrap(toks, shape)
        return toks, shape

    def nxt(self, level):
        ls = LEVELS[self.ver]
        return ls[self.lv[level] + 1]

    def args(self, items):
        toks, shapes = [], []
        for i, a in enumerate(items):
            if i:
                toks.append(',')
            if a[0] == 'placeholder':
                t, s = ['?'], ['placeholder']
            else:
                t, s = self.sub(a, self.arg, operand=False)
            toks += t
            shapes.append(s)
        return toks, shapes

    # -- main -----------------------------------------------------------------
    def r(self, n, abs1=False):
        """abs1: n is the RelativeLocationPath of an XPath 1.0 AbsoluteLocationPath (no parentheses allowed)"""
        h = n[0]
        ver = self.ver
        if h in ('int', 'dec', 'dbl', 'str'):
            return _lit_tokens(n), list(n)
        if h == 'var':
            return (['$' + n[1]] if ver == '1.0' else ['$', n[1]]), list(n)
        if h == 'dot':
            return ['.'], ['dot']
        if h == 'parent':
            return ['..'], ['parent']
        if h == 'name':
            return [n[1]], list(n)
        if h == 'wild':
            return ['*'], ['wild']
        if h == 'attr':
            t, s = self.r(n[1])
            return ['@'] + t, ['attr', s]
        if h == 'axis':
            t, s = self.r(n[2])
            return [n[1], '::'] + t, ['axis', n[1], s]
        if h == 'kind':
            toks = [n[1], '(']
            shapes = []
            for i, a in enumerate(n[2]):
                t, s = self.r(a)
                toks += ([','] if i else []) + t
                shapes.append(s)
            return toks + [')'], ['kind', n[1], shapes]
        if h == 'empty':
            return ['(', ')'], ['empty']
        if h == 'rootonly':
            return ['/'], ['rootonly']
        if h == 'placeholder':
            return ['?'], ['placeholder']
        if h == 'fref':
            return [n[1], '#', str(n[2])], list(n)
        if h == 'paren':
            t, s = self.r(n[1])
            return self.wrap(t, s)
        if h == 'bin':
            op = n[1]
            level, assoc = BINOPS[ver][op]
            lt, ls = self.sub(n[2], level if assoc == 'left' else self.nxt(level))
            rt, rs = self.sub(n[3], self.nxt(level))
            if op in ('*', '+') and isinstance(lt[-1], SeqTypeEnd):
                # "a instance of T * b": '*' / '+' after a SequenceType is an occurrence indicator
                lt, ls = self.wrap(lt, ls)
            return lt + [op] + rt, ['bin', op, ls, rs]
        if h == 'path':
            if ver == '1.0' and (not is_step1(n[3]) or (abs1 and not is_relpath1(n[2]))):
                raise ValueError(f'not an XPath 1.0 location path: {n!r}')
            lt, ls = self.sub(n[2], 'path', allow_paren=not abs1, abs1=abs1)
            rt, rs = self.sub(n[3], 'step', allow_paren=ver != '1.0')
            return lt + [n[1]] + rt, ['path', n[1], ls, rs]
        if h == 'root':
            if ver == '1.0' and not is_relpath1(n[2]):
                raise ValueError(f'not an XPath 1.0 location path: {n!r}')
            rt, rs = self.sub(n[2], 'path', allow_paren=ver != '1.0', abs1=ver == '1.0')
            if leftmost_is_root(n[2]) and rt[0] != '(':
                rt, rs = self.wrap(rt, rs)      # "/" RelativePathExpr: the relative path cannot start with a slash
            return [n[1]] + rt, ['root', n[1], rs]
        if h == 'neg':
            t, s = self.sub(n[2], 'unary')
            return [n[1]] + t, ['neg', n[1], s]
        if h == 'type':
            op = n[1]
            t, s = self.sub(n[2], self.nxt(op))
            return t + [op, TYPEOPS[op]] + _type_tokens(n[3], n[4]), ['type', op, s, n[3], n[4]]
        if h == 'arrow':
            lt, ls = self.sub(n[1], 'arrow')
            spec = n[2]
            if spec[0] == 'fname':
                st_, ss = [spec[1]], list(spec)
            elif spec[0] == 'var':
                st_, ss = self.r(spec)
            else:
                st_, ss = self.r(spec)          # ['paren', e]
            at, ashapes = self.args(n[3])
            return lt + ['=>'] + st_ + ['('] + at + [')'], ['arrow', ls, ss, ashapes]
        if h == 'pred':
            base = n[1]
            bt, bs = self.sub(base, 'step')
            if ver == '1.0' and base[0] in ('dot', 'parent') and bt[0] != '(':
                bt, bs = self.wrap(bt, bs)      # 1.0: AbbreviatedStep takes no predicates
            et, es = self.sub(n[2], self.low, operand=False)
            return bt + ['['] + et + [']'], ['pred', bs, es]
        if h == 'lookup':
            bt, bs = self.postfix_base(n[1])
            kt, ks = self.key(n[2])
            return bt + ['?'] + kt, ['lookup', bs, ks]
        if h == 'ulookup':
            kt, ks = self.key(n[1])
            return ['?'] + kt, ['ulookup', ks]
        if h == 'dyncall':
            bt, bs = self.postfix_base(n[1])
            at, ashapes = self.args(n[2])
            return bt + ['('] + at + [')'], ['dyncall', bs, ashapes]
        if h == 'call':
            at, ashapes = self.args(n[2])
            return [n[1], '('] + at + [')'], ['call', n[1], ashapes]
        if h == 'seq':
            toks, shapes = [], []
            for i, a in enumerate(n[1]):
                t, s = self.sub(a, 'single', operand=False)
                toks += ([','] if i else []) + t
                shapes.append(s)
            return toks, ['seq', shapes]
        if h == 'if':
            ct, cs = self.sub(n[1], 'expr', operand=False)
            tt, ts = self.sub(n[2], 'single')
            et, es = self.sub(n[3], 'single')
            return ['if', '('] + ct + [')', 'then'] + tt + ['else'] + et, ['if', cs, ts, es]
        if h in ('for', 'let', 'some', 'every'):
            toks, binds = [h], []
            for i, (v, e) in enumerate(n[1]):
                t, s = self.sub(e, 'single')
                toks += ([','] if i else []) + ['$', v, ':=' if h == 'let' else 'in'] + t
                binds.append([v, s])
            bt, bs = self.sub(n[2], 'single')
            return toks + ['satisfies' if h in ('some', 'every') else 'return'] + bt, [h, binds, bs]
        if h == 'inline':
            toks = ['function', '(']
            for i, p in enumerate(n[1]):
                toks += ([','] if i else []) + ['$', p]
            bt, bs = self.sub(n[2], 'expr', operand=False)
            return toks + [')', '{'] + bt + ['}'], ['inline', list(n[1]), bs]
        if h == 'map':
            toks, ents = ['map', '{'], []
            for i, (k, v) in enumerate(n[1]):
                kt, ks = self.sub(k, 'single')
                vt, vs = self.sub(v, 'single')
                toks += ([','] if i else []) + kt + [MapColon(':')] + vt
                ents.append([ks, vs])
            return toks + ['}'], ['map', ents]
        if h == 'sqarr':
            toks, shapes = ['['], []
            for i, a in enumerate(n[1]):
                t, s = self.sub(a, 'single', operand=False)
                toks += ([','] if i else []) + t
                shapes.append(s)
            return toks + [']'], ['sqarr', shapes]
        if h == 'curlarr':
            toks, shapes = ['array', '{'], []
            for i, a in enumerate(n[1]):
                t, s = self.sub(a, 'single', operand=False)
                toks += ([','] if i else []) + t
                shapes.append(s)
            return toks + ['}'], ['curlarr', shapes]
        raise ValueError(f'unknown AST node {n!r}')

    def postfix_base(self, base):
        bt, bs = self.sub(base, 'step')
        if is_axis_step(base) and bt[0] != '(':
            bt, bs = self.wrap(bt, bs)          # Lookup / ArgumentList attach to PrimaryExpr based postfix only
        return bt, bs

    def key(self, k):
        if k[0] == 'ncname':
            return [k[1]], list(k)
        if k[0] == 'int':
            return [k[1]], list(k)
        if k[0] == 'wild':
            return ['*'], ['wild']
        t, s = self.r(k[1])
        return self.wrap(t, s)


def render(ast, ver, full=False):
    """-> (terminals, shape)"""
    return Renderer(ver, full).r(ast)


_WORD_START = set('abcdefghijklmnopqrstuvwxyzABCDEFGHIJKLMNOPQRSTUVWXYZ_')
_DIGITS = set('0123456789')


def _kind(tok):
    c = tok[0]
    if c in _WORD_START:
        return 'name'
    if c in _DIGITS or (c == '.' and len(tok) > 1 and tok[1] in _DIGITS):
        return 'num'
    if tok in ('.', '..'):
        return 'dot'
    if tok == '-':
        return 'minus'
    if c == '$' and len(tok) > 1:
        return 'name'
    return 'punct'


def must_sep(a, b):
    """True when terminals a b need whitespace between them (A.2.2 terminal delimitation; conservative)."""
    if isinstance(a, MapColon) or isinstance(b, MapColon):
        other = b if isinstance(a, MapColon) else a
        return _kind(other) in ('name', 'num', 'dot') or other in ('*', ':')
    ka, kb = _kind(a), _kind(b)
    if ka == 'name':
        return kb in ('name', 'num', 'dot', 'minus')
    if ka == 'num':
        return kb in ('name', 'num', 'dot')
    if ka == 'dot':
        return kb in ('name', 'num', 'dot')
    if a == '/' and b in ('/', '//'):
        return True
    if a in ('<', '>', '!', '=', '|', ':', '(') and b and b[0] in '<>=|:':
        return True
    return False


def join(toks):
    out = []
    for i, t in enumerate(toks):
        if i and must_sep(toks[i - 1], t):
            out.append(' ')
        out.append(t)
    return ''.join(out)


def join_spaced(toks):
    return ' '.join(toks)


def join_ws(toks, gap_list):
    """gap_list: len(toks)+1 strings, each whitespace and/or comments; '' is upgraded to ' ' where needed."""
    out = [gap_list[0]]
    for i, t in enumerate(toks):
        if i:
            g = gap_list[i]
            if must_sep(toks[i - 1], t) and not (g and (g[0] in WS_CHARS_SET or g[-1] in WS_CHARS_SET)):
                g = ' ' + g
            out.append(g)
        out.append(t)
    out.append(gap_list[len(toks)])
    return ''.join(out)


WS_CHARS = (' ', '\t', '\n', '\r')
WS_CHARS_SET = set(WS_CHARS)

# comment bodies by class; every body is free of '(:' and ':)' unless it is the nested class
COMMENT_BODIES = {
    'plain': ['', ' ', 'c', ' a comment ', 'x y z', '1 + 2', ' \t', 'é'],
    'newline': ['\n', ' line1\nline2 ', '\r\n'],
    'keyword': [' and ', 'div', ' to 3 ', 'return', ' instance of ', 'if (a) then'],
    'punct': [' ) ', ' ( ', ' [ ', ']', ' , ', ' / ', '$', ' :: ', ' := ', '}', '{', ' ? ', '#', '=>', '||', '!', '@', ' : '],
    'colon': [':', 'a:', ':a'],
    'quote': [" it's ", ' " ', " ' ", '"a', "'"],
    'nested': ['(: inner :)', ' a (: b :) c ', '(::)', '(: (: deep :) :)'],
}
COMMENT_CLASSES = tuple(COMMENT_BODIES)


@st.composite
def gap(draw, ver):
    """-> [text, class] ; class in none/ws/comment-<kind>"""
    k = draw(st.integers(0, 99))
    if k < 45:
        return ['', 'none']
    if k < 75 or ver == '1.0':
        return [''.join(draw(st.lists(st.sampled_from(WS_CHARS), min_size=1, max_size=3))), 'ws']
    cls = draw(st.sampled_from(COMMENT_CLASSES + ('plain', 'plain', 'plain', 'keyword', 'punct', 'nested')))
    body = draw(st.sampled_from(COMMENT_BODIES[cls]))
    pre = draw(st.sampled_from(['', '', ' ', '\n']))
    post = draw(st.sampled_from(['', '', ' ', '\t']))
    return [pre + '(:' + body + ':)' + post, 'comment-' + cls]


def gaps(ver, n):
    return st.lists(gap(ver), min_size=n, max_size=n)


# --------------------------------------------------------------------------
# AST strategies
# --------------------------------------------------------------------------
_int_lex = st.sampled_from(['0', '1', '2', '3', '10', '007', '42'])
_dec_lex = st.sampled_from(['1.5', '.5', '2.', '0.0', '10.25'])
_dbl_lex = st.sampled_from(['1e0', '1.5E-2', '.5e+1', '1E3', '2.e1', '0e0'])
_str_val = st.sampled_from(['', 'a', 'b c', "it's", 'say "hi"', '\'"', 'a(:b:)c', '1 + 2', ' ', 'é', '\\', '\\n', 'a\'\'b'])


@st.composite
def _string(draw):
    v = draw(_str_val)
    return ['str', v, draw(st.sampled_from(["'", '"']))]


@st.composite
def _nametest(draw, ver, kw=True):
    k = draw(st.integers(0, 19))
    if k < 14 or not kw:
        return ['name', draw(st.sampled_from(NAMES))]
    if k < 16:
        return ['wild']
    if k < 18:
        return ['name', draw(st.sampled_from(KW_SAMPLE))]      # keyword spelling + '.', '-' or name characters: one NCName
    return ['name', draw(st.sampled_from(KEYWORD_NAMES))]


@st.composite
def _axis_step(draw, ver):
    k = draw(st.integers(0, 19))
    if k < 9:
        return draw(_nametest(ver))
    if k < 12:
        return ['attr', draw(_nametest(ver, kw=False))]
    if k < 15:
        ax = draw(st.sampled_from(AXES))
        if draw(st.booleans()):
            return ['axis', ax, draw(_nametest(ver, kw=False))]
        return ['axis', ax, ['kind', draw(st.sampled_from(KINDS)), []]]
    if k < 17:
        return ['kind', draw(st.sampled_from(KINDS)), []]
    if k < 18:
        return ['parent']
    return ['dot'] if ver == '1.0' else ['name', draw(st.sampled_from(NAMES))]


@st.composite
def _primary_leaf(draw, ver):
    k = draw(st.integers(0, 19))
    if k < 6:
        return ['int', draw(_int_lex)]
    if k < 8:
        return ['dec', draw(_dec_lex)]
    if k < 10:
        return ['dbl', draw(_dbl_lex)]
    if k < 13:
        return draw(_string())
    if k < 17:
        return ['var', draw(st.sampled_from(['v', 'w', 'f', 'm']))]
    if k < 18 and ver != '1.0':
        return ['empty']
    if k < 19 and ver >= '3.0':
        return ['fref', draw(st.sampled_from(['abs', 'count', 'fn:string', 'concat'])), draw(st.integers(1, 3))]
    return ['dot']


@st.composite
def _leaf(draw, ver):
    if draw(st.integers(0, 9)) < 5:
        return draw(_axis_step(ver))
    return draw(_primary_leaf(ver))


def _weights(ver, depth):
    w = [('bin', 44), ('neg', 6), ('path', 9), ('root', 3), ('pred', 6), ('call', 4), ('paren', 2), ('leaf', 8)]
    if ver != '1.0':
        w += [('type', 9), ('seq', 3), ('flow', 5)]
    if ver >= '3.0':
        w += [('dyncall', 3), ('inline', 1)]
    if ver >= '3.1':
        w += [('arrow', 6), ('lookup', 4), ('ulookup', 1), ('cons', 3)]
    return w


_BINOP_LISTS = {v: sorted(BINOPS[v]) for v in VERSIONS}


@st.composite
def _step1(draw, ver, depth):
    """XPath 1.0 Step: AxisSpecifier NodeTest Predicate* | AbbreviatedStep"""
    s = draw(_axis_step(ver))
    if s[0] in ('dot', 'parent'):
        return s
    for _ in range(draw(st.sampled_from([0, 0, 0, 1, 1, 2])) if depth > 0 else 0):
        s = ['pred', s, draw(ast(ver, depth - 1))]
    return s


@st.composite
def _relpath1(draw, ver, depth):
    """XPath 1.0 RelativeLocationPath"""
    p = draw(_step1(ver, depth))
    for _ in range(draw(st.integers(0, 2))):
        p = ['path', draw(st.sampled_from(['/', '/', '//'])), p, draw(_step1(ver, depth))]
    return p


@st.composite
def ast(draw, ver, depth):
    """AST of any EBNF level, valid for `ver`."""
    if depth <= 0:
        return draw(_leaf(ver))
    w = _weights(ver, depth)
    total = sum(x for _, x in w)
    k = draw(st.integers(0, total - 1))
    for prod, x in w:
        if k < x:
            break
        k -= x
    d = depth - 1
    sub = lambda dd=d: draw(ast(ver, draw(st.integers(0, dd))))   # noqa: E731
    if prod == 'leaf':
        return draw(_leaf(ver))
    if prod == 'bin':
        op = draw(st.sampled_from(_BINOP_LISTS[ver]))
        return ['bin', op, draw(ast(ver, d)), sub()] if draw(st.booleans()) else ['bin', op, sub(), draw(ast(ver, d))]
    if prod == 'neg':
        op = '-' if ver == '1.0' else draw(st.sampled_from(['-', '-', '+']))
        return ['neg', op, sub()]
    if prod == 'path':
        op = draw(st.sampled_from(['/', '/', '//']))
        if ver == '1.0':
            left = draw(st.one_of(_relpath1(ver, d), ast(ver, d)))
            if left[0] == 'root':
                return ['root', left[1], ['path', op, left[2], draw(_step1(ver, d))]]
            return ['path', op, left, draw(_step1(ver, d))]
        left = sub()
        right = sub()
        if left[0] == 'root':
            return ['root', left[1], ['path', op, left[2], right]]
        return ['path', op, left, right]
    if prod == 'root':
        op = draw(st.sampled_from(['/', '/', '//', 'only']))
        if op == 'only':
            return ['rootonly']
        if ver == '1.0':
            return ['root', op, draw(_relpath1(ver, d))]
        return ['root', op, sub()]
    if prod == 'pred':
        return ['pred', sub(), sub()]
    if prod == 'call':
        fs = FUNCS[ver]
        name = draw(st.sampled_from(sorted(fs)))
        n = draw(st.sampled_from(fs[name]))
        return ['call', name, [sub() for _ in range(n)]]
    if prod == 'paren':
        return ['paren', sub()]
    if prod == 'type':
        op = draw(st.sampled_from(['instance', 'treat', 'castable', 'cast']))
        if op in ('instance', 'treat'):
            it = draw(st.sampled_from(ITEM_TYPES[ver] + ['empty-sequence()']))
            occ = '' if it == 'empty-sequence()' else draw(st.sampled_from(['', '', '?', '*', '+']))
        else:
            it = draw(st.sampled_from(SINGLE_TYPES))
            occ = draw(st.sampled_from(['', '', '?']))
        return ['type', op, sub(), it, occ]
    if prod == 'seq':
        return ['seq', [sub() for _ in range(draw(st.integers(2, 3)))]]
    if prod == 'flow':
        kinds = ['if', 'for', 'some', 'every'] + (['let'] if ver >= '3.0' else [])
        kd = draw(st.sampled_from(kinds))
        if kd == 'if':
            return ['if', sub(), sub(), sub()]
        # binding names are tied to the depth: a nested clause never re-binds (or references) the outer name
        binds = [[f'{draw(st.sampled_from(["x", "y"]))}{depth}', sub()] for _ in range(draw(st.sampled_from([1, 1, 2])))]
        return [kd, binds, sub()]
    if prod == 'dyncall':
        return ['dyncall', sub(), [sub() for _ in range(draw(st.integers(0, 2)))]]
    if prod == 'inline':
        return ['inline', draw(st.sampled_from([[], ['x'], ['x', 'y']])), sub()]
    if prod == 'arrow':
        kd = draw(st.integers(0, 9))
        if kd < 7:
            name = draw(st.sampled_from(sorted(ARROW_FUNCS)))
            nargs = ARROW_FUNCS[name]
            spec = ['fname', name]
        elif kd < 9:
            spec, nargs = ['var', 'f'], draw(st.integers(0, 1))
        else:
            spec, nargs = ['paren', sub()], draw(st.integers(0, 1))
        return ['arrow', sub(), spec, [sub() for _ in range(nargs)]]
    if prod == 'lookup':
        return ['lookup', sub(), draw(_key(ver, d))]
    if prod == 'ulookup':
        return ['ulookup', draw(_key(ver, d))]
    if prod == 'cons':
        kd = draw(st.integers(0, 2))
        if kd == 0:
            return ['map', [[sub(), sub()] for _ in range(draw(st.integers(0, 2)))]]
        return ['sqarr' if kd == 1 else 'curlarr', [sub() for _ in range(draw(st.integers(0, 2)))]]
    raise AssertionError(prod)


@st.composite
def _key(draw, ver, d):
    k = draw(st.integers(0, 9))
    if k < 4:
        return ['ncname', draw(st.sampled_from(['a', 'b', 'key', 'div']))]
    if k < 7:
        return ['int', draw(st.sampled_from(['1', '2', '10']))]
    if k < 8:
        return ['wild']
    return ['paren', draw(ast(ver, d))]


@st.composite
def pair_ast(draw, ver):
    """Two operator applications, one nested in the other on the left or right: the all-pairs backbone."""
    kinds = ['bin'] * 6 + ['neg'] + (['type'] * 2 if ver != '1.0' else []) + (['arrow'] if ver >= '3.1' else [])

    def mk(kind, a, b):
        if kind == 'bin':
            return ['bin', draw(st.sampled_from(_BINOP_LISTS[ver])), a, b]
        if kind == 'neg':
            return ['neg', '-' if ver == '1.0' else draw(st.sampled_from(['-', '+'])), a]
        if kind == 'type':
            op = draw(st.sampled_from(['instance', 'treat', 'castable', 'cast']))
            return ['type', op, a, 'xs:integer', '']
        return ['arrow', a, ['fname', 'abs'], []]

    def operand():
        n = draw(_leaf(ver))
        if ver == '1.0' and n[0] == 'empty':
            return ['int', '1']
        return n
    inner = mk(draw(st.sampled_from(kinds)), operand(), operand())
    outer_kind = draw(st.sampled_from(kinds))
    if draw(st.booleans()):
        return mk(outer_kind, inner, operand())
    o = mk(outer_kind, operand(), inner)
    if o[0] != 'bin':                       # unary / postfix-type operators have a single operand
        o[2 if o[0] in ('neg', 'type') else 1] = inner
    return o


# --------------------------------------------------------------------------
# Shape of an elementpath token tree
# --------------------------------------------------------------------------
def _items(t):
    return list(t._items)


def _qname_of(t):
    """lexical QName / EQName of a name-like token"""
    s = t.symbol
    if s == '(name)':
        return str(t.value)
    if s == ':':
        it = _items(t)
        if len(it) == 2:
            return f'{_qname_of(it[0])}:{_qname_of(it[1])}'
    if s in ('Q{', '{'):
        it = _items(t)
        if len(it) == 2:
            return 'Q{%s}%s' % (it[0].value, _qname_of(it[1]))
    if s == '*':
        return '*'
    return str(t.symbol)


def _flat_comma(t):
    """ExprSingle list of an unparenthesised comma chain (elementpath nests it to the left)"""
    if t.symbol == ',' and len(t._items) == 2:
        return _flat_comma(t._items[0]) + [shape_of(t._items[1])]
    return [shape_of(t)]


def _label(t):
    return str(t.label)


def _is_function_token(t):
    return hasattr(t, 'nargs')


def _type_of(t):
    """(itemtype, occ) of a SequenceType / SingleType operand token"""
    occ = getattr(t, 'occurrence', '') or ''
    s = t.symbol
    if s == '*' and not t._items:
        return '*', occ
    if s in ('(name)', ':', 'Q{', '{'):
        return _qname_of(t), occ
    it = _items(t)
    inner = ','.join(_type_of(c)[0] + _type_of(c)[1] for c in it)
    return f'{s}({inner})', occ


def shape_of(t):
    s = t.symbol
    it = _items(t)
    n = len(it)
    label = _label(t)
    if s == '(integer)':
        return ['int', str(t.value)]
    if s == '(decimal)':
        return ['dec', str(t.value)]
    if s == '(float)':
        return ['dbl', repr(float(t.value))]
    if s == '(string)':
        return ['str', t.value]
    if s == '(name)':
        return ['name', t.value]
    if s == '.':
        return ['dot']
    if s == '..':
        return ['parent']
    if s == '$':
        return ['var', _qname_of(it[0])] if n == 1 else ['?', '$', [shape_of(c) for c in it]]
    if s == '*' and n == 0:
        return ['wild']
    if s == '@' and n == 1:
        return ['attr', shape_of(it[0])]
    if s in (':', 'Q{', '{') and n == 2:
        if _is_function_token(it[1]) and 'function' in _label(it[1]):
            inner = shape_of(it[1])
            if inner[0] == 'call':
                pfx = _qname_of(it[0]) + ':' if s == ':' else 'Q{%s}' % it[0].value
                return ['call', pfx + inner[1], inner[2]]
            return ['?', s, [shape_of(c) for c in it]]
        return ['name', _qname_of(t)]
    if label == 'axis' and n == 1:
        return ['axis', s, shape_of(it[0])]
    if s == '(':
        if n == 0:
            return ['empty']
        if n == 2:
            return ['dyncall', shape_of(it[0]), _flat_comma(it[1])]
        if it[0].span[0] < t.span[0]:
            return ['dyncall', shape_of(it[0]), []]
        return ['paren', shape_of(it[0])]
    if s == '[':
        if 'array' in label:
            return ['sqarr', [shape_of(c) for c in it]]
        if n == 2:
            return ['pred', shape_of(it[0]), shape_of(it[1])]
    if s == 'array' and 'array' == label:
        return ['curlarr', [shape_of(c) for c in it]]
    if s == 'map' and label == 'map':
        vals = list(getattr(t, '_values', []))
        return ['map', [[shape_of(k), shape_of(v)] for k, v in zip(it, vals)]] if len(vals) == n else \
            ['?', 'map', [shape_of(c) for c in it]]
    if s == '?':
        def key(k):
            if k.symbol == '(name)':
                return ['ncname', k.value]
            if k.symbol == '(integer)':
                return ['int', str(k.value)]
            if k.symbol == '*' and not k._items:
                return ['wild']
            return shape_of(k)
        if n == 2:
            return ['lookup', shape_of(it[0]), key(it[1])]
        if n == 1:
            return ['ulookup', key(it[0])]
        return ['placeholder']
    if s == '=>' and n == 3:
        sp = it[1]
        if _is_function_token(sp):
            spec = ['fname', sp.symbol]
        elif sp.symbol in (':', 'Q{') and len(sp._items) == 2 and _is_function_token(sp._items[1]):
            spec = ['fname', (_qname_of(sp._items[0]) + ':' if sp.symbol == ':' else 'Q{%s}' % sp._items[0].value)
                    + sp._items[1].symbol]
        elif sp.symbol in ('(name)', ':', 'Q{'):
            spec = ['fname', _qname_of(sp)]
        else:
            spec = shape_of(sp)
        a = it[2]
        if a.symbol == '(' and len(a._items) <= 1:
            args = _flat_comma(a._items[0]) if a._items else []
        else:
            args = [['?', 'arrow-args', shape_of(a)]]
        return ['arrow', shape_of(it[0]), spec, args]
    if s == ',' and n == 2:
        return ['seq', _flat_comma(t)]
    if s == 'if' and n == 3:
        return ['if'] + [shape_of(c) for c in it]
    if s in ('for', 'let', 'some', 'every') and n >= 3 and n % 2 == 1:
        binds = [[_qname_of(it[k]._items[0]) if it[k].symbol == '$' and it[k]._items else '?', shape_of(it[k + 1])]
                 for k in range(0, n - 1, 2)]
        return [s, binds, shape_of(it[-1])]
    if s in TYPEOPS and n == 2:
        ty, occ = _type_of(it[1])
        return ['type', s, shape_of(it[0]), ty, occ]
    if s in ('-', '+') and n == 1:
        return ['neg', s, shape_of(it[0])]
    if s in ('/', '//'):
        if n == 0:
            return ['rootonly'] if s == '/' else ['?', '//', []]
        if n == 1:
            return ['root', s, shape_of(it[0])]
        if n == 2:
            return ['path', s, shape_of(it[0]), shape_of(it[1])]
    if s == '#' and n == 2:
        return ['fref', _qname_of(it[0]) if not _is_function_token(it[0]) else it[0].symbol, it[1].value]
    if s == 'function' and 'function' in label and hasattr(t, 'body') and not label.endswith('test'):
        params = [_qname_of(c._items[0]) if c.symbol == '$' and c._items else '?' for c in it]
        body = t.body
        return ['inline', params, shape_of(body) if hasattr(body, 'symbol') and body is not None else ['empty']]
    if _is_function_token(t):
        if label in ('kind test', 'sequence type', 'function test'):
            return ['kind', s, [shape_of(c) for c in it]]
        return ['call', s, [shape_of(c) for c in it]]
    if n == 2:
        return ['bin', s, shape_of(it[0]), shape_of(it[1])]
    return ['?', s, [shape_of(c) for c in it]]


def canon(sh):
    """Normal form shared by expected and observed shapes: literal values, rooted paths."""
    if not isinstance(sh, list) or not sh:
        return sh
    h = sh[0]
    if h == 'int':
        return ['int', str(int(sh[1]))]
    if h == 'dec':
        d = Decimal(sh[1])
        return ['dec', str(d.normalize() if d else Decimal(0))]
    if h == 'dbl':
        return ['dbl', repr(float(sh[1]))]
    if h == 'str':
        return ['str', sh[1]]
    out = [canon(x) if isinstance(x, list) else x for x in sh]
    if h == 'path' and isinstance(out[2], list) and out[2][0] == 'root':
        # '/a/b' : EBNF "/" RelativePathExpr  ==  elementpath (/ (/ a) b)
        root = out[2]
        return ['root', root[1], canon(['path', out[1], root[2], out[3]])]
    return out


def strip_parens(sh):
    if not isinstance(sh, list):
        return sh
    if sh and sh[0] == 'paren':
        return strip_parens(sh[1])
    return [strip_parens(x) for x in sh]


def first_diff(a, b, path=''):
    """(path, a_head, b_head) of the first difference between two shapes (pre-order)."""
    if a == b:
        return None
    if not (isinstance(a, list) and isinstance(b, list)):
        return path, repr(a), repr(b)
    ha = a[0] if a and isinstance(a[0], str) else None
    hb = b[0] if b and isinstance(b[0], str) else None
    if ha is None or hb is None:
        if len(a) != len(b):
            return path, f'len{len(a)}', f'len{len(b)}'
        for i, (x, y) in enumerate(zip(a, b)):
            d = first_diff(x, y, f'{path}/{i}')
            if d:
                return d
        return path, 'list', 'list'

    def head(x):
        return x[0] + (':' + x[1] if x[0] in ('bin', 'neg', 'type', 'path', 'root') else '')
    if head(a) != head(b) or len(a) != len(b):
        return path, head(a), head(b)
    for i, (x, y) in enumerate(zip(a[1:], b[1:]), 1):
        if x != y:
            if isinstance(x, list) and isinstance(y, list):
                d = first_diff(x, y, f'{path}/{head(a)}.{i}')
                if d:
                    return d
            return f'{path}/{head(a)}.{i}', repr(x), repr(y)
    return path, head(a), head(b)


# --------------------------------------------------------------------------
# operand slots of a node (for minimisation / culprit search)
# --------------------------------------------------------------------------
def child_paths(n):
    """index paths of the operand expressions of node n"""
    h = n[0]
    if h in ('bin', 'path'):
        return [(2,), (3,)]
    if h in ('root', 'neg', 'type'):
        return [(2,)]
    if h == 'arrow':
        return [(1,)] + ([(2, 1)] if n[2][0] == 'paren' else []) + [(3, i) for i in range(len(n[3]))]
    if h == 'pred':
        return [(1,), (2,)]
    if h == 'lookup':
        return [(1,)] + ([(2, 1)] if n[2][0] == 'paren' else [])
    if h == 'ulookup':
        return [(1, 1)] if n[1][0] == 'paren' else []
    if h == 'dyncall':
        return [(1,)] + [(2, i) for i in range(len(n[2]))]
    if h == 'call':
        return [(2, i) for i in range(len(n[2])) if n[2][i][0] != 'placeholder']
    if h in ('seq', 'sqarr', 'curlarr'):
        return [(1, i) for i in range(len(n[1]))]
    if h == 'if':
        return [(1,), (2,), (3,)]
    if h in ('for', 'let', 'some', 'every'):
        return [(1, i, 1) for i in range(len(n[1]))] + [(2,)]
    if h == 'inline':
        return [(2,)]
    if h == 'map':
        return [(1, i, j) for i in range(len(n[1])) for j in (0, 1)]
    if h == 'paren':
        return [(1,)]
    return []


def get_at(n, path):
    for i in path:
        n = n[i]
    return n


def replace_at(n, path, new):
    if not path:
        return new
    out = list(n)
    out[path[0]] = replace_at(n[path[0]], path[1:], new)
    return out


def op_family(op, ver):
    if op in GENERAL_CMP:
        return 'cmp' if ver == '1.0' else 'general-cmp'
    if op in VALUE_CMP:
        return 'value-cmp'
    if op in NODE_CMP:
        return 'node-cmp'
    return {'+': 'add', '-': 'add', '*': 'mul', 'div': 'mul', 'idiv': 'mul', 'mod': 'mul', '|': 'union',
            'union': 'union', 'intersect': 'intersect', 'except': 'intersect', '||': 'concat', '!': 'map'}.get(op, op)


def klass(n, ver='2.0', full=False):
    """coarse class of an AST / shape node for bucket names"""
    h = n[0]
    if h == 'bin':
        return 'bin:' + op_family(n[1], ver)
    if h in ('neg', 'path', 'root'):
        return h
    if h == 'type':
        return f'type:{n[1]}'
    if h in ('int', 'dec', 'dbl', 'str'):
        return 'lit'
    if h in ('name', 'wild'):
        return 'nametest'
    if h == 'kind':
        return f'kind:{n[1]}'
    if h == 'axis':
        return 'axis>' + klass(n[2], ver)
    if h == 'attr':
        return 'attr'
    if h == 'arrow':
        return f'arrow:{n[2][0]}'
    if h in ('fref', 'inline', 'map', 'sqarr', 'curlarr', 'ulookup', 'lookup'):
        return 'xp3-expr:' + h if full else 'xp3-expr'      # expression forms new in XPath 3.0 / 3.1
    if h in ('pred', 'dyncall') and not full and klass(n[1], ver) == 'xp3-expr':
        return 'xp3-expr'                                    # ... with predicates / argument lists
    return h


def signature(n, ver='2.0', shape=None):
    """class of a node with the classes of its operands (operand classes taken from the rendered shape when given)"""
    src = shape if shape is not None else n
    return klass(n, ver, True) + '(' + ','.join(klass(get_at(src, p), ver) for p in child_paths(n)) + ')'


# --------------------------------------------------------------------------
# statistics on an AST
# --------------------------------------------------------------------------
_OP_HEADS = ('bin', 'neg', 'type', 'arrow', 'path', 'root', 'pred', 'lookup', 'dyncall', 'seq', 'if', 'for', 'let',
             'some', 'every')
_ALL_HEADS = set(_OP_HEADS) | {'int', 'dec', 'dbl', 'str', 'var', 'dot', 'parent', 'name', 'wild', 'attr', 'axis', 'kind',
                               'empty', 'rootonly', 'fref', 'placeholder', 'ulookup', 'call', 'inline', 'map', 'sqarr',
                               'curlarr', 'paren', 'ncname', 'fname'}


def walk(n):
    """all AST nodes, pre-order"""
    if isinstance(n, list):
        if n and isinstance(n[0], str) and n[0] in _ALL_HEADS:
            yield n
            if n[0] in ('int', 'dec', 'dbl', 'str', 'var', 'name', 'fref', 'ncname', 'fname'):
                return
        for x in n:
            if isinstance(x, list):
                yield from walk(x)


def operators(n, ver):
    """list of (level, op) of all operator nodes (pre-order)"""
    out = []
    for x in walk(n):
        h = x[0]
        if h in _OP_HEADS:
            out.append((node_level(x, ver), x[1] if h in ('bin', 'neg', 'type', 'path', 'root') else h))
    return out


def depth_of(n):
    if not isinstance(n, list):
        return 0
    return 1 + max([depth_of(x) for x in n] + [0]) if n and isinstance(n[0], str) else max([depth_of(x) for x in n] + [0])


# --------------------------------------------------------------------------
# Negative cases: chains the EBNF does not derive
# --------------------------------------------------------------------------
def op_class(n):
    if n[0] == 'bin':
        o = n[1]
        return 'general-cmp' if o in GENERAL_CMP else 'value-cmp' if o in VALUE_CMP else 'node-cmp' if o in NODE_CMP \
            else o
    return n[1]


@st.composite
def negative_chain(draw, ver):
    """(terminals, class) of an unparenthesised chain through a non-associative level (2.0+):
    ComparisonExpr / RangeExpr admit one operator; InstanceofExpr..CastExpr admit one type operator and only
    in the order cast < castable < treat < instance (inner to outer)."""
    assert ver != '1.0'
    leaf = lambda: draw(st.one_of(_primary_leaf(ver), _nametest(ver, kw=False)))   # noqa: E731
    cmp_ops = GENERAL_CMP + VALUE_CMP + NODE_CMP
    kind = draw(st.sampled_from(['cmp', 'cmp', 'cmp', 'to', 'type']))
    R = Renderer(ver)
    if kind == 'cmp':
        o1, o2 = draw(st.sampled_from(cmp_ops)), draw(st.sampled_from(cmp_ops))
        inner = ['bin', o1, leaf(), leaf()]
        outer = ['bin', o2, inner, leaf()]
    elif kind == 'to':
        inner = ['bin', 'to', leaf(), leaf()]
        outer = ['bin', 'to', inner, leaf()]
    else:
        order = ['instance', 'treat', 'castable', 'cast']
        i = draw(st.integers(0, 3))
        j = draw(st.integers(i, 3))          # outer at least as tight as inner: not derivable without parentheses
        inner = ['type', order[i], leaf(), 'xs:integer', '']
        outer = ['type', order[j], inner, 'xs:integer', '']
    # render children at their own level, then concatenate without the parentheses the EBNF would need
    it, _ = R.r(inner)
    if outer[0] == 'bin':
        rt, _ = R.sub(outer[3], R.nxt(BINOPS[ver][outer[1]][0]))
        toks = it + [outer[1]] + rt
    else:
        toks = it + [outer[1], TYPEOPS[outer[1]]] + _type_tokens(outer[3], outer[4])
    return {'toks': [str(t) for t in toks], 'cls': f'{op_class(inner)}~{op_class(outer)}'}


# --------------------------------------------------------------------------
# Token-level mutations and random strings (C03)
# --------------------------------------------------------------------------
SPLICES = ['Q{u}a', 'Q{', '?', '=>', '!', '#', '#1', '(:', ':)', '(', ')', '[', ']', '{', '}', '$', '@', '::', ':', ':=', ',',
           '/', '//', '..', '.', '*', '|', '||', '-', '+', '=', '!=', '<', '<<', '>>', '>=', "'", '"', '``', '1', '1.', '.5',
           '1e', '1e400', '0', '-0', '()', '[]', '{}', 'map{', 'array{', '[1', 'map', 'array', 'function', 'function(',
           'empty-sequence()', 'item()', 'node()', 'text()', 'element(', 'attribute(', 'attribute::', 'xs:integer',
           'xs:QName', 'xs:NOTATION', 'xs:anyAtomicType', 'fn:', 'xs:', 'err:', 'p:a', '*:a', 'a:*', 'true()', 'position()',
           'last()', 'current()', 'abs#1', 'concat#99', 'Q{http://www.w3.org/2005/xpath-functions}abs', '$v', '$nope', '$f(',
           '?1', '?*', '?(', '=> abs()', '=> $f()', '! .', 'ancestor::', 'namespace::', 'self::node()', ' ', ' ',
           '퟿', '�', '\U0001F600', '\x00', '\x0b', '\t', '\n', '\\', '%', '&', '^', '~', ';', '`']
KEYWORDS = ['and', 'or', 'div', 'mod', 'idiv', 'to', 'eq', 'ne', 'lt', 'le', 'gt', 'ge', 'is', 'union', 'intersect', 'except',
            'instance', 'of', 'treat', 'as', 'cast', 'castable', 'if', 'then', 'else', 'for', 'in', 'return', 'some', 'every',
            'satisfies', 'let', 'empty-sequence()', 'item()', 'node()']
OTHER_KIND = {'int': ["'s'", '1.5', '1e0', '()', 'true()', '$v', 'a', '.', '[1]', 'map{}', 'abs#1'],
              'name': ['1', "'s'", '1.5', '()', '$v', '.', '(1, 2)', '[1]', 'map{1:2}', 'text()', 'abs#1', 'function(){1}']}


@st.composite
def mutated(draw, toks):
    """token list -> token list with 1-3 token-level mutations"""
    toks = [str(t) for t in toks]
    for _ in range(draw(st.sampled_from([1, 1, 1, 2, 3]))):
        if not toks:
            toks = [draw(st.sampled_from(SPLICES))]
            continue
        i = draw(st.integers(0, len(toks) - 1))
        m = draw(st.integers(0, 9))
        if m == 0:
            del toks[i]
        elif m == 1:
            toks.insert(i, toks[i])
        elif m == 2:
            j = draw(st.integers(0, len(toks) - 1))
            toks[i], toks[j] = toks[j], toks[i]
        elif m == 3:
            k = _kind(toks[i]) if toks[i] else 'punct'
            pool = OTHER_KIND['int'] if k == 'num' else OTHER_KIND['name'] if k == 'name' else SPLICES
            toks[i] = draw(st.sampled_from(pool))
        elif m == 4:
            toks[i] = draw(st.sampled_from(KEYWORDS))
        elif m == 5:
            toks.insert(i, draw(st.sampled_from(['(', ')', '[', ']', '{', '}', '(:', ':)', "'", '"'])))
        elif m in (6, 7):
            toks.insert(i, draw(st.sampled_from(SPLICES)))
        elif m == 8:
            toks[i] = draw(st.sampled_from(SPLICES))
        else:
            del toks[i:]
    return toks


_RAND_ALPHABET = list("()[]{}/@$*|!?#:=<>,.'\"-+ ") + list('abcdeftx019') + ['::', '//', ':=', '=>', '||', '(:', ':)', '..', 'Q{',
                                                                              ' to ', ' div ', ' and ', ' or ', ' eq ',
                                                                              'é', '̀', ' ', '\U0001F600', '\\', '\n']


def random_string(max_len=40):
    """random strings biased to XPath punctuation plus arbitrary unicode (integer runs stay short)"""
    biased = st.lists(st.sampled_from(_RAND_ALPHABET), min_size=0, max_size=max_len).map(''.join)
    anyuni = st.text(min_size=0, max_size=20)
    mixed = st.lists(st.one_of(st.sampled_from(_RAND_ALPHABET), st.sampled_from(SPLICES), st.sampled_from(KEYWORDS),
                               st.characters()), min_size=1, max_size=25).map(' '.join)
    return st.one_of(biased, biased, mixed, anyuni)


def nesting_depth(s):
    """bracket depth + longest run of prefix operators: bound for the recursion a string can legitimately need"""
    d = best = run = bestrun = 0
    for ch in s:
        if ch in '([{':
            d += 1
            best = max(best, d)
        elif ch in ')]}':
            d = max(0, d - 1)
        if ch in '-+/@$?!:' or ch.isspace():
            if not ch.isspace():
                run += 1
                bestrun = max(bestrun, run)
        else:
            run = 0
    return best + bestrun


# --------------------------------------------------------------------------
# Exhaustive operator-pair space: every operator form of a version nested in every operand slot of every other
# --------------------------------------------------------------------------
def operator_forms(ver):
    """[(label, nslots, build(operands) -> AST)] : the operator forms of the version, one per operator symbol"""
    forms = []

    def add(label, n, fn):
        forms.append((label, n, fn))
    for op in sorted(BINOPS[ver]):
        add('bin:' + op, 2, lambda o, op=op: ['bin', op, o[0], o[1]])
    for op in ('/', '//'):
        add('path:' + op, 2, lambda o, op=op: ['path', op, o[0], o[1]])
        add('root:' + op, 1, lambda o, op=op: ['root', op, o[0]])
    for op in (('-',) if ver == '1.0' else ('-', '+')):
        add('neg:' + op, 1, lambda o, op=op: ['neg', op, o[0]])
    add('pred', 2, lambda o: ['pred', o[0], o[1]])
    add('call', 1, lambda o: ['call', 'count', [o[0]]])
    if ver != '1.0':
        for op in ('instance', 'treat', 'castable', 'cast'):
            add('type:' + op, 1, lambda o, op=op: ['type', op, o[0], 'xs:integer', ''])
        add('type:instance*', 1, lambda o: ['type', 'instance', o[0], 'item()', '*'])
        add('seq', 2, lambda o: ['seq', [o[0], o[1]]])
        add('if', 3, lambda o: ['if', o[0], o[1], o[2]])
        add('for', 2, lambda o: ['for', [['x9', o[0]]], o[1]])
        add('some', 2, lambda o: ['some', [['x9', o[0]]], o[1]])
        add('every', 2, lambda o: ['every', [['x9', o[0]], ['y9', ['int', '1']]], o[1]])
    if ver >= '3.0':
        add('let', 2, lambda o: ['let', [['x9', o[0]]], o[1]])
        add('dyncall', 2, lambda o: ['dyncall', o[0], [o[1]]])
        add('inline', 1, lambda o: ['inline', ['p'], o[0]])
    if ver >= '3.1':
        add('arrow', 2, lambda o: ['arrow', o[0], ['fname', 'concat'], [o[1]]])
        add('arrow-var', 1, lambda o: ['arrow', o[0], ['var', 'f'], []])
        add('lookup', 1, lambda o: ['lookup', o[0], ['ncname', 'k']])
        add('lookup-paren', 2, lambda o: ['lookup', o[0], ['paren', o[1]]])
        add('map', 2, lambda o: ['map', [[o[0], o[1]]]])
        add('sqarr', 2, lambda o: ['sqarr', [o[0], o[1]]])
        add('curlarr', 1, lambda o: ['curlarr', [o[0]]])
    return forms


_PAIR_LEAVES = (['name', 'a'], ['int', '1'], ['var', 'v'], ['name', 'b'], ['int', '2'])


def _rebind(n):
    """rename the binding variables of the inner form (no re-binding of the outer name in a range expression)"""
    if isinstance(n, list):
        return [_rebind(x) for x in n]
    return {'x9': 'x8', 'y9': 'y8', 'p': 'p8'}.get(n, n) if isinstance(n, str) else n


def pair_space(ver):
    """yield (label, AST): inner form nested in slot k of outer form, all other slots leaves; ASTs that the version's
    EBNF cannot derive (XPath 1.0 steps) are skipped by the caller when render() raises ValueError"""
    forms = operator_forms(ver)
    for oi, (ol, on, ob) in enumerate(forms):
        for k in range(on):
            for ii, (il, inn, ib) in enumerate(forms):
                inner = _rebind(ib([list(_PAIR_LEAVES[(j + ii) % 5]) for j in range(inn)]))
                ops = [list(_PAIR_LEAVES[(j + oi + 2) % 5]) for j in range(on)]
                ops[k] = inner
                yield f'{ol}[{k}]<-{il}', ob(ops)


# --------------------------------------------------------------------------
# Keyword-prefixed NCNames: keyword spelling + '.', '-' or further name characters is ONE name (enumerated space)
# --------------------------------------------------------------------------
KEYWORD_SPELLINGS = ['or', 'and', 'div', 'mod', 'idiv', 'to', 'eq', 'ne', 'lt', 'le', 'gt', 'ge', 'is', 'union', 'intersect', 'except',
                     'instance', 'of', 'treat', 'as', 'cast', 'castable', 'if', 'then', 'else', 'for', 'in', 'return', 'some', 'every',
                     'satisfies', 'let', 'child', 'descendant', 'parent', 'ancestor', 'following-sibling', 'preceding-sibling',
                     'following', 'preceding', 'attribute', 'self', 'descendant-or-self', 'ancestor-or-self', 'namespace', 'text',
                     'node', 'comment', 'processing-instruction', 'element', 'document-node', 'schema-element', 'schema-attribute',
                     'item', 'empty-sequence', 'namespace-node', 'function', 'map', 'array', 'count', 'not', 'string', 'position',
                     'last', 'true', 'abs', 'data', 'reverse', 'sort', 'head']
KW_SUFFIXES = ['.x', '-2', '-a', '_x', '1', 'x', '.', '-']
KW_SAMPLE = ['div.x', 'mod.y', 'or.b', 'and.id', 'to.do', 'if.x', 'for.each', 'union.all', 'cast.as', 'eq.1', 'is-a', 'div-2', 'and_x',
             'or1', 'text.node', 'child.x', 'map.entry', 'instance.of', 'le-', 'ge.']


def kw_space(ver):
    """yield (label, AST): every keyword spelling x suffix as element / attribute / variable name, path step, predicate,
    argument, unary operand, and on both sides of binary operators (6 operators per name, rotating over all of them)"""
    kws, sufs = KEYWORD_SPELLINGS, KW_SUFFIXES
    ops = sorted(BINOPS[ver])
    for ki, k in enumerate(kws):
        for si, suf in enumerate(sufs):
            n1 = ['name', k + suf]
            n2 = ['name', kws[(ki + 7) % len(kws)] + sufs[(si + 1) % len(sufs)]]
            lab = k + suf
            yield lab + ':name', n1
            yield lab + ':attr', ['bin', '=', ['attr', n1], ['int', '1']]
            yield lab + ':var', ['bin', '+', ['var', k + suf], ['var', n2[1]]]
            yield lab + ':step', ['path', '/', ['name', 'a'], n1]
            yield lab + ':path', ['path', '//', n1, n2]
            yield lab + ':pred', ['pred', n1, n2]
            yield lab + ':arg', ['call', 'count', [n1]]
            yield lab + ':neg', ['neg', '-', n1]
            yield lab + ':axis', ['axis', 'child', n1]
            if ver != '1.0':
                yield lab + ':type', ['type', 'instance', n1, 'xs:integer', '']
                yield lab + ':seq', ['seq', [n1, n2]]
                yield lab + ':if', ['if', n1, n2, n1]
                yield lab + ':for', ['for', [[k + suf, n2]], n1]
            for j in range(6):
                op = ops[(ki + si * 6 + j) % len(ops)]
                yield f'{lab}:bin:{op}', ['bin', op, n1, n2]
