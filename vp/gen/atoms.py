"""Atomic value generators (DESIGN 4.3).

An *atom* is the JSON-able pair ``[type, lexical]`` (type = local name of the xs: type).
Strategies yield atoms; helpers render an atom as an XPath literal / constructor call, as a
python object suitable as a variable value for elementpath (`pyvalue`), and as an independent
reference value (`vp.ref.numeric.make` for the numeric types).

Numeric design points:
* xs:double / xs:float values are dyadic rationals k/2**m written with their *exact* decimal
  expansion, so that reference arithmetic on them is exact and the lexical form denotes the same
  value whatever precision the reader uses; a few inexact lexicals (0.1, 1E21, 1E308, 5E-324 ...)
  are xs:double only.  xs:float lexicals are always exactly representable in binary32.
* integers / decimals include the sign, zero, .5-tie, 2**31, 2**53, 2**63 and 10**30 boundaries.
"""
from __future__ import annotations

import math
from fractions import Fraction

from hypothesis import strategies as st

from vp.ref import numeric as N

NUMERIC_TYPES = ('integer', 'decimal', 'float', 'double')

# --------------------------------------------------------------------------
# boundary values (the exhaustive grids of C06 / the type matrix of C07 take these)
# --------------------------------------------------------------------------
_F32_MAX = '340282346638528859811704183484516925440'          # (2-2**-23)*2**127, exact
_F32_MIN_SUB = N.dec_str(Fraction(1, 2 ** 149))                # smallest positive binary32
_F32_MIN_NORM = N.dec_str(Fraction(1, 2 ** 126))
_F32_SMALL = N.dec_str(Fraction(1, 2 ** 100))                  # 7.9e-31: its square underflows binary32
_F32_TENTH = '0.100000001490116119384765625'                   # binary32 nearest 0.1, exact
_F32_THIRD = '0.3333333432674407958984375'

BOUNDARY = {
    'integer': ['0', '1', '-1', '2', '-2', '3', '-3', '5', '-5', '6', '-6', '7', '-7', '10', '-10', '12', '-12',
                '100', '-100', '2147483647', '-2147483648', '2147483648', '9007199254740992', '9007199254740993',
                '-9007199254740993', '9223372036854775807', '9223372036854775808', '-9223372036854775808',
                '-9223372036854775809', '18446744073709551616', '1000000000000000000', '-1000000000000000000',
                '999999999999999999', '1000000000000000000000000000000', '-1000000000000000000000000000000',
                '1000000000000000000000000000001', '16777217', '-16777217', '4', '-4'],
    'decimal': ['0.0', '-0.0', '0.5', '-0.5', '1.5', '-1.5', '2.5', '-2.5', '3.5', '-3.5', '0.1', '-0.1', '0.25',
                '0.3', '-0.3', '1.0', '-1.0', '2.0', '-2.0', '3.0', '-3.0', '6.0', '-6.0', '6.5', '-6.5',
                '0.000001', '-0.000001', '0.05', '-0.05', '0.15', '0.125', '1.25', '12.345678', '-12.345678',
                '99999.5', '-99999.5', '123456789012.5', '1000000000000000000000000000000.0',
                '-1000000000000000000000000000000.0', '9223372036854775807.5', '0.999999', '-0.45'],
    'double': ['0', '-0', '1', '-1', '2', '-2', '3', '-3', '0.5', '-0.5', '1.5', '-1.5', '2.5', '-2.5', '6.5', '-6.5',
               '4', '-4', '6', '-6', '0.25', '0.1', '-0.1', '1.0E21', '-1.0E21', '1.0E-7', '1.0E308', '-1.0E308',
               '5E-324', '-5E-324', '9007199254740992', '-9007199254740992', '4503599627370496.5',
               '4503599627370497.5', '-4503599627370497.5', 'INF', '-INF', 'NaN', '0.49999999999999994',
               '-0.49999999999999994', '1.7976931348623157E308', '2.2250738585072014E-308', '-2.2250738585072014E-308',
               '1.0E-200', '-1.0E-200', '0.125', '7'],
    'float': ['0', '-0', '1', '-1', '2', '-2', '3', '-3', '0.5', '-0.5', '1.5', '-1.5', '2.5', '-2.5', '6.5', '-6.5',
              '4', '-4', '6', '-6', '0.25', _F32_TENTH, '-' + _F32_TENTH, _F32_THIRD, '16777216', '-16777216',
              '8388607.5', '8388606.5', '-8388607.5', _F32_MAX, '-' + _F32_MAX, _F32_SMALL, '-' + _F32_SMALL,
              _F32_MIN_SUB, '-' + _F32_MIN_SUB, _F32_MIN_NORM, '0.125',
              '10000000000', '100000002004087734272', 'INF', '-INF', 'NaN', '100', '-100', '7', '-7'],
}


INT_SUBTYPES = {
    'byte': (-128, 127), 'short': (-32768, 32767), 'int': (-2 ** 31, 2 ** 31 - 1), 'long': (-2 ** 63, 2 ** 63 - 1),
    'unsignedByte': (0, 255), 'unsignedShort': (0, 65535), 'unsignedInt': (0, 2 ** 32 - 1), 'unsignedLong': (0, 2 ** 64 - 1),
    'negativeInteger': (None, -1), 'nonPositiveInteger': (None, 0), 'nonNegativeInteger': (0, None), 'positiveInteger': (1, None),
}


def subint_boundary_atoms():
    """minimum / maximum of every bounded integer subtype (+ two inner values of the half-bounded ones)"""
    out = []
    for t, (lo, hi) in INT_SUBTYPES.items():
        vals = [lo if lo is not None else -5, hi if hi is not None else 7]
        if lo is None or hi is None:
            vals.append(-10 ** 20 if lo is None else 10 ** 20)
        out += [[t, str(v)] for v in vals]
    return out


# arguments for the unary rounding functions only (not crossed in the binary grid): doubles between 1e15 and 2**52
# (spacing 0.125 - 0.5) and floats between 2**21 and 2**23 that still have a fractional part, both signs, with
# odd and even integer parts for the .5 ties; every lexical is exactly representable
_UB_DOUBLE = ['1000000000000000.5', '1000000000000001.5', '1000000000000000.125', '1000000000000000.875', '1234567890123456.25',
              '1125899906842624.25', '1125899906842623.875', '2251799813685247.75', '2251799813685247.5', '2251799813685248.5',
              '3000000000000000.5', '3000000000000001.5', '4503599627370495.5', '4503599627370494.5', '4000000000000000.5']
_UB_FLOAT = ['4194304.5', '4194303.5', '4194303.25', '2097152.25', '2097151.875', '6000000.5', '6000001.5', '8388605.5']
UNARY_BOUNDARY = {'double': _UB_DOUBLE + ['-' + x for x in _UB_DOUBLE], 'float': _UB_FLOAT + ['-' + x for x in _UB_FLOAT]}


def unary_boundary_atoms(types=('double', 'float')):
    return [[t, lex] for t in types for lex in UNARY_BOUNDARY.get(t, [])]


def boundary_atoms(types=NUMERIC_TYPES):
    return [[t, lex] for t in types for lex in BOUNDARY[t]]


# --------------------------------------------------------------------------
# numeric strategies
# --------------------------------------------------------------------------
_small = st.integers(-12, 12)
_mag = st.sampled_from([2 ** 31, 2 ** 53, 2 ** 63, 10 ** 18, 10 ** 30, 2 ** 24])


@st.composite
def _int_value(draw):
    k = draw(st.integers(0, 9))
    if k < 5:
        return draw(_small)
    if k < 7:
        return draw(st.integers(-10 ** 6, 10 ** 6))
    if k < 9:
        return draw(st.sampled_from([1, -1])) * (draw(_mag) + draw(st.integers(-2, 2)))
    return draw(st.integers(-10 ** 30, 10 ** 30))


_INTEGERS = st.one_of(st.sampled_from(BOUNDARY['integer']), _int_value().map(str)).map(lambda s: ['integer', s])


def integers():
    return _INTEGERS


@st.composite
def _dec_lex(draw):
    k = draw(st.integers(0, 9))
    scale = draw(st.integers(0, 6))
    if k < 4:
        n = draw(st.integers(-400, 400))
        scale = draw(st.integers(0, 2))
    elif k < 6:       # .5 style ties at the drawn scale
        n = draw(st.integers(-2000, 2000)) * 10 + 5
        scale = max(scale, 1)
    elif k < 9:
        n = draw(st.integers(-10 ** 9, 10 ** 9))
    else:
        n = draw(st.integers(-10 ** 17, 10 ** 17))
    s = str(abs(n)).rjust(scale + 1, '0')
    body = s if scale == 0 else s[:-scale] + '.' + s[-scale:]
    if scale == 0 and draw(st.booleans()):
        body += '.0'          # otherwise an xs:decimal without a fraction part ('5'): literal() appends '.0'
    neg = n < 0 or (n == 0 and draw(st.integers(0, 3)) == 0)
    return ('-' if neg else '') + body


_DEC_LEX = _dec_lex()
_DECIMALS = st.one_of(st.sampled_from(BOUNDARY['decimal']), _DEC_LEX).map(lambda s: ['decimal', s])


def decimals():
    return _DECIMALS


def _dyadic_lex(bits):
    @st.composite
    def strat(draw):
        k = draw(st.integers(0, 9))
        if k < 5:
            n, m = draw(st.integers(-64, 64)), draw(st.integers(0, 3))
        elif k < 8:
            n, m = draw(st.integers(-(2 ** 20), 2 ** 20)), draw(st.integers(0, 10))
        elif k < 9:
            n, m = draw(st.integers(-(2 ** bits) + 1, 2 ** bits - 1)), draw(st.integers(0, bits))
        else:
            n, m = draw(st.integers(-(2 ** bits) + 1, 2 ** bits - 1)), -draw(st.integers(1, 40))
        q = Fraction(n) / Fraction(2) ** m
        s = N.dec_str(q)
        if n == 0 and draw(st.integers(0, 2)) == 0:
            s = '-0'
        return s
    return strat()


_DBL_SPECIAL = ['INF', '-INF', 'NaN', '-0', '0', '0.1', '-0.1', '1.0E21', '1.0E-7', '1.0E308', '5E-324', '-5E-324', '1.0E-200',
                '-1.0E-200', '-1.0E308', '2.2250738585072014E-308',
                '1.7976931348623157E308', '0.49999999999999994', '4503599627370496.5', '4503599627370497.5', '0.3', '1.1'] + \
    UNARY_BOUNDARY['double']
_FLT_SPECIAL = ['INF', '-INF', 'NaN', '-0', '0', _F32_TENTH, _F32_THIRD, _F32_MAX, '16777216', '8388607.5', '8388606.5',
                _F32_SMALL, '-' + _F32_SMALL, _F32_MIN_SUB, '-' + _F32_MIN_SUB, _F32_MIN_NORM, '-' + _F32_MAX] + UNARY_BOUNDARY['float']


_DYADIC53, _DYADIC24 = _dyadic_lex(53), _dyadic_lex(24)
_DOUBLES = st.one_of(st.sampled_from(BOUNDARY['double']), st.sampled_from(_DBL_SPECIAL), _DYADIC53,
                     _DYADIC53).map(lambda s: ['double', s])
_FLOATS = st.one_of(st.sampled_from(BOUNDARY['float']), st.sampled_from(_FLT_SPECIAL), _DYADIC24,
                    _DYADIC24).map(lambda s: ['float', s])
_UNTYPED_NUM = st.one_of(_small.map(str), _DEC_LEX, _DYADIC53,
                         st.sampled_from(['INF', '-INF', 'NaN', ' 7 ', '1e2', '-0', '+3'])).map(lambda s: ['untypedAtomic', s])


def doubles():
    return _DOUBLES


def floats():
    return _FLOATS


def untyped_numeric():
    """xs:untypedAtomic with a numeric-looking lexical (cast to xs:double by the arithmetic operators)."""
    return _UNTYPED_NUM


@st.composite
def _subint(draw):
    t = draw(st.sampled_from(sorted(INT_SUBTYPES)))
    lo, hi = INT_SUBTYPES[t]
    k = draw(st.integers(0, 9))
    if k < 5:
        v = draw(st.sampled_from([x for x in (lo, hi) if x is not None]))
    else:
        v = draw(st.integers(lo if lo is not None else -10 ** 6, hi if hi is not None else 10 ** 6))
        if k < 8:
            v = max(lo if lo is not None else v, min(hi if hi is not None else v, draw(_small)))
    return [t, str(v)]


_SUBINT = _subint()
_BY_TYPE = {'subint': _SUBINT, 'integer': _INTEGERS, 'decimal': _DECIMALS, 'double': _DOUBLES, 'float': _FLOATS, 'untypedAtomic': _UNTYPED_NUM}


def numeric(types=NUMERIC_TYPES):
    return st.one_of([_BY_TYPE[t] for t in types])


def lexical_for(typ: str, q: Fraction) -> str | None:
    """A lexical of `typ` denoting exactly the rational q, or None when q is not in the value space."""
    if typ in ('integer', 'decimal') and abs(q) > 10 ** 31:
        return None           # keep integer/decimal operands inside the binary32 range (promotion never overflows)
    if typ == 'integer':
        return str(q.numerator) if q.denominator == 1 else None
    if N.sig_digits(q) is None:
        return None
    if typ == 'decimal':
        if N.sig_digits(q) > 28:
            return None       # more digits than python's default decimal context keeps: implementation-defined
        s = N.dec_str(q)
        return s if '.' in s else s + '.0'
    if typ in ('double', 'untypedAtomic'):
        return N.dec_str(q) if N.f64_of_rational(q) == q and not math.isinf(N.f64_of_rational(q)) else None
    if typ == 'float':
        v = N.f32_of_rational(q)
        return N.dec_str(q) if not math.isinf(v) and Fraction(v) == q else None
    return None


@st.composite
def numeric_pair(draw, types=NUMERIC_TYPES + ('untypedAtomic',)):
    """Two numeric atoms; ~35% of the pairs are *related* (a = q*b for a small integer q, a = +-b, or
    a = q*b + small) so that exact quotients and zero remainders of every sign combination are frequent."""
    ta = draw(st.sampled_from(list(types)))
    tb = draw(st.sampled_from(list(types)))
    b = draw(_BY_TYPE[tb])
    k = draw(st.integers(0, 19))
    if k < 7:
        try:
            vb = refvalue(b)
        except ValueError:
            vb = None
        if vb is not None and N.finite(vb):
            qb = Fraction(vb[1])
            mult = draw(st.integers(-6, 6))
            qa = qb * mult
            if k >= 5:
                qa += draw(st.sampled_from([Fraction(1), Fraction(-1), Fraction(1, 2), Fraction(-1, 2), Fraction(1, 4)]))
            lex = lexical_for(ta, qa) if ta != 'subint' else None
            if lex is not None:
                return [[ta, lex], b]
    return [draw(_BY_TYPE[ta]), b]


# --------------------------------------------------------------------------
# rendering
# --------------------------------------------------------------------------

def constructor(atom) -> str:
    t, lex = atom
    return f"xs:{t}('{lex}')"


def literal(atom, xpath1: bool = False) -> str | None:
    """XPath numeric literal (negative values as a parenthesised unary minus); None when the value has no
    literal form (xs:float, INF, NaN, untypedAtomic; XPath 1.0 has no exponent notation)."""
    t, lex = atom
    s = lex.strip()
    if t not in ('integer', 'decimal', 'double') or s in ('INF', '-INF', 'NaN', '+INF'):
        return None
    neg = s.startswith('-')
    body = s.lstrip('+-')
    if xpath1 and t == 'double' and neg and N.rational_of_lexical(body) == 0:
        return None     # XPath 1.0 has no literal for negative zero that survives as a double
    if t == 'integer':
        out = body
    elif t == 'decimal':
        out = body if '.' in body else body + '.0'
    else:
        if xpath1:
            if 'E' in body or 'e' in body:
                q = N.rational_of_lexical(body)
                if q != 0 and (q < Fraction(1, 10 ** 30)):
                    return None
                out = N.dec_str(q)
            else:
                out = body
            if N.sig_digits(N.rational_of_lexical(out)) > 18:
                return None   # elementpath would hold the literal as a Decimal with more digits than a double has
        else:
            out = body if ('E' in body or 'e' in body) else body + 'e0'
    return f'(-{out})' if neg else out


def pyvalue(atom):
    """The python object elementpath takes as a variable value of this type (its own datatypes for
    xs:float / xs:untypedAtomic: that is the documented input interface)."""
    from decimal import Decimal
    t, lex = atom
    if t == 'integer':
        return int(lex)
    if t == 'decimal':
        return Decimal(lex)
    if t == 'double':
        return float(lex.replace('INF', 'inf'))
    if t == 'float':
        from elementpath.datatypes import Float
        return Float(lex)
    if t == 'untypedAtomic':
        from elementpath.datatypes import UntypedAtomic
        return UntypedAtomic(lex)
    if t in INT_SUBTYPES:
        from elementpath import datatypes
        return getattr(datatypes, t[0].upper() + t[1:])(int(lex))
    raise ValueError(t)


def refvalue(atom):
    if atom[0] in INT_SUBTYPES:
        # derived integer types are promoted to their base type xs:integer by the arithmetic operators (F&O 4.2)
        lo, hi = INT_SUBTYPES[atom[0]]
        v = N.parse('integer', atom[1])
        if (lo is not None and v < lo) or (hi is not None and v > hi):
            raise ValueError(atom)
        return ('integer', v)
    return N.make(atom[0], atom[1])


# --------------------------------------------------------------------------
# non-numeric atomic types (C07 ...): small hand-chosen pools with related values
# --------------------------------------------------------------------------
POOLS = {
    'string': ['', 'a', 'b', 'A', 'abc', 'ab', '1', '1.0', '10', '9', ' 1', 'true', 'false', '\u00e9', 'e\u0301',
               '\ufffd', '\U0001f600', 'NaN', '0', 'http://x/a', "it's"],
    'untypedAtomic': ['1', '1.0', '01', '10', '9', 'abc', '', 'true', 'false', '0', '2000-01-01', '2000-01-01Z', 'P1Y', 'P1D',
                      'NaN', 'INF', '1e0', ' 1 ', '0a', 'a', 'p:a', '12:00:00Z', '2000-01-01T00:00:00Z', 'Cg=='],
    'boolean': ['true', 'false', '1', '0'],
    'anyURI': ['', 'a', 'abc', 'http://x/a', 'http://x/b', '1'],
    'QName': ['p:a', 'p2:a', 'q:a', 'a', 'p:b', 'b'],
    'dateTime': ['2000-01-01T00:00:00', '2000-01-01T00:00:00Z', '1999-12-31T24:00:00', '2000-01-01T05:00:00+05:00',
                 '2000-12-31T23:00:00-05:00', '2001-01-01T00:00:00+05:00', '2000-01-01T00:00:00.5', '2000-02-29T12:00:00Z',
                 '1972-12-31T00:00:00-14:00', '2000-01-01T00:00:00-05:00', '1999-12-31T19:00:00-05:00', '2000-01-01T12:00:00'],
    'date': ['2000-01-01', '2000-01-01Z', '2000-01-01+14:00', '1999-12-31-10:00', '2000-01-02', '2004-12-25-12:00',
             '2004-12-26+12:00', '2000-01-01-05:00', '1999-12-31'],
    'time': ['00:00:00', '24:00:00', '12:00:00Z', '13:00:00+01:00', '23:59:59.999', '08:00:00+09:00', '17:00:00-06:00',
             '12:00:00', '07:00:00-05:00'],
    'gYear': ['2000', '2000Z', '2001', '2000+05:00', '2000-05:00'],
    'gYearMonth': ['2000-01', '2000-01Z', '2000-02', '2000-01-05:00'],
    'gMonth': ['--01', '--12', '--12Z', '--12-05:00'],
    'gMonthDay': ['--12-25', '--12-25Z', '--02-29', '--12-25-05:00', '--12-26+10:00', '--12-25-14:00'],
    'gDay': ['---01', '---31', '---31Z', '---31-05:00'],
    'duration': ['P1Y', 'P12M', 'P1Y1D', 'P365D', 'PT0S', 'P0M', '-P1Y', 'P1M', 'P30D', 'P1D', 'PT24H'],
    'yearMonthDuration': ['P1Y', 'P12M', 'P13M', '-P1M', 'P0M', 'P1M', 'P178956970Y7M', 'P178956970Y6M', '-P178956970Y7M',
                          'P3000000Y', 'P3000000Y1M'],
    'dayTimeDuration': ['P1D', 'PT24H', 'PT86400S', 'PT0S', '-PT1S', 'PT0.5S', 'P10D', 'PT240H', 'P30D', 'P365D',
                        # long durations that differ only in the microsecond digits (a binary double stops resolving
                        # microseconds near 2**33 s)
                        'P1000000DT0.000001S', 'P1000000DT0.000002S', '-P1000000DT0.000001S', '-P1000000DT0.000002S',
                        'PT8589934592.000001S', 'PT8589934592.000002S', 'P999999999DT0.000001S', 'P999999999DT0.000011S',
                        'P1000000000DT0.000001S', 'P1000000000DT0.000002S'],
    'hexBinary': ['', '00', '0a', '0A', '0aFF', 'ff', '0b'],
    'base64Binary': ['', 'AA==', 'Cg==', 'Cv8=', '/w==', 'Cw=='],
}
NAMESPACES = {'p': 'urn:p', 'q': 'urn:q', 'p2': 'urn:p', 'xs': 'http://www.w3.org/2001/XMLSchema'}
ATOMIC_TYPES = NUMERIC_TYPES + tuple(POOLS)

_NUM_SMALL = {
    'integer': ['0', '1', '-1', '2', '10', '9', '9007199254740993', '9007199254740992'],
    'decimal': ['0.0', '1.0', '-1.0', '0.1', '1.5', '10.0', '9007199254740993.0', '0.5'],
    'double': ['0', '-0', '1', '-1', '0.1', '1.5', 'NaN', 'INF', '-INF', '9007199254740992', '1.00000001', '0.5', '10'],
    'float': ['0', '-0', '1', '-1', '1.5', 'NaN', 'INF', '-INF', _F32_TENTH, '16777216', '0.5', '10'],
}


def atom_of(typ: str):
    """strategy of atoms of one type: pools for the non-numeric types, pools + generated values for numerics"""
    if typ in POOLS:
        return st.sampled_from(POOLS[typ]).map(lambda s: [typ, s])
    return st.one_of(st.sampled_from(_NUM_SMALL[typ]).map(lambda s: [typ, s]), _BY_TYPE[typ])


def pool_of(typ: str):
    """finite list of atoms of one type (type matrices)"""
    return [[typ, s] for s in (POOLS[typ] if typ in POOLS else _NUM_SMALL[typ])]


_ANY_ATOM = st.sampled_from(ATOMIC_TYPES).flatmap(atom_of)


def any_atom():
    return _ANY_ATOM


def xpath_of(atom) -> str:
    """XPath text of a typed atom: string literal, true()/false(), numeric literal where one exists, else a
    constructor call (xs:QName needs the NAMESPACES in the static context)."""
    t, lex = atom
    if t == 'string':
        return "'" + lex.replace("'", "''") + "'"
    if t == 'boolean' and lex in ('true', 'false'):
        return lex + '()'
    if t in ('integer', 'decimal', 'double'):
        s = literal(atom)
        if s is not None:
            return s
    return f"xs:{t}('" + lex.replace("'", "''") + "')"


def sequence_of(atoms) -> str:
    return '(' + ', '.join(xpath_of(a) for a in atoms) + ')'


# --------------------------------------------------------------------------
# long durations with microsecond-level differences
# --------------------------------------------------------------------------
_DT_BASES = [1, 59, 86400, 2 ** 33 - 1, 2 ** 33, 2 ** 33 + 1, 2 ** 35, 10 ** 6 * 86400, 10 ** 8 * 86400, 999999999 * 86400,
             10 ** 9 * 86400, 4 * 10 ** 9]
_YM_BASES = [12, 1200, 32 * 10 ** 6, 33 * 10 ** 6, 10 ** 9, 2 ** 31 - 12]


def _dt_lexical(micros: int, style: int) -> str:
    """xs:dayTimeDuration lexical of a signed number of microseconds"""
    neg, us = micros < 0, abs(micros)
    sec, frac = divmod(us, 10 ** 6)
    fs = ('.%06d' % frac).rstrip('0') if frac else ''
    if style == 0:
        body = f'PT{sec}{fs}S'
    else:
        d, r = divmod(sec, 86400)
        h, r = divmod(r, 3600)
        m, r = divmod(r, 60)
        body = f'P{d}DT{h}H{m}M{r}{fs}S' if style == 1 else (f'P{d}DT{r + 60 * m + 3600 * h}{fs}S' if d else f'PT{sec}{fs}S')
    return ('-' if neg and us else '') + body


@st.composite
def duration_family(draw, n=3):
    """n atoms of one duration type around one long base value: dayTimeDuration x, x + k microseconds (k in 1, 2, 10, ...)
    for x between 1 s and 10**9 days, or yearMonthDuration m, m + k months up to 2**31 months; both signs"""
    sign = draw(st.sampled_from([1, 1, -1]))
    if draw(st.integers(0, 4)) == 0:
        base = draw(st.one_of(st.sampled_from(_YM_BASES), st.integers(1, 2 ** 31 - 12)))
        offs = [0] + [draw(st.sampled_from([0, 1, 2, 10])) for _ in range(n - 1)]
        return [['yearMonthDuration', ('-' if sign < 0 else '') + f'P{base + o}M'] for o in offs]
    base = draw(st.one_of(st.sampled_from(_DT_BASES), st.integers(1, 10 ** 9 * 86400))) * 10 ** 6 + \
        draw(st.sampled_from([0, 0, 1, 500000, 999998]))
    offs = [0] + [draw(st.sampled_from([0, 1, 2, 10, -1, 1000000])) for _ in range(n - 1)]
    return [['dayTimeDuration', _dt_lexical(sign * (base + o), draw(st.integers(0, 2)))] for o in offs]
