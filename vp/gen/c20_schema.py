"""C20 generator: XSD schema *specs* (JSON) -> XSD text, valid instances by construction, path expressions.

Everything here is independent of elementpath: the spec is a plain JSON value, the XSD text is
rendered from it, instances are generated from the spec (never by asking a schema processor), and
the reference knowledge about the built-in types (derivation table, whitespace facet, value ranges)
is transcribed from XSD Part 2.

Spec shape
----------
spec = {'xsd': '1.0'|'1.1', 'tns': None|'urn:t', 'efd': 'qualified'|'unqualified',
        'types': [{'name': 'T0', 'def': DEF}, ...],          # global named types, may refer to earlier ones
        'root': {'name': 'root', 'kids': [DECL...], 'attrs': [ATTR...]}}
TYPEREF = 'xs:int' | 'T0'                                     # built-in or global named type
DEF     = ['restriction', TYPEREF, FACET] | ['list', TYPEREF] | ['union', [TYPEREF...]]
        | ['sc', TYPEREF(simple), [ATTR...]] | ['scext', TYPEREF(sc), [ATTR...]]
FACET   = None | ['enum', [lexical...]] | ['range', lo, hi] | ['pattern', regex, [lexical...]] | ['len', lo, hi]
DECL    = {'name', 'type': TYPEREF | DEF (anonymous) | ['eo', [DECL...], [ATTR...]], 'min', 'max',
           'nillable': bool, 'default': lexical|None, 'fixed': lexical|None}
ATTR    = {'name', 'type': TYPEREF | DEF(simple), 'use': 'required'|'optional', 'default', 'fixed'}

Instance node = {'p': [decl index path], 'text': str|None, 'attrs': [[name, value]...], 'nil': bool,
                 'xsi': TYPEREF|None, 'kids': [node...]}
"""
from __future__ import annotations

from hypothesis import strategies as st

XS = 'http://www.w3.org/2001/XMLSchema'
XSI = 'http://www.w3.org/2001/XMLSchema-instance'
TNS = 'urn:t'

# --------------------------------------------------------------------------
# Built-in types: derivation (XSD Part 2, section 3 type hierarchy diagram; XSD 1.1 adds anyAtomicType,
# dayTimeDuration, yearMonthDuration, dateTimeStamp)
# --------------------------------------------------------------------------
BUILTIN_BASE = {
    'anySimpleType': 'anyType', 'anyAtomicType': 'anySimpleType',
    'string': 'anyAtomicType', 'normalizedString': 'string', 'token': 'normalizedString', 'language': 'token',
    'Name': 'token', 'NMTOKEN': 'token', 'NCName': 'Name', 'ID': 'NCName', 'IDREF': 'NCName', 'ENTITY': 'NCName',
    'boolean': 'anyAtomicType', 'decimal': 'anyAtomicType', 'integer': 'decimal', 'long': 'integer', 'int': 'long',
    'short': 'int', 'byte': 'short', 'nonNegativeInteger': 'integer', 'positiveInteger': 'nonNegativeInteger',
    'unsignedLong': 'nonNegativeInteger', 'unsignedInt': 'unsignedLong', 'unsignedShort': 'unsignedInt',
    'unsignedByte': 'unsignedShort', 'nonPositiveInteger': 'integer', 'negativeInteger': 'nonPositiveInteger',
    'double': 'anyAtomicType', 'float': 'anyAtomicType', 'date': 'anyAtomicType', 'dateTime': 'anyAtomicType',
    'time': 'anyAtomicType', 'gYear': 'anyAtomicType', 'gYearMonth': 'anyAtomicType', 'gMonth': 'anyAtomicType',
    'gMonthDay': 'anyAtomicType', 'gDay': 'anyAtomicType', 'duration': 'anyAtomicType',
    'dayTimeDuration': 'duration', 'yearMonthDuration': 'duration', 'dateTimeStamp': 'dateTime',
    'anyURI': 'anyAtomicType', 'QName': 'anyAtomicType', 'hexBinary': 'anyAtomicType',
    'base64Binary': 'anyAtomicType',
    'NMTOKENS': 'anySimpleType',       # built-in list type
}
XSD11_ONLY = ('dayTimeDuration', 'yearMonthDuration', 'dateTimeStamp')
PRIMITIVES = {n for n, b in BUILTIN_BASE.items() if b == 'anyAtomicType'}

INT_RANGE = {
    'integer': (None, None), 'long': (-2 ** 63, 2 ** 63 - 1), 'int': (-2 ** 31, 2 ** 31 - 1),
    'short': (-2 ** 15, 2 ** 15 - 1), 'byte': (-128, 127), 'nonNegativeInteger': (0, None),
    'positiveInteger': (1, None), 'unsignedLong': (0, 2 ** 64 - 1), 'unsignedInt': (0, 2 ** 32 - 1),
    'unsignedShort': (0, 2 ** 16 - 1), 'unsignedByte': (0, 255), 'nonPositiveInteger': (None, 0),
    'negativeInteger': (None, -1),
}
STRING_FAMILY = ('string', 'normalizedString', 'token')
DATE_TIME_TYPES = ('gYearMonth', 'gYear', 'gMonthDay', 'gDay', 'gMonth', 'date', 'dateTime', 'time', 'dateTimeStamp')
NAME_FAMILY = ('Name', 'NCName')


def builtin_chain(name: str) -> list[str]:
    """name and its built-in ancestors up to anyType (exclusive)."""
    out = []
    while name != 'anyType':
        out.append(name)
        name = BUILTIN_BASE[name]
    return out


def builtin_primitive(name: str) -> str:
    for n in builtin_chain(name):
        if n in PRIMITIVES:
            return n
    return name


def whitespace_of(builtin: str) -> str:
    if builtin == 'string':
        return 'preserve'
    if builtin == 'normalizedString':
        return 'replace'
    return 'collapse'


def family_of(builtin: str) -> str:
    """coarse value family used for value predicates and arithmetic checks"""
    if builtin in INT_RANGE:
        return 'int'
    if builtin in ('decimal', 'double', 'float', 'boolean', 'date'):
        return builtin
    if builtin == 'string':
        return 'string'
    return 'other'


# the built-in atomic types used for declarations
POOL_10 = ['string', 'normalizedString', 'token', 'language', 'Name', 'NCName', 'NMTOKEN', 'boolean', 'decimal',
           'integer', 'long', 'int', 'short', 'byte', 'nonNegativeInteger', 'positiveInteger', 'nonPositiveInteger',
           'negativeInteger', 'unsignedLong', 'unsignedInt', 'unsignedShort', 'unsignedByte', 'double', 'float',
           'date', 'dateTime', 'time', 'gYear', 'gYearMonth', 'gMonth', 'gMonthDay', 'gDay', 'duration', 'anyURI',
           'QName', 'hexBinary', 'base64Binary']
POOL_11 = POOL_10 + list(XSD11_ONLY)
# more weight where the interesting derivations live
_WEIGHTED = ['gYearMonth', 'gYearMonth', 'gYear', 'dateTime', 'time', 'gMonthDay', 'gDay', 'gMonth', 'date',
             'int', 'int', 'integer', 'decimal', 'decimal', 'string', 'string', 'token', 'double', 'boolean', 'date',
             'short', 'unsignedByte', 'positiveInteger', 'long', 'NCName', 'float']

# --------------------------------------------------------------------------
# lexical value generators for the built-in types (valid by construction)
# --------------------------------------------------------------------------
_INT_POINTS = [0, 1, -1, 2, 3, 5, 7, 10, 42, 100, 127, 128, -128, -129, 255, 256, 32767, 32768, -32768, 65535, 65536,
               2 ** 31 - 1, 2 ** 31, -2 ** 31, 2 ** 32 - 1, 2 ** 63 - 1, -2 ** 63, 2 ** 64 - 1, 10 ** 20, -10 ** 20]
_TZ = ['', '', 'Z', '+05:30', '-08:00']
_DATES = ['2000-01-01', '2024-02-29', '1999-12-31', '0001-01-01', '1970-06-15']
# years where the XSD version matters: negative years (no year zero in XSD 1.0, astronomical numbering in 1.1), more
# than four digits, and the year 0000 itself (a valid lexical form in XSD 1.1 only). All forms are canonical.
_YEARS_ANY = ['-0044', '12345', '-0001', '-12345', '10000', '-0400']
_YEARS_11 = ['0000', '0000']
_MONTH_DAYS = ['-01-01', '-03-15', '-12-31', '-02-28']
_MONTHS = ['-03', '-12', '-01']


def _draw_year(draw, xsd):
    return draw(st.sampled_from(_YEARS_ANY + _YEARS_11 if xsd == '1.1' else _YEARS_ANY))


def _draw_date(draw, xsd):
    if draw(st.integers(0, 9)) < 6:
        return draw(st.sampled_from(_DATES))
    return _draw_year(draw, xsd) + draw(st.sampled_from(_MONTH_DAYS))
_TIMES = ['00:00:00', '12:30:45', '23:59:59', '12:00:00.5', '01:02:03.125']
_FIXED_VALUES = {
    'boolean': ['true', 'false', '1', '0'],
    'language': ['en', 'en-US', 'it', 'x-klingon', 'fr-CA'],
    'Name': ['a', '_a', 'a:b', 'a.b-c', 'A1'],
    'NCName': ['a', '_a', 'a.b-c', 'A1', 'zz'],
    'NMTOKEN': ['1a', 'a', '-x', 'a:b', '.5'],
    'double': ['0', '1', '-1', '1.5', '1e1', '1E2', '-0', 'INF', '-INF', 'NaN', '0.1', '3.0e-2', '12345.678', '1e308', '2', '7'],
    'float': ['0', '1', '-1', '1.5', '1e1', '1E2', '-0', 'INF', '-INF', 'NaN', '0.1', '3.0e-2', '12345.678', '1e38', '2', '7'],
    'duration': ['P1Y', 'P1Y2M', 'P3D', 'PT4H', 'PT5M', 'PT6.5S', 'P1Y2M3DT4H5M6.5S', '-P1D', 'PT0S', 'P2M'],
    'dayTimeDuration': ['P1D', 'PT4H', 'PT5M', 'PT6.5S', 'P3DT4H5M6S', '-PT1S', 'PT0S'],
    'yearMonthDuration': ['P1Y', 'P2M', 'P1Y2M', '-P3M', 'P0M'],
    'anyURI': ['http://x/a', 'urn:a:b', 'a b', '', '#f', '../x?q=1'],
    'hexBinary': ['', '00', '0aFf', 'DEADBEEF', '7f'],
    'base64Binary': ['', 'YQ==', 'YWI=', 'YWJj', 'YWJj ZGVm'],
    'gMonth': ['--02', '--12', '--01'],
    'gMonthDay': ['--02-29', '--12-31', '--01-01'],
    'gDay': ['---31', '---01', '---15'],
    'gYear': ['2000', '1999', '0001', '12345'],
    'gYearMonth': ['2000-02', '1999-12', '0001-01'],
}
_STRINGS = ['', 'a', 'ab', ' a  b ', 'x\ty', 'A1', 'zz', '  ', 'hello world', 'é', '1', 'true', 'a\nb', '42', 'b']
_PADS = [(' ', ''), ('', ' '), ('  ', '\n'), ('\t', ' '), ('\n ', '  ')]


def _render_int(draw, v: int, plus_ok: bool = True) -> str:
    k = draw(st.integers(0, 9))
    s = str(abs(v))
    if k == 0:
        s = '00' + s
    elif k == 1:
        s = '0' + s
    if v < 0:
        return '-' + s
    if k == 2 and plus_ok:
        return '+' + s
    if k == 3 and v == 0:
        return '-' + s
    return s


def _draw_int(draw, lo, hi) -> int:
    pts = [p for p in _INT_POINTS if (lo is None or p >= lo) and (hi is None or p <= hi)]
    if lo is not None:
        pts.append(lo)
    if hi is not None:
        pts.append(hi)
    if pts and draw(st.integers(0, 9)) < 7:
        return pts[draw(st.integers(0, len(pts) - 1))]
    base = lo if lo is not None else (hi - 40 if hi is not None else -20)
    top = base + 40 if hi is None else min(hi, base + 40)
    return draw(st.integers(base, top))


@st.composite
def builtin_value(draw, name: str, rng=None, tns_prefix: bool = False, xsd: str = '1.0'):
    """A valid lexical form (whitespace-normalized) of built-in type `name`; rng = (lo, hi) inclusive bounds."""
    if name in INT_RANGE:
        lo, hi = INT_RANGE[name]
        if rng is not None:
            lo = rng[0] if lo is None else max(lo, rng[0])
            hi = rng[1] if hi is None else min(hi, rng[1])
        v = _draw_int(draw, lo, hi)
        return _render_int(draw, v, plus_ok=name != 'negativeInteger')
    if name == 'decimal':
        if rng is not None:
            lo, hi = rng
            v = _draw_int(draw, lo, hi)
            k = draw(st.integers(0, 3))
            if k == 0 and ((0 <= v < hi) or (lo < v < 0)):
                # |v| + 0.frac stays inside [lo, hi]
                return f'{v}.{draw(st.sampled_from(["5", "25", "50", "000001"]))}'
            if k == 1:
                return f'{v}.0'
            if k == 2:
                return f'{v}.'
            return _render_int(draw, v)
        v = _draw_int(draw, None, None)
        k = draw(st.integers(0, 7))
        if k == 0:
            return _render_int(draw, v)
        if k == 1:
            return f'{v}.'
        if k == 2:
            return ('-' if v < 0 else '') + '.5'
        frac = draw(st.sampled_from(['0', '5', '50', '25', '125', '000001', '10']))
        sign = '+' if (v >= 0 and k == 3) else ''
        return f'{sign}{v}.{frac}'
    if name in STRING_FAMILY:
        return draw(st.sampled_from(_STRINGS))
    if name == 'date':
        return _draw_date(draw, xsd) + draw(st.sampled_from(_TZ))
    if name == 'time':
        return draw(st.sampled_from(_TIMES)) + draw(st.sampled_from(_TZ))
    if name == 'dateTime':
        return _draw_date(draw, xsd) + 'T' + draw(st.sampled_from(_TIMES)) + draw(st.sampled_from(_TZ))
    if name == 'dateTimeStamp':
        return _draw_date(draw, xsd) + 'T' + draw(st.sampled_from(_TIMES)) + draw(st.sampled_from(_TZ[2:]))
    if name in ('gYear', 'gYearMonth') and draw(st.integers(0, 9)) >= 5:
        return _draw_year(draw, xsd) + (draw(st.sampled_from(_MONTHS)) if name == 'gYearMonth' else '') + \
            draw(st.sampled_from(_TZ))
    if name in ('gYear', 'gYearMonth', 'gMonth', 'gMonthDay', 'gDay'):
        return draw(st.sampled_from(_FIXED_VALUES[name])) + draw(st.sampled_from(_TZ))
    if name == 'QName':
        return draw(st.sampled_from(['a', 'xs:int', 'xs:a.b', 'zz'] + (['t:a', 't:root'] if tns_prefix else [])))
    if name == 'NMTOKENS':
        n = draw(st.integers(1, 3))
        return ' '.join(draw(st.sampled_from(_FIXED_VALUES['NMTOKEN'])) for _ in range(n))
    return draw(st.sampled_from(_FIXED_VALUES[name]))


_INT_PATTERNS = {
    'signed': [('[0-9]{1,2}', ['0', '7', '42', '99', '00']), ('-?[1-9]', ['1', '-1', '9', '-9']),
               ('[+-]?\\d{1,2}', ['+5', '-12', '0', '+00', '99'])],
    'nonneg': [('[0-9]{1,2}', ['0', '7', '42', '99', '00']), ('\\d', ['0', '5', '9'])],
    'pos': [('[1-9][0-9]?', ['1', '10', '99'])],
    'neg': [('-[1-9]', ['-1', '-9'])],
    'nonpos': [('-[1-9]|0', ['-1', '0', '-9']), ('-\\d', ['-0', '-5'])],
}
_PATTERNS = {
    'decimal': [('\\d+\\.\\d{2}', ['1.50', '0.00', '12.34']), ('-?\\d+', ['5', '-5', '100'])],
    'string': [('[a-z]{1,4}', ['a', 'ab', 'zzzz']), ('[a-c]*', ['', 'abc', 'cab']), ('\\w+', ['A1', 'x_y', 'é']),
               ('.{0,3}', ['', 'a b', 'xyz'])],
    'name': [('[a-z]{1,4}', ['a', 'ab', 'zzzz']), ('\\i\\c*', ['a', '_a', 'A1'])],
}


def _pattern_table(builtin: str):
    if builtin in ('integer', 'long', 'int', 'short', 'byte'):
        return _INT_PATTERNS['signed']
    if builtin in ('nonNegativeInteger', 'unsignedLong', 'unsignedInt', 'unsignedShort', 'unsignedByte'):
        return _INT_PATTERNS['nonneg']
    if builtin == 'positiveInteger':
        return _INT_PATTERNS['pos']
    if builtin == 'negativeInteger':
        return _INT_PATTERNS['neg']
    if builtin == 'nonPositiveInteger':
        return _INT_PATTERNS['nonpos']
    if builtin == 'decimal':
        return _PATTERNS['decimal']
    if builtin in STRING_FAMILY:
        return _PATTERNS['string']
    if builtin in NAME_FAMILY:
        return _PATTERNS['name']
    return []


# --------------------------------------------------------------------------
# type resolution
# --------------------------------------------------------------------------

def is_def(t) -> bool:
    return isinstance(t, list)


def types_by_name(spec) -> dict:
    return {t['name']: t['def'] for t in spec['types']}


def resolve(spec, typeref, _names=None) -> dict:
    """Resolved description of a TYPEREF or anonymous DEF.

    {'variety': 'atomic', 'builtin': nearest built-in ancestor, 'facet': effective FACET, 'chain': [named/built-in
      ancestors, nearest first, starting with the type itself when it is named], 'user': bool}
    {'variety': 'list', 'item': resolved, 'facet', 'chain', 'builtin': None or 'NMTOKENS'}
    {'variety': 'union', 'members': [resolved...], 'chain'}
    {'variety': 'sc', 'content': resolved simple, 'attrs': [ATTR...] (inherited first), 'chain'}
    {'variety': 'eo', 'kids': [...], 'attrs': [...], 'chain': []}
    """
    names = _names if _names is not None else types_by_name(spec)
    if isinstance(typeref, str):
        if typeref.startswith('xs:'):
            b = typeref[3:]
            if b == 'NMTOKENS':
                return {'variety': 'list', 'item': resolve(spec, 'xs:NMTOKEN', names), 'facet': ['len', 1, None],
                        'chain': ['xs:NMTOKENS', 'xs:anySimpleType'], 'builtin': 'NMTOKENS', 'user': False}
            return {'variety': 'atomic', 'builtin': b, 'facet': None, 'xsd': spec['xsd'],
                    'chain': ['xs:' + n for n in builtin_chain(b)], 'user': False}
        r = dict(resolve(spec, names[typeref], names))
        r['chain'] = [typeref] + r['chain']
        return r
    kind = typeref[0]
    if kind == 'restriction':
        base = resolve(spec, typeref[1], names)
        r = dict(base)
        r['user'] = True
        if typeref[2] is not None:
            r['facet'] = typeref[2]
        return r
    if kind == 'list':
        return {'variety': 'list', 'item': resolve(spec, typeref[1], names), 'facet': None,
                'chain': ['xs:anySimpleType'], 'builtin': None, 'user': True}
    if kind == 'union':
        return {'variety': 'union', 'members': [resolve(spec, m, names) for m in typeref[1]], 'refs': list(typeref[1]),
                'chain': ['xs:anySimpleType'], 'user': True}
    if kind == 'sc':
        content = resolve(spec, typeref[1], names)
        # a complex type with simple content is derived (by extension) from its content's simple type
        return {'variety': 'sc', 'content': content, 'attrs': list(typeref[2]), 'chain': list(content['chain']),
                'user': True}
    if kind == 'scext':
        base = resolve(spec, typeref[1], names)
        return {'variety': 'sc', 'content': base['content'], 'attrs': base['attrs'] + list(typeref[2]),
                'chain': base['chain'], 'user': True}
    if kind == 'eo':
        return {'variety': 'eo', 'kids': typeref[1], 'attrs': typeref[2], 'chain': [], 'user': True}
    raise ValueError(typeref)


def simple_of(res: dict) -> dict | None:
    """the simple type carrying the typed value of a resolved type (None for element-only)"""
    if res['variety'] == 'sc':
        return res['content']
    if res['variety'] == 'eo':
        return None
    return res


def decl_at(spec, p) -> dict:
    d = spec['root']
    kids = d['kids']
    for i in p:
        d = kids[i]
        t = d['type']
        kids = t[1] if is_def(t) and t[0] == 'eo' else []
    return d


def decl_type(spec, decl):
    """TYPEREF/DEF of a declaration (root has an anonymous element-only type)"""
    if 'type' in decl:
        return decl['type']
    return ['eo', decl['kids'], decl['attrs']]


# --------------------------------------------------------------------------
# value generation for a resolved simple type
# --------------------------------------------------------------------------

@st.composite
def simple_value(draw, res: dict, tns_prefix: bool = False, pad: bool = True):
    """lexical form valid for the resolved simple type"""
    v = res['variety']
    if v == 'union':
        m = res['members'][draw(st.integers(0, len(res['members']) - 1))]
        return draw(simple_value(m, tns_prefix, pad))
    if v == 'list':
        lo, hi = 0, 4
        if res['facet'] is not None:
            lo = res['facet'][1] or 0
            hi = res['facet'][2] if res['facet'][2] is not None else max(lo, 4)
        n = draw(st.integers(lo, hi))
        items = [draw(simple_value(res['item'], tns_prefix, False)) for _ in range(n)]
        sep = draw(st.sampled_from([' ', ' ', '  ', '\n', ' \t ']))
        s = sep.join(items)
        if pad and items and draw(st.integers(0, 3)) == 0:
            s = ' ' + s + '\n'
        return s
    b, facet = res['builtin'], res['facet']
    ws = whitespace_of(b)
    if facet is None:
        s = draw(builtin_value(b, None, tns_prefix, res.get('xsd', '1.0')))
    elif facet[0] == 'enum':
        s = facet[1][draw(st.integers(0, len(facet[1]) - 1))]
    elif facet[0] == 'range':
        s = draw(builtin_value(b, (facet[1], facet[2]), tns_prefix, res.get('xsd', '1.0')))
    elif facet[0] == 'pattern':
        s = facet[2][draw(st.integers(0, len(facet[2]) - 1))]
    elif facet[0] == 'len':
        n = draw(st.integers(facet[1], facet[2] if facet[2] is not None else facet[1] + 3))
        alpha = 'abxyz' if ws == 'collapse' else 'ab c'
        s = ''.join(draw(st.sampled_from(alpha)) for _ in range(n))
    else:
        raise ValueError(facet)
    if pad and ws == 'collapse' and draw(st.integers(0, 3)) == 0:
        a, z = draw(st.sampled_from(_PADS))
        s = a + s + z
    return s


def list_item_ok(res: dict) -> bool:
    """can this resolved atomic type be a list item type in this generator (lexicals never empty / with spaces)"""
    if res['variety'] != 'atomic':
        return False
    return res['builtin'] not in STRING_FAMILY + ('anyURI', 'base64Binary', 'hexBinary', 'QName')


# --------------------------------------------------------------------------
# schema spec strategy
# --------------------------------------------------------------------------
ELEM_NAMES = ['a', 'b', 'c', 'd', 'e']
ATTR_NAMES = ['n', 'm', 'k', 'flag']


@st.composite
def _facet_for(draw, spec, base_res):
    """a FACET narrowing the resolved base (or None)"""
    v = base_res['variety']
    if v == 'union':
        return None
    if v == 'list':
        if base_res['facet'] is None and base_res.get('builtin') is None and draw(st.booleans()):
            lo = draw(st.integers(0, 2))
            return ['len', lo, max(1, lo + draw(st.integers(0, 2)))]
        return None
    b, f = base_res['builtin'], base_res['facet']
    if f is not None:
        k = draw(st.integers(0, 2))
        if k == 0:
            return None
        if f[0] == 'enum' and len(f[1]) > 1:
            n = draw(st.integers(1, len(f[1]) - 1))
            return ['enum', f[1][:n]]
        if f[0] == 'range' and f[2] - f[1] >= 2:
            lo = f[1] + draw(st.integers(0, 1))
            return ['range', lo, max(lo, f[2] - draw(st.integers(0, 1)))]
        if f[0] == 'len' and f[2] is not None and f[2] > max(f[1], 1):
            return ['len', f[1], f[2] - 1]
        return None
    kinds = ['none', 'enum', 'enum'] if b != 'boolean' else ['none']
    if b in INT_RANGE or b == 'decimal':
        kinds += ['range', 'range']
    if _pattern_table(b):
        kinds += ['pattern']
    if b in STRING_FAMILY:
        kinds += ['len']
    k = draw(st.sampled_from(kinds))
    if k == 'none':
        return None
    if k == 'enum':
        n = draw(st.integers(1, 4))
        vals = []
        for _ in range(n):
            s = draw(builtin_value(b, None, False, spec['xsd']))
            if b == 'QName':
                s = 'xs:int'
            if s == 'NaN':
                s = '1'
            if s not in vals:
                vals.append(s)
        return ['enum', vals]
    if k == 'range':
        nlo, nhi = INT_RANGE.get(b, (None, None))
        cands = [c for c in (-200, -5, 0, 1, 3, 10, 100) if (nlo is None or c >= nlo) and (nhi is None or c <= nhi)]
        lo = draw(st.sampled_from(cands))
        hi = lo + draw(st.sampled_from([0, 1, 5, 20, 100]))
        if nhi is not None:
            hi = min(hi, nhi)
        return ['range', lo, hi]
    if k == 'pattern':
        tab = _pattern_table(b)
        p, samples = tab[draw(st.integers(0, len(tab) - 1))]
        if b in NAME_FAMILY:
            samples = [x for x in samples if x]
        return ['pattern', p, list(samples)]
    lo = draw(st.integers(0, 3))
    return ['len', lo, max(1, lo + draw(st.integers(0, 3)))]


def _atomic_refs(spec, names):
    return [t['name'] for t in spec['types'] if resolve(spec, t['name'], names)['variety'] == 'atomic']


@st.composite
def _builtin_ref(draw, xsd):
    if draw(st.integers(0, 2)) == 0:
        return 'xs:' + draw(st.sampled_from(POOL_11 if xsd == '1.1' else POOL_10))
    return 'xs:' + draw(st.sampled_from(_WEIGHTED + ['dateTimeStamp', 'dateTimeStamp'] if xsd == '1.1' else _WEIGHTED))


@st.composite
def _simple_def(draw, spec, allow_union=True):
    """an anonymous or to-be-named simple type DEF over the types already in spec"""
    names = types_by_name(spec)
    k = draw(st.integers(0, 9))
    atom = _atomic_refs(spec, names)
    if k < 6:
        # restriction
        if atom and draw(st.integers(0, 2)) == 0:
            base = draw(st.sampled_from(atom))
        else:
            simple_named = [t['name'] for t in spec['types'] if t['def'][0] in ('list', 'union', 'restriction')]
            if simple_named and draw(st.integers(0, 5)) == 0:
                base = draw(st.sampled_from(simple_named))
            else:
                base = draw(_builtin_ref(spec['xsd']))
        res = resolve(spec, base, names)
        return ['restriction', base, draw(_facet_for(spec, res))]
    if k < 8 or not allow_union:
        cands = [r for r in atom if list_item_ok(resolve(spec, r, names))]
        for _ in range(3):
            b = draw(_builtin_ref(spec['xsd']))
            if list_item_ok(resolve(spec, b, names)):
                cands.append(b)
        if not cands:
            cands = ['xs:decimal']
        return ['list', draw(st.sampled_from(cands))]
    n = draw(st.integers(2, 3))
    members = []
    for _ in range(n):
        if atom and draw(st.booleans()):
            m = draw(st.sampled_from(atom))
        else:
            m = draw(_builtin_ref(spec['xsd']))
        if m == 'xs:QName':
            m = 'xs:int'
        if m not in members:
            members.append(m)
    if len(members) < 2:
        members.append('xs:string' if 'xs:string' not in members else 'xs:int')
    return ['union', members]


@st.composite
def _simple_typeref(draw, spec, anon_ok=True):
    """TYPEREF or anonymous simple DEF"""
    names = types_by_name(spec)
    simple_named = [t['name'] for t in spec['types'] if resolve(spec, t['name'], names)['variety'] in
                    ('atomic', 'list', 'union')]
    k = draw(st.integers(0, 9))
    if simple_named and k < 4:
        return draw(st.sampled_from(simple_named))
    if anon_ok and k < 6:
        return draw(_simple_def(spec))
    if k == 9:
        return 'xs:NMTOKENS'
    return draw(_builtin_ref(spec['xsd']))


@st.composite
def _attrs(draw, spec, taken=(), max_n=2):
    out = []
    n = draw(st.integers(0, max_n))
    pool = [a for a in ATTR_NAMES if a not in taken]
    for _ in range(n):
        if not pool:
            break
        name = pool.pop(draw(st.integers(0, len(pool) - 1)))
        t = draw(_simple_typeref(spec))
        res = resolve(spec, t)
        use = draw(st.sampled_from(['required', 'optional', 'optional']))
        a = {'name': name, 'type': t, 'use': use, 'default': None, 'fixed': None}
        if use == 'optional':
            k = draw(st.integers(0, 3))
            if k >= 2 and _qname_free(res):
                val = draw(simple_value(res, False, False))
                a['default' if k == 2 else 'fixed'] = val
        out.append(a)
    return out


def _qname_free(res) -> bool:
    """value constraints with QName need prefix bindings in the schema document: avoided"""
    if res['variety'] == 'atomic':
        return res['builtin'] != 'QName'
    if res['variety'] == 'list':
        return _qname_free(res['item'])
    if res['variety'] == 'union':
        return all(_qname_free(m) for m in res['members'])
    return True


@st.composite
def _decl(draw, spec, name, depth):
    names = types_by_name(spec)
    d = {'name': name, 'min': draw(st.sampled_from([1, 1, 1, 0])),
         'max': draw(st.sampled_from([1, 1, 2, 3, 'unbounded'])), 'nillable': False, 'default': None, 'fixed': None}
    k = draw(st.integers(0, 11))
    sc_named = [t['name'] for t in spec['types'] if t['def'][0] in ('sc', 'scext')]
    if k < 2 and depth < 3:
        d['type'] = draw(_eo(spec, depth + 1))
    elif k < 4:
        if sc_named and draw(st.integers(0, 3)) > 0:
            d['type'] = draw(st.sampled_from(sc_named))
        else:
            d['type'] = ['sc', draw(_simple_typeref(spec)), draw(_attrs(spec))]
    else:
        d['type'] = draw(_simple_typeref(spec))
    t = d['type']
    res = resolve(spec, t, names)
    if res['variety'] != 'eo':
        k = draw(st.integers(0, 9))
        sres = simple_of(res)
        if k == 0:
            d['nillable'] = True
        elif k in (1, 2) and _qname_free(sres):
            d['default'] = draw(simple_value(sres, False, False))
        elif k == 3 and _qname_free(sres):
            d['fixed'] = draw(simple_value(sres, False, False))
    elif draw(st.integers(0, 9)) == 0:
        d['nillable'] = True
    return d


@st.composite
def _eo(draw, spec, depth):
    n = draw(st.integers(1, 4 if depth <= 1 else 3))
    pool = list(ELEM_NAMES)
    kids = []
    for _ in range(n):
        name = pool.pop(draw(st.integers(0, len(pool) - 1)))
        kids.append(draw(_decl(spec, name, depth)))
    return ['eo', kids, draw(_attrs(spec, max_n=1))]


@st.composite
def schema_spec(draw):
    spec = {'xsd': draw(st.sampled_from(['1.0', '1.1'])), 'tns': draw(st.sampled_from([None, TNS, TNS])),
            'efd': draw(st.sampled_from(['qualified', 'qualified', 'unqualified'])), 'types': [], 'root': None}
    nt = draw(st.integers(0, 5))
    for i in range(nt):
        k = draw(st.integers(0, 9))
        sc_named = [t['name'] for t in spec['types'] if t['def'][0] in ('sc', 'scext')]
        if k < 6:
            d = draw(_simple_def(spec))
        elif k < 8 and sc_named:
            base = draw(st.sampled_from(sc_named))
            taken = [a['name'] for a in resolve(spec, base)['attrs']]
            d = ['scext', base, draw(_attrs(spec, taken=taken))]
        else:
            d = ['sc', draw(_simple_typeref(spec, anon_ok=False)), draw(_attrs(spec))]
        spec['types'].append({'name': f'T{i}', 'def': d})
    # derivation families that make xsi:type substitution possible (a declared named type with a named derived type)
    forced = None
    fam = draw(st.integers(0, 5))
    n = len(spec['types'])
    if fam == 0:
        base = draw(_simple_typeref(spec, anon_ok=False))
        a1 = draw(_attrs(spec))
        spec['types'].append({'name': f'T{n}', 'def': ['sc', base, a1]})
        a2 = draw(_attrs(spec, taken=[a['name'] for a in a1]))
        spec['types'].append({'name': f'T{n + 1}', 'def': ['scext', f'T{n}', a2]})
        forced = f'T{n}'
    elif fam == 1:
        base = draw(_builtin_ref(spec['xsd']))
        f1 = draw(_facet_for(spec, resolve(spec, base)))
        spec['types'].append({'name': f'T{n}', 'def': ['restriction', base, f1]})
        f2 = draw(_facet_for(spec, resolve(spec, f'T{n}')))
        spec['types'].append({'name': f'T{n + 1}', 'def': ['restriction', f'T{n}', f2]})
        forced = f'T{n}'
    elif fam in (2, 3):
        # a declaration over the date/time built-ins (the datatype class depends on the XSD version)
        pool = [t for t in DATE_TIME_TYPES if t != 'dateTimeStamp' or spec['xsd'] == '1.1']
        b = 'xs:' + draw(st.sampled_from(pool))
        k = draw(st.integers(0, 5))
        if k < 3:
            forced = b
        elif k == 3:
            forced = ['restriction', b, draw(_facet_for(spec, resolve(spec, b)))]
        elif k == 4:
            forced = ['list', b]
        else:
            forced = ['union', [b, 'xs:' + draw(st.sampled_from([t for t in pool if 'xs:' + t != b]))]]
    eo = draw(_eo(spec, 1))
    if forced is not None:
        k = eo[1][draw(st.integers(0, len(eo[1]) - 1))]
        k.update({'type': forced, 'nillable': draw(st.integers(0, 5)) == 0, 'default': None, 'fixed': None})
    spec['root'] = {'name': 'root', 'kids': eo[1], 'attrs': eo[2]}
    return spec


# --------------------------------------------------------------------------
# rendering to XSD text
# --------------------------------------------------------------------------

def _esc(s: str) -> str:
    return (s.replace('&', '&amp;').replace('<', '&lt;').replace('"', '&quot;').replace('\t', '&#9;')
            .replace('\n', '&#10;').replace('\r', '&#13;'))


def _ref(spec, t: str) -> str:
    if t.startswith('xs:'):
        return t
    return ('t:' if spec['tns'] else '') + t


def _render_facet(b, facet) -> str:
    if facet is None:
        return ''
    if facet[0] == 'enum':
        return ''.join(f'<xs:enumeration value="{_esc(v)}"/>' for v in facet[1])
    if facet[0] == 'range':
        return f'<xs:minInclusive value="{facet[1]}"/><xs:maxInclusive value="{facet[2]}"/>'
    if facet[0] == 'pattern':
        return f'<xs:pattern value="{_esc(facet[1])}"/>'
    if facet[0] == 'len':
        if facet[2] is not None and facet[1] == facet[2]:
            return f'<xs:length value="{facet[1]}"/>'
        return f'<xs:minLength value="{facet[1]}"/>' + \
            (f'<xs:maxLength value="{facet[2]}"/>' if facet[2] is not None else '')
    raise ValueError(facet)


def _render_simple(spec, d, name=None) -> str:
    nm = f' name="{name}"' if name else ''
    if d[0] == 'restriction':
        return f'<xs:simpleType{nm}><xs:restriction base="{_ref(spec, d[1])}">{_render_facet(None, d[2])}' \
               f'</xs:restriction></xs:simpleType>'
    if d[0] == 'list':
        return f'<xs:simpleType{nm}><xs:list itemType="{_ref(spec, d[1])}"/></xs:simpleType>'
    if d[0] == 'union':
        return f'<xs:simpleType{nm}><xs:union memberTypes="{" ".join(_ref(spec, m) for m in d[1])}"/></xs:simpleType>'
    raise ValueError(d)


def _render_attr(spec, a) -> str:
    s = f'<xs:attribute name="{a["name"]}"'
    if isinstance(a['type'], str):
        s += f' type="{_ref(spec, a["type"])}"'
    if a['use'] == 'required':
        s += ' use="required"'
    if a['default'] is not None:
        s += f' default="{_esc(a["default"])}"'
    if a['fixed'] is not None:
        s += f' fixed="{_esc(a["fixed"])}"'
    if isinstance(a['type'], str):
        return s + '/>'
    return s + '>' + _render_simple(spec, a['type']) + '</xs:attribute>'


def _render_complex(spec, d, name=None) -> str:
    nm = f' name="{name}"' if name else ''
    if d[0] in ('sc', 'scext'):
        attrs = ''.join(_render_attr(spec, a) for a in d[2])
        if d[0] == 'sc' and not isinstance(d[1], str):
            # an anonymous simple type cannot be the base of an extension: restriction of anySimpleType is not
            # allowed either, so anonymous bases get a generated global helper type (see render_xsd)
            raise ValueError('anonymous base must be lifted')
        return f'<xs:complexType{nm}><xs:simpleContent><xs:extension base="{_ref(spec, d[1])}">{attrs}' \
               f'</xs:extension></xs:simpleContent></xs:complexType>'
    if d[0] == 'eo':
        kids = ''.join(_render_decl(spec, k) for k in d[1])
        attrs = ''.join(_render_attr(spec, a) for a in d[2])
        return f'<xs:complexType{nm}><xs:sequence>{kids}</xs:sequence>{attrs}</xs:complexType>'
    raise ValueError(d)


def _render_decl(spec, d, top=False) -> str:
    s = f'<xs:element name="{d["name"]}"'
    t = decl_type(spec, d)
    if isinstance(t, str):
        s += f' type="{_ref(spec, t)}"'
    if not top:
        if d['min'] != 1:
            s += f' minOccurs="{d["min"]}"'
        if d['max'] != 1:
            s += f' maxOccurs="{d["max"]}"'
    if d.get('nillable'):
        s += ' nillable="true"'
    if d.get('default') is not None:
        s += f' default="{_esc(d["default"])}"'
    if d.get('fixed') is not None:
        s += f' fixed="{_esc(d["fixed"])}"'
    if isinstance(t, str):
        return s + '/>'
    if t[0] in ('sc', 'scext', 'eo'):
        return s + '>' + _render_complex(spec, t) + '</xs:element>'
    return s + '>' + _render_simple(spec, t) + '</xs:element>'


def lift_anonymous_sc_bases(spec) -> dict:
    """Return an equivalent spec in which every ['sc', <anonymous simple DEF>, attrs] has a named global base.

    (xs:extension needs a QName base.) The helper types are named L0, L1, ... and placed first; type resolution of
    all other components is unchanged because ['sc', 'Lk', attrs] resolves to the same content type, with one more
    (helper) name in the content's chain that is never used for `instance of` tests of the complex type.
    """
    import copy
    spec = copy.deepcopy(spec)
    lifted = []

    def fix_def(d):
        if not is_def(d):
            return d
        if d[0] == 'sc' and is_def(d[1]):
            name = f'L{len(lifted)}'
            lifted.append({'name': name, 'def': d[1]})
            d[1] = name
        elif d[0] == 'eo':
            for k in d[1]:
                k['type'] = fix_def(k['type'])
        return d

    for t in spec['types']:
        t['def'] = fix_def(t['def'])
    for k in spec['root']['kids']:
        k['type'] = fix_def(k['type'])
    # helpers may refer to named types: put them after the named types they use -> simply append; XSD allows
    # forward references between global components
    spec['types'] = spec['types'] + lifted
    return spec


def render_xsd(spec) -> str:
    spec = lift_anonymous_sc_bases(spec)
    head = f'<xs:schema xmlns:xs="{XS}"'
    if spec['tns']:
        head += f' xmlns:t="{spec["tns"]}" targetNamespace="{spec["tns"]}" elementFormDefault="{spec["efd"]}"'
    head += '>'
    body = []
    for t in spec['types']:
        d = t['def']
        body.append(_render_complex(spec, d, t['name']) if d[0] in ('sc', 'scext') else _render_simple(spec, d, t['name']))
    body.append(_render_decl(spec, spec['root'], top=True))
    return head + ''.join(body) + '</xs:schema>'


# --------------------------------------------------------------------------
# instance generation (valid by construction)
# --------------------------------------------------------------------------

def derived_candidates(spec, t) -> list[str]:
    """named or built-in types validly usable as xsi:type where `t` (a TYPEREF) is declared"""
    if not isinstance(t, str):
        return []
    names = types_by_name(spec)
    out = []
    for nt in spec['types']:
        if nt['name'] == t:
            continue
        d = nt['def']
        # walk the restriction/scext base chain
        cur, seen = d, 0
        while is_def(cur) and cur[0] in ('restriction', 'scext') and seen < 10:
            if cur[1] == t:
                out.append(nt['name'])
                break
            if isinstance(cur[1], str) and cur[1].startswith('xs:'):
                if t.startswith('xs:') and t[3:] in builtin_chain(cur[1][3:]) and cur[0] == 'restriction' \
                        and cur[1][3:] != 'NMTOKENS':
                    out.append(nt['name'])
                break
            cur = names.get(cur[1]) if isinstance(cur[1], str) else None
            seen += 1
    if t.startswith('xs:'):
        pool = POOL_11 if spec['xsd'] == '1.1' else POOL_10
        for b in pool:
            if b != t[3:] and t[3:] in builtin_chain(b) and b != 'QName':
                out.append('xs:' + b)
    return out


@st.composite
def _attr_values(draw, spec, attrs, tns_prefix):
    out = []
    for a in attrs:
        present = a['use'] == 'required' or draw(st.booleans())
        if not present:
            continue
        if a['fixed'] is not None:
            out.append([a['name'], a['fixed']])
        else:
            out.append([a['name'], draw(simple_value(resolve(spec, a['type']), tns_prefix))])
    return out


@st.composite
def _node(draw, spec, decl, p):
    node = {'p': list(p), 'text': None, 'attrs': [], 'nil': False, 'xsi': None, 'kids': []}
    t = decl_type(spec, decl)
    tns_prefix = bool(spec['tns'])
    cands = derived_candidates(spec, t) if p and decl.get('default') is None and decl.get('fixed') is None else []
    if cands and isinstance(t, str):
        dres = resolve(spec, t)
        if dres['variety'] == 'atomic' and dres['builtin'] == 'string':
            # keep whitespace handling of xs:string declarations (value predicates compare strings)
            cands = [c for c in cands if resolve(spec, c)['builtin'] == 'string']
    if cands and draw(st.integers(0, 4 if t.startswith('xs:') else 2)) == 0:
        node['xsi'] = t = cands[draw(st.integers(0, len(cands) - 1))]
    res = resolve(spec, t)
    if res['variety'] in ('sc', 'eo'):
        node['attrs'] = draw(_attr_values(spec, res['attrs'], tns_prefix))
    if decl.get('nillable') and draw(st.integers(0, 2)) == 0:
        # every lexical form of xs:boolean true nils the element; True stands for the spelling 'true'
        node['nil'] = draw(st.sampled_from([True, True, '1', '1', '1', ' true ', '1 ', '\n1']))
        return node
    if decl.get('nillable') and draw(st.integers(0, 3)) == 0:
        node['nilattr'] = draw(st.sampled_from(['false', '0', ' 0 ']))      # explicit xsi:nil="false": not nilled
    if res['variety'] == 'eo':
        for i, k in enumerate(res['kids']):
            hi = 3 if k['max'] == 'unbounded' else min(k['max'], 3)
            n = draw(st.integers(min(k['min'], hi), hi))
            for _ in range(n):
                node['kids'].append(draw(_node(spec, k, list(p) + [i])))
        return node
    sres = simple_of(res)
    if decl.get('fixed') is not None:
        node['text'] = None if draw(st.booleans()) else decl['fixed']
    elif decl.get('default') is not None and draw(st.integers(0, 2)) == 0:
        node['text'] = None
    else:
        s = draw(simple_value(sres, tns_prefix))
        node['text'] = s if (s != '' or draw(st.booleans())) else None
    return node


def instance(spec):
    return _node(spec, spec['root'], [])


# --------------------------------------------------------------------------
# path generation (restricted to the schema's names)
# --------------------------------------------------------------------------

def _walk_decls(spec):
    """yield (path, decl) for every element declaration (root included)"""
    stack = [([], spec['root'])]
    while stack:
        p, d = stack.pop()
        yield p, d
        t = decl_type(spec, d)
        if is_def(t) and t[0] == 'eo':
            for i, k in enumerate(t[1]):
                stack.append((p + [i], k))


def _value_class(spec, t, nillable) -> str:
    """'int'/'decimal'/'double'/'float'/'boolean'/'date'/'string' when typed and untyped comparison with a literal
    of that class provably agree, else 'unsafe'"""
    if nillable:
        return 'unsafe'
    res = simple_of(resolve(spec, t))
    if res is None or res['variety'] != 'atomic':
        return 'unsafe'
    fam = family_of(res['builtin'])
    if fam == 'other':
        return 'unsafe'
    if fam in ('int', 'decimal', 'double', 'float'):
        return 'num'
    return fam


def name_tables(spec):
    """(element name -> value class, attribute name -> value class, element names used, attribute names used)"""
    ev, av = {}, {}

    def put(tab, name, cls):
        tab[name] = cls if tab.get(name, cls) == cls else 'unsafe'

    def attrs_of(t):
        r = resolve(spec, t)
        return r['attrs'] if r['variety'] in ('sc', 'eo') else []

    all_types = [t['name'] for t in spec['types']]
    for p, d in _walk_decls(spec):
        t = decl_type(spec, d)
        # an xsi:type substitution keeps the family (derived types), but sc extensions add attributes
        put(ev, d['name'], _value_class(spec, t, d.get('nillable')))
        for a in attrs_of(t):
            put(av, a['name'], _value_class(spec, a['type'], False))
    for tn in all_types:
        for a in attrs_of(tn):
            put(av, a['name'], _value_class(spec, a['type'], False))
    return ev, av


_NUM_LITS = ['0', '1', '2', '3', '5', '7', '10', '42', '100', '127', '-1', '255']
_STR_LITS = ["'a'", "'ab'", "''", "'zz'", "'A1'", "'1'", "'b'"]
_DATE_LITS = ["xs:date('2000-01-01')", "xs:date('1999-12-31')", "xs:date('2024-02-29')"]


@st.composite
def _literal(draw, cls):
    if cls == 'num':
        return draw(st.sampled_from(_NUM_LITS)), draw(st.sampled_from(['=', '!=', '<', '>', '<=', '>=']))
    if cls == 'string':
        return draw(st.sampled_from(_STR_LITS)), draw(st.sampled_from(['=', '!=']))
    if cls == 'boolean':
        return draw(st.sampled_from(['true()', 'false()'])), '='
    if cls == 'date':
        return draw(st.sampled_from(_DATE_LITS)), draw(st.sampled_from(['=', '<', '>']))
    raise ValueError(cls)


_ATTR_CONTEXT_SHAPES = [
    '{base}/@{a}/self::*', '{base}/@*/self::*', '//@*/self::*', '//@{a}/self::*', '//@{a}/ancestor-or-self::*',
    '//@*/ancestor-or-self::*', '{base}/({at} | {e})/self::*', '{base}/({e} | {at})/self::{e}', '{base}/@*[self::*]',
    '{base}/@{a}[self::*]', '{base}/{e}[@{a}/self::*]', '{base}[@*/self::*]', '//*[@{a}/self::*]', '//@*/parent::*',
    '//@{a}/parent::{e}', '//@*/..//*', '{base}/@{a}/..//*', '{base}/@{a}/descendant-or-self::*',
    '//@*/descendant-or-self::*', '{base}/@{a}/following::*', '{base}/@*/ancestor::*', '//@{a}/self::{e}',
    '{base}/@*/self::node()', '{base}/@{a}/descendant::*', '{base}/@*/preceding::*', '//@*/self::*/..',
    '{base}/({at} | {e})/ancestor-or-self::*', '//{e}[@*[self::*]]', '{base}/@{a}/child::*',
]


@st.composite
def _attr_context_path(draw, spec, q):
    """paths whose '*' / name test runs on a non-attribute axis while the context item is an attribute node
    (self::* never selects an attribute: the principal node kind of the self axis is element)"""
    cur = spec['root']
    base = '/' + q('root', True)
    for _ in range(draw(st.integers(0, 2))):
        t = decl_type(spec, cur)
        res = resolve(spec, t)
        if res['variety'] != 'eo' or not res['kids']:
            break
        cur = res['kids'][draw(st.integers(0, len(res['kids']) - 1))]
        base += '/' + q(cur['name'])
    res = resolve(spec, decl_type(spec, cur))
    attrs = [a['name'] for a in res['attrs']] if res['variety'] in ('eo', 'sc') else []
    kids = [d['name'] for d in res['kids']] if res['variety'] == 'eo' else []
    a = draw(st.sampled_from(attrs)) if attrs and draw(st.integers(0, 3)) > 0 else draw(st.sampled_from(ATTR_NAMES))
    e = q(draw(st.sampled_from(kids)) if kids and draw(st.integers(0, 3)) > 0 else draw(st.sampled_from(ELEM_NAMES)))
    at = '@' + a if draw(st.booleans()) else '@*'
    shape = draw(st.sampled_from(_ATTR_CONTEXT_SHAPES))
    feats = {'attr-context', 'attr-step'}
    if shape.startswith('//') or '//' in shape[1:]:
        feats.add('descendant')
    if 'parent::' in shape or '/..' in shape:
        feats.add('parent')
    return [shape.format(base=base, a=a, e=e, at=at), sorted(feats)]


@st.composite
def path_expr(draw, spec):
    """(path string, feature list). Names are prefixed according to the schema's namespace settings."""
    ev, av = name_tables(spec)
    qual_kids = bool(spec['tns']) and spec['efd'] == 'qualified'

    def q(name, is_root=False):
        if spec['tns'] and (is_root or qual_kids):
            return 't:' + name
        return name

    feats = set()

    def pred(cur_kids, self_name, cur_attrs):
        k = draw(st.integers(0, 14))
        if k > 11:
            k -= 4      # 12, 13, 14 -> 8, 9, 10: the value-predicate forms
        kid_names = [d['name'] for d in cur_kids] if cur_kids else ELEM_NAMES
        if k == 0:
            feats.add('positional')
            return f'[{draw(st.integers(1, 3))}]'
        if k == 1:
            feats.add('positional')
            return '[last()]'
        if k == 2:
            feats.add('positional')
            return f'[position() {draw(st.sampled_from(["<", ">", "!="]))} {draw(st.integers(1, 3))}]'
        if k == 3:
            return f'[{q(draw(st.sampled_from(kid_names)))}]'
        if k == 4:
            feats.add('attr-pred')
            return f'[@{draw(st.sampled_from(cur_attrs or ATTR_NAMES))}]'
        if k == 5:
            feats.add('attr-pred')
            return f'[not(@{draw(st.sampled_from(cur_attrs or ATTR_NAMES))})]'
        if k == 6:
            return f'[count({q(draw(st.sampled_from(kid_names)))}) {draw(st.sampled_from(["=", ">"]))} {draw(st.integers(0, 2))}]'
        if k in (7, 8):
            cands = [n for n in kid_names if ev.get(n, 'unsafe') != 'unsafe']
            if cands:
                n = draw(st.sampled_from(cands))
                lit, op = draw(_literal(ev[n]))
                feats.add('value-pred')
                return f'[{q(n)} {op} {lit}]'
        if k in (9, 10):
            cands = [n for n in (cur_attrs or ATTR_NAMES) if av.get(n, 'unsafe') != 'unsafe']
            if cands:
                n = draw(st.sampled_from(cands))
                lit, op = draw(_literal(av[n]))
                feats.add('value-pred')
                feats.add('attr-pred')
                return f'[@{n} {op} {lit}]'
        if k == 11 and self_name and ev.get(self_name, 'unsafe') != 'unsafe':
            lit, op = draw(_literal(ev[self_name]))
            feats.add('value-pred')
            return f'[. {op} {lit}]'
        return ''

    if draw(st.integers(0, 5)) == 0:
        return draw(_attr_context_path(spec, q))
    # structure-guided walk
    cur = spec['root']          # current declaration or None when unknown
    k0 = draw(st.integers(0, 9))
    if k0 < 6:
        s = '/' + q('root', True)
    elif k0 < 8:
        n = draw(st.sampled_from(ELEM_NAMES))
        s = '//' + q(n)
        feats.add('descendant')
        cands = [d for p, d in _walk_decls(spec) if d['name'] == n]
        cur = cands[draw(st.integers(0, len(cands) - 1))] if cands else None
    else:
        s = '//*'
        feats.add('descendant')
        cur = None
    nsteps = draw(st.integers(0, 4))
    ended = False
    for _ in range(nsteps):
        if ended:
            break
        t = decl_type(spec, cur) if cur is not None else None
        res = resolve(spec, t) if t is not None else None
        kids = res['kids'] if res is not None and res['variety'] == 'eo' else []
        attrs = [a['name'] for a in res['attrs']] if res is not None and res['variety'] in ('eo', 'sc') else []
        if draw(st.integers(0, 2)) == 0:
            s += pred(kids, cur['name'] if cur is not None else None, attrs)
        k = draw(st.integers(0, 15))
        if k < 6:
            if kids and draw(st.integers(0, 4)) > 0:
                cur = kids[draw(st.integers(0, len(kids) - 1))]
                s += '/' + q(cur['name'])
            else:
                s += '/' + q(draw(st.sampled_from(ELEM_NAMES)))
                cur = None
        elif k == 6:
            s += '/*'
            cur = kids[draw(st.integers(0, len(kids) - 1))] if kids else None
            if cur is not None and len(kids) > 1:
                cur = None
        elif k == 7:
            n = draw(st.sampled_from(ELEM_NAMES))
            s += '//' + q(n)
            feats.add('descendant')
            cur = None
        elif k == 8:
            n = draw(st.sampled_from(ELEM_NAMES))
            s += f'/descendant::{q(n)}'
            feats.add('descendant')
            cur = None
        elif k == 9:
            s += draw(st.sampled_from(['/..', '/parent::*', f'/parent::{q(draw(st.sampled_from(ELEM_NAMES + ["root"])), False)}']))
            feats.add('parent')
            cur = None
        elif k in (10, 11):
            a = draw(st.sampled_from(attrs or ATTR_NAMES))
            s += '/@' + a
            feats.add('attr-step')
            if draw(st.integers(0, 2)) == 0:
                s += '/..'
                feats.add('parent')
                cur = None
            else:
                ended = True
        elif k == 12:
            s += '/@*'
            feats.add('attr-step')
            ended = True
        elif k == 13:
            s += '/' + draw(st.sampled_from(['text()', 'node()']))
            feats.add('text-step')
            ended = True
        elif k == 14:
            s += f'/self::{q(draw(st.sampled_from(ELEM_NAMES)))}'
            cur = None
        else:
            s += '/descendant-or-self::*'
            feats.add('descendant')
            cur = None
    if not ended and draw(st.integers(0, 1)) == 0:
        t = decl_type(spec, cur) if cur is not None else None
        res = resolve(spec, t) if t is not None else None
        kids = res['kids'] if res is not None and res['variety'] == 'eo' else []
        attrs = [a['name'] for a in res['attrs']] if res is not None and res['variety'] in ('eo', 'sc') else []
        s += pred(kids, cur['name'] if cur is not None else None, attrs)
    return [s, sorted(feats)]


_TWIN_BASES = ['xs:int', 'xs:string', 'xs:date', 'xs:boolean', 'xs:gYearMonth', 'xs:decimal', 'xs:double', 'xs:token',
               'xs:unsignedByte', 'xs:time']


@st.composite
def twin_spec(draw, spec):
    """A second schema (same target namespace, same XSD version) whose named simple types REUSE the names of `spec`
    with a base type of another primitive family: {ns}T0 restricts xs:int in one and xs:date in the other."""
    own = types_by_name(spec)
    names = [t['name'] for t in spec['types'] if t['def'][0] in ('restriction', 'list', 'union')][:3] or ['T0']
    tw = {'xsd': spec['xsd'], 'tns': spec['tns'], 'efd': spec['efd'], 'types': [], 'root': None}
    for name in names:
        old_prim = None
        if name in own:
            r = resolve(spec, name)
            r = r['item'] if r['variety'] == 'list' else r
            old_prim = builtin_primitive(r['builtin']) if r['variety'] == 'atomic' else None
        cands = [b for b in _TWIN_BASES if builtin_primitive(b[3:]) != old_prim]
        base = draw(st.sampled_from(cands))
        facet = draw(_facet_for(tw, resolve(tw, base))) if draw(st.booleans()) else None
        tw['types'].append({'name': name, 'def': ['restriction', base, facet]})
    kids = []
    for i, name in enumerate(names):
        t = name if draw(st.integers(0, 3)) > 0 else ['list', name] if list_item_ok(resolve(tw, name)) else name
        kids.append({'name': ELEM_NAMES[i], 'type': t, 'min': 1, 'max': draw(st.sampled_from([1, 2])), 'nillable': False,
                     'default': None, 'fixed': None})
    tw['root'] = {'name': 'root', 'kids': kids,
                  'attrs': [{'name': 'n', 'type': names[0], 'use': 'required', 'default': None, 'fixed': None}]}
    return tw


@st.composite
def case(draw, n_instances=3, n_paths=16):
    spec = draw(schema_spec())
    insts = [draw(instance(spec)) for _ in range(n_instances)]
    paths = [draw(path_expr(spec)) for _ in range(n_paths)]
    # lxml documents also with a comment / processing instruction before and/or after the document element
    # (ElementTree cannot hold them); 'lxml-sib' = the lxml element itself, with such siblings, is handed over
    tree = draw(st.sampled_from(['et', 'et-doc', 'lxml', 'lxml-doc', 'lxml-before-doc', 'lxml-after-doc',
                                 'lxml-both-doc', 'lxml-sib']))
    tw = draw(twin_spec(spec))
    return {'spec': spec, 'instances': insts, 'paths': paths, 'tree': tree,
            'twin': {'spec': tw, 'instances': [draw(instance(tw))]}}
