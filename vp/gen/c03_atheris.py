"""Optional coverage-guided sub-check of C03 (thorough tier): atheris/libFuzzer in a child process.

Degrades to a note when atheris is not importable.  Setup (offline):
  /venv/bin/pip install --no-index --find-links /opt/veriftools/wheels --target /verif/.deps atheris

The child never lets an escape stop libFuzzer: it records (bucket -> first inputs) and goes on; the parent re-judges
every recorded input with the pure judge of c03 (so that buckets, known findings and replay work as for the other
sub-checks).  Budget = number of runs, never time.
"""
from __future__ import annotations

import json
import os
import subprocess
import sys
import tempfile

_CHILD = r'''
import sys, json, os, traceback
repo, deps, out_path, runs, seed, dict_path = sys.argv[1:7]
sys.path.insert(0, repo)
if deps and os.path.isdir(deps):
    sys.path.append(deps)
import atheris
with atheris.instrument_imports(include=['elementpath']):
    import elementpath
    from elementpath import XPath1Parser, XPath2Parser, XPathContext
    from elementpath.xpath30 import XPath30Parser
    from elementpath.xpath31 import XPath31Parser
from elementpath.exceptions import ElementPathError
from xml.etree import ElementTree as ET
CLS = [XPath1Parser, XPath2Parser, XPath30Parser, XPath31Parser]
VERS = ['1.0', '2.0', '3.0', '3.1']
root = ET.XML('<r a="1"><a x="1">1</a><b>2<c/>u</b><a>3</a></r>')
found = {}
count = [0]

def site(exc):
    tb = traceback.extract_tb(exc.__traceback__)
    for fr in reversed(tb):
        fn = fr.filename.replace('\\', '/')
        if '/elementpath/' in fn:
            return fn.split('/elementpath/', 1)[1] + ':' + fr.name
    return 'outside'

def depth(s):
    d = best = 0
    for ch in s:
        if ch in '([{': d += 1; best = max(best, d)
        elif ch in ')]}': d = max(0, d - 1)
    return best

def one(data):
    count[0] += 1
    if count[0] % 1000 == 0:
        dump()          # libFuzzer leaves through _exit: keep the result file current
    n_before = sum(len(v) for v in found.values())
    try:
        _one(data)
    finally:
        if sum(len(v) for v in found.values()) != n_before:
            dump()


def _one(data):
    fdp = atheris.FuzzedDataProvider(data)
    k = fdp.ConsumeIntInRange(0, 3)
    s = fdp.ConsumeUnicodeNoSurrogates(120)
    # keep honest expressions small: no long digit runs
    import re
    if re.search(r'\d{4,}', s):
        return
    try:
        p = CLS[k](namespaces={'p': 'urn:p'})
        t = p.parse(s)
        t.evaluate(XPathContext(root, variables={'v': 1, 'w': 'two', 's': [1, 2, 3]}))
    except ElementPathError:
        pass
    except MemoryError:
        pass
    except RecursionError as e:
        if depth(s) + s.count('-') + s.count('/') <= 30:
            key = 'RecursionError@' + site(e)
            found.setdefault(key, [])
            if len(found[key]) < 3:
                found[key].append([VERS[k], s])
    except Exception as e:
        key = type(e).__name__ + '@' + site(e)
        found.setdefault(key, [])
        if len(found[key]) < 3:
            found[key].append([VERS[k], s])

def dump():
    tmp = out_path + '.tmp'
    json.dump({'runs': count[0], 'found': found}, open(tmp, 'w'))
    os.replace(tmp, out_path)
args = [sys.argv[0], '-runs=' + runs, '-seed=' + seed, '-max_len=160', '-timeout=60', '-rss_limit_mb=3000', '-print_final_stats=0',
        '-verbosity=0']
if dict_path:
    args.append('-dict=' + dict_path)
atheris.Setup(args, one)
atheris.Fuzz()
'''

DICT = ['and', 'or', 'div', 'mod', 'idiv', 'to', 'eq', 'ne', 'lt', 'le', 'gt', 'ge', 'is', 'union', 'intersect', 'except',
        'instance of', 'treat as', 'cast as', 'castable as', 'if (', ') then ', ' else ', 'for $x in ', ' return ', 'some $x in ',
        'every $x in ', ' satisfies ', 'let $x := ', '//', '/', '..', '::', ':=', '=>', '||', '!', '?', '#1', 'Q{u}', '(:', ':)',
        'map{', 'array{', '[1]', '()', '$v', '$s', '@a', 'text()', 'node()', 'element()', 'item()', 'empty-sequence()',
        'xs:integer', 'xs:QName(', 'xs:date(', 'function($x){', 'abs(', 'count(', 'concat(', 'string-join(', 'sum(', 'sort(',
        'for-each(', 'fold-left(', 'map:merge(', 'array:join(', 'format-number(', 'replace(', 'tokenize(', 'deep-equal(',
        'ancestor::', 'child::', 'attribute::', 'following-sibling::', 'preceding::', 'self::', "'a'", '"b"', '1e0', '1.5', '<<', '>>',
        '!=', '<=', '>=', ' | ', ',', '*', '-', '+', '=']


def available(deps):
    code = 'import sys\n' + (f'sys.path.append({deps!r})\n' if deps else '') + 'import atheris\n'
    p = subprocess.run([sys.executable, '-c', code], capture_output=True, text=True)
    return p.returncode == 0


def run(job, rec):
    import elementpath
    from vp.checks import c03
    repo = os.path.dirname(os.path.dirname(os.path.abspath(elementpath.__file__)))
    here = os.path.dirname(os.path.dirname(os.path.dirname(os.path.abspath(__file__))))  # /verif
    deps = os.path.join(here, '.deps')
    if not available(deps):
        rec.notes.append('atheris not installed: coverage-guided sub-check skipped (setup: /venv/bin/pip install --no-index '
                         '--find-links /opt/veriftools/wheels --target /verif/.deps atheris)')
        rec.cls('atheris:skipped')
        return
    with tempfile.TemporaryDirectory() as d:
        out = os.path.join(d, 'out.json')
        dpath = os.path.join(d, 'dict.txt')
        with open(dpath, 'w') as f:
            for w in DICT:
                f.write('"' + w.replace('\\', '\\\\').replace('"', '\\"') + '"\n')
        env = {'PYTHONHASHSEED': '0', 'PYTHONDONTWRITEBYTECODE': '1', 'PATH': os.environ.get('PATH', '/usr/bin:/bin'), 'LC_ALL': 'C'}
        p = subprocess.run([sys.executable, '-c', _CHILD, repo, deps, out, str(job['runs']), str(job['seed']), dpath],
                           capture_output=True, text=True, env=env, cwd=d, timeout=3000)
        if not os.path.exists(out):
            rec.notes.append('atheris child produced no result: ' + (p.stderr or p.stdout)[-300:])
            rec.cls('atheris:failed')
            return
        res = json.load(open(out))
    rec.cls('atheris:runs', res['runs'])
    rec.extra['atheris_runs'] = res['runs']
    for key, items in sorted(res['found'].items()):
        for ver, s in items:
            case = {'ver': ver, 'items': [{'s': s, 'ctx': 'root', 'api': 'evaluate'}]}
            rec.discs_of('atheris', case, c03.judge_batch(case, rec, 'atheris'))
