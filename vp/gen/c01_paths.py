"""Path AST strategy for C01 (AST format: see vp.ref.xdm).  XPath 1.0 grammar only, so that the same text is
valid for the 1.0/2.0/3.0/3.1 parsers and for libxml2."""
from __future__ import annotations

from hypothesis import strategies as st

from vp.gen import xml as gx

# weights: compositions the repository's tests never have (reverse axes, following/preceding, siblings) are common
_AXES = (['child'] * 30 + ['descendant'] * 8 + ['descendant-or-self'] * 4 + ['parent'] * 6 + ['ancestor'] * 5 +
         ['ancestor-or-self'] * 3 + ['following'] * 7 + ['preceding'] * 7 + ['following-sibling'] * 8 +
         ['preceding-sibling'] * 8 + ['self'] * 4 + ['attribute'] * 7 + ['namespace'] * 5)
_axis = st.sampled_from(_AXES)

_elem_name = st.tuples(st.just('name'), st.sampled_from([None, None, None, None, 'p', 'q', 'r']), st.sampled_from(gx.ELEM_LOCALS)).map(list)
_attr_name = st.tuples(st.just('name'), st.sampled_from([None, None, 'p', 'q', 'r', 'xml']), st.sampled_from(gx.ATTR_LOCALS)).map(list)
_ns_name = st.tuples(st.just('name'), st.none(), st.sampled_from(['p', 'q', 's', 'r', 'xml'])).map(list)
_pi = st.tuples(st.just('pi'), st.sampled_from([None, 'x', 'y', 'pi', 'xml-stylesheet'])).map(list)

_any, _node = st.just(['any']), st.just(['node'])
# namespace wildcards p:* q:* r:* are frequent on every axis: urn:p is a proper string prefix of urn:pp (prefix r)
_nsany = st.sampled_from([['nsany', 'p'], ['nsany', 'p'], ['nsany', 'r'], ['nsany', 'r'], ['nsany', 'q']])
_nsany_attr = st.sampled_from([['nsany', 'p'], ['nsany', 'p'], ['nsany', 'r'], ['nsany', 'r'], ['nsany', 'q'], ['nsany', 'xml']])
_TEST_ELEM = st.one_of(_elem_name, _elem_name, _elem_name, _elem_name, _any, _any, _any, _any, _node, _node, _node, _node,
                       _nsany, _nsany, _nsany, st.just(['text']), st.just(['text']), st.just(['comment']), _pi)
_TEST_ATTR = st.one_of(_attr_name, _attr_name, st.just(['any']), st.just(['any']), st.just(['node']),
                       _nsany_attr, _nsany_attr, st.just(['text']))
_TEST_NS = st.one_of(_ns_name, st.just(['any']), st.just(['any']), st.just(['node']), st.just(['comment']))

_LITERALS = ('t', '1', 'x y', 'v', ' ', '', 'tt', 'd')
_OPS = ('=', '!=', '<', '>', '<=', '>=')


_LOOSE_ELEM = st.one_of(_any, _any, _any, _node, _node, _node, _node, _nsany,
                        st.tuples(st.just('name'), st.none(), st.sampled_from(gx.ELEM_LOCALS)).map(list),
                        st.tuples(st.just('name'), st.none(), st.sampled_from(gx.ELEM_LOCALS)).map(list), st.just(['text']))
_LOOSE_ATTR = st.one_of(_any, _any, _node, _nsany_attr,
                        st.tuples(st.just('name'), st.none(), st.sampled_from(gx.ATTR_LOCALS)).map(list))
_LOOSE_NS = st.one_of(_any, _node)


def _test_for(axis, loose=False):
    if axis == 'attribute':
        return _LOOSE_ATTR if loose else _TEST_ATTR
    if axis == 'namespace':
        return _LOOSE_NS if loose else _TEST_NS
    return _LOOSE_ELEM if loose else _TEST_ELEM


@st.composite
def _step(draw, depth, loose=False):
    axis = draw(_axis)
    test = draw(_test_for(axis, loose))
    preds = []
    k = draw(st.integers(0, 9))
    npred = (0 if k < 7 else 1) if loose else (0 if k < 6 else 1 if k < 9 else 2)
    for _ in range(npred):
        preds.append(draw(_pred(depth)))
    sep = '//' if draw(st.integers(0, 4)) == 0 else '/'
    return [sep, axis, test, preds, draw(st.integers(0, 1))]


@st.composite
def _rel_path(draw, depth, max_steps):
    n = draw(st.sampled_from([1, 1, 2][:max_steps + 1]))
    return ['path', 0, [draw(_step(depth)) for _ in range(n)]]


_ALL_AXES = ('child', 'descendant', 'descendant-or-self', 'following', 'following-sibling', 'self', 'attribute', 'namespace',
             'parent', 'ancestor', 'ancestor-or-self', 'preceding', 'preceding-sibling')
_REVERSE = ('parent', 'ancestor', 'ancestor', 'ancestor-or-self', 'ancestor-or-self', 'preceding', 'preceding', 'preceding',
            'preceding-sibling', 'preceding-sibling', 'preceding-sibling')
_SIMPLE_ATTR = st.sampled_from([['any'], ['any'], ['name', None, 'x'], ['name', None, 'y'], ['name', None, 'id'], ['nsany', 'p'], ['nsany', 'r']])


@st.composite
def _easy_pred(draw):
    """a non-positional predicate that is often true: [@x] [@*] [node()] [@x = 'v'] [not(@y)]"""
    k = draw(st.integers(0, 11))
    att = ['path', 0, [['/', 'attribute', draw(_SIMPLE_ATTR), [], 1]]]
    if k < 3:
        return ['exists', att]
    if k < 5:
        return ['exists', ['path', 0, [['/', 'child', ['node'], [], 1]]]]
    if k < 7:
        return ['not', ['exists', att]]
    if k < 8:
        return ['cmp', att, draw(st.sampled_from(['=', '!='])), draw(st.sampled_from(['v', 't', '1', '']))]
    if k < 10:
        return ['exists', ['path', 0, [['/', 'self', ['node'], [], 0]]]]
    return ['count', ['path', 0, [['/', 'child', ['any'], [], 1]]], draw(st.sampled_from(['>=', '>=', '<', '='])), draw(st.integers(0, 1))]


# predicates whose value is a number but not an integer-typed one: still position tests (2.0, 1.5, 4 div 2, last() div 2, last() - 1.0)
_numeric = st.sampled_from([['dec', '1.0'], ['dec', '2.0'], ['dec', '2.0'], ['dec', '3.0'], ['dec', '1.5'], ['dec', '0.5'], ['div', 4, 2],
                            ['div', 2, 2], ['div', 3, 2], ['div', 6, 2], ['lastdiv', 1], ['lastdiv', 2], ['lastdiv', 2], ['lastdiv', 3],
                            ['lastminusdec', '1.0'], ['lastminusdec', '0.0'], ['lastminusdec', '0.5'], ['lastminusdec', '2.0']])
_positional = st.one_of(st.sampled_from([['num', 1], ['num', 1], ['num', 2], ['last'], ['lastminus', 1]]), _numeric,
                        st.tuples(st.just('pos'), st.sampled_from(_OPS), st.integers(1, 3)).map(list))


@st.composite
def paren_step(draw, depth=0):
    """(axis::test)[p1][p2]([p3]): a parenthesised single step is a FILTER expression - every predicate numbers in
    document order, whatever the axis (XPath 1.0 2.4 / 3.3).  All 13 axes, reverse axes half of the time; the last
    predicate is positional, the earlier ones mostly not; optionally followed by one more step."""
    axis = draw(st.sampled_from(_REVERSE)) if draw(st.booleans()) else draw(st.sampled_from(_ALL_AXES))
    test = draw(_test_for(axis, loose=draw(st.integers(0, 5)) > 0))
    inner_preds = [draw(_easy_pred())] if draw(st.integers(0, 5)) == 0 else []
    npred = draw(st.sampled_from([2, 2, 2, 3]))
    preds = []
    for i in range(npred - 1):
        preds.append(draw(_positional) if draw(st.integers(0, 4)) == 0 else draw(_easy_pred()))
    preds.append(draw(_positional))
    steps = []
    if depth == 0 and draw(st.integers(0, 2)) == 0:
        steps.append(draw(st.sampled_from([['/', 'attribute', ['any'], [], 1], ['/', 'attribute', ['name', None, 'id'], [], 1],
                                           ['/', 'child', ['node'], [], 1], ['/', 'parent', ['node'], [], 1],
                                           ['//', 'child', ['any'], [], 1]])))
    return ['fpath', ['path', 0, [['/', axis, test, inner_preds, draw(st.integers(0, 1))]]], preds, steps]


@st.composite
def _operand(draw, depth):
    """path operand of exists / = / count() inside a predicate"""
    if draw(st.integers(0, 2)) == 0:
        return draw(paren_step(depth))
    return draw(_rel_path(depth, 2))


@st.composite
def _pred(draw, depth):
    k = draw(st.integers(0, 22))
    if k >= 20:
        return draw(_numeric)
    if k < 5:
        return ['num', draw(st.sampled_from([1, 1, 1, 2, 2, 3]))]
    if k < 8:
        return ['pos', draw(st.sampled_from(_OPS)), draw(st.integers(1, 3))]
    if k < 10:
        return ['last']
    if k < 11:
        return ['lastminus', 1]
    if depth >= 2:
        return ['num', draw(st.integers(1, 2))]
    if k < 14:
        return ['exists', draw(_operand(depth + 1))]
    if k < 16:
        return ['cmp', draw(_operand(depth + 1)), draw(st.sampled_from(['=', '=', '!='])), draw(st.sampled_from(_LITERALS))]
    if k < 17:
        return ['count', draw(_operand(depth + 1)), draw(st.sampled_from(_OPS)), draw(st.integers(0, 2))]
    if k < 18:
        return ['not', draw(_pred(depth + 1))]
    return [draw(st.sampled_from(['and', 'or'])), draw(_pred(depth + 1)), draw(_pred(depth + 1))]


@st.composite
def _path(draw, max_steps, depth=0):
    ab = draw(st.sampled_from([0, 0, 0, 1, 2, 2]))
    n = draw(st.sampled_from([1, 1, 2, 2, 2, 3, 3, 4, 4, 5][:2 * max_steps])) if not (ab == 1 and depth == 0 and draw(st.integers(0, 7)) == 0) else 0
    loose = draw(st.integers(0, 9)) < 6
    return ['path', ab, [draw(_step(depth, loose)) for _ in range(n)]]


_NS_TESTS = [['any'], ['any'], ['node'], ['name', None, 'xml'], ['name', None, 'xml'], ['name', None, 'p'], ['name', None, 'r']]


@st.composite
def ns_axis_path(draw):
    """namespace axis: alone, behind //, followed by further steps, in unions with attributes, counted in predicates"""
    ns_step = ['/', 'namespace', draw(st.sampled_from(_NS_TESTS)), [['num', draw(st.integers(1, 2))]] if draw(st.integers(0, 5)) == 0 else [], 0]
    k = draw(st.integers(0, 9))
    if k < 2:
        return ['path', draw(st.sampled_from([0, 0, 2])), [ns_step]]
    if k < 4:
        return ['path', 2, [['/', 'child', draw(st.sampled_from([['any'], ['node'], ['name', None, 'a']])), [], 1], ns_step]]
    if k < 6:
        tail = draw(st.sampled_from([[['/', 'parent', ['node'], [], 1]], [['/', 'parent', ['any'], [], 0], ['/', 'attribute', ['any'], [], 1]],
                                     [['/', 'parent', ['node'], [], 1], ['/', 'namespace', ['name', None, 'xml'], [], 0]],
                                     [['/', 'ancestor', ['any'], [], 0]], [['/', 'parent', ['node'], [], 1], ['/', 'child', ['node'], [], 1]]]))
        return ['path', draw(st.sampled_from([0, 2, 2])), [ns_step] + tail]
    if k < 8:
        att = ['path', draw(st.sampled_from([0, 2, 2])), [['/', 'attribute', draw(st.sampled_from([['any'], ['node'], ['name', None, 'x']])), [], 1]]]
        nsp = ['path', draw(st.sampled_from([0, 2, 2])), [ns_step]]
        u = ['union', [nsp, att] if draw(st.booleans()) else [att, nsp]]
        return u if draw(st.booleans()) else ['fpath', u, [], draw(st.sampled_from([[], [['/', 'parent', ['node'], [], 1]]]))]
    pred = draw(st.sampled_from([['exists', ['path', 0, [ns_step]]], ['count', ['path', 0, [['/', 'namespace', ['any'], [], 0]]], '=', draw(st.integers(1, 5))],
                                 ['count', ['path', 0, [['/', 'namespace', ['name', None, 'xml'], [], 0]]], '=', 1],
                                 ['count', ['union', [['path', 0, [['/', 'namespace', ['any'], [], 0]]], ['path', 0, [['/', 'attribute', ['any'], [], 1]]]]], '>', 2]]))
    return ['path', 2, [['/', 'child', ['any'], [pred], 1]]]


_LEAVING = ('parent', 'parent', 'ancestor', 'ancestor-or-self', 'following-sibling', 'following-sibling', 'preceding-sibling',
            'preceding-sibling', 'following', 'preceding')


@st.composite
def leaving_path(draw):
    """a relative path that LEAVES the context node through a non-self axis (.., parent::*, ancestor::*, siblings,
    following, preceding), optionally going on: meant for context items of every kind, comments and PIs in particular"""
    axis = draw(st.sampled_from(_LEAVING))
    if axis == 'parent' and draw(st.booleans()):
        first = ['/', 'parent', ['node'], [], 1]                      # ..
    else:
        first = ['/', axis, draw(st.sampled_from([['any'], ['any'], ['node'], ['node'], ['name', None, 'a'], ['text'], ['comment']])),
                 [draw(_positional)] if draw(st.integers(0, 3)) == 0 else [], 0]
    rest = [draw(_step(0, True)) for _ in range(draw(st.sampled_from([0, 0, 1, 1, 2])))]
    return ['path', 0, [first] + rest]


_ABS_OPERANDS = [['path', 2, [['/', 'child', t, [], 1]]] for t in (['any'], ['name', None, 'a'], ['name', None, 'b'], ['node'], ['text'])] + \
    [['path', 1, [['/', 'child', ['any'], [], 1]]], ['path', 2, [['/', 'attribute', ['any'], [], 1]]],
     ['path', 1, [['/', 'child', ['any'], [], 1], ['/', 'child', ['any'], [], 1]]]]
_REL_OPERANDS = [['path', 0, [['/', 'child', t, [], 1]]] for t in (['any'], ['name', None, 'a'], ['name', None, 'b'], ['node'], ['text'])] + \
    [['path', 0, [['/', 'parent', ['node'], [], 1]]], ['path', 0, [['/', 'attribute', ['any'], [], 1]]],
     ['path', 0, [['/', 'self', ['node'], [], 1]]], ['path', 0, [['/', 'following-sibling', ['any'], [], 0]]]]


@st.composite
def abs_rel_union(draw):
    """(ABSOLUTE | RELATIVE): the operands are evaluated independently, each from the context node"""
    a, r = draw(st.sampled_from(_ABS_OPERANDS)), draw(st.sampled_from(_REL_OPERANDS))
    u = ['union', [a, r] if draw(st.integers(0, 3)) else [r, a]]
    k = draw(st.integers(0, 3))
    if k == 0:
        return u
    preds = [draw(_positional)] if k == 3 else []
    steps = draw(st.sampled_from([[], [], [['/', 'child', ['node'], [], 1]], [['/', 'parent', ['node'], [], 1]], [['/', 'attribute', ['any'], [], 1]]]))
    return ['fpath', u, preds, steps]


@st.composite
def path_asts(draw, max_steps=4):
    k = draw(st.integers(0, 33))
    if k >= 32:
        return draw(abs_rel_union())
    if k >= 30:
        return draw(leaving_path())
    if k >= 28:
        return draw(ns_axis_path())
    if k < 15:
        return draw(_path(max_steps))
    if k < 18:
        inner = draw(st.one_of(_path(3), st.lists(_path(2), min_size=2, max_size=3).map(lambda ps: ['union', ps])))
        preds = [draw(_pred(1)) for _ in range(draw(st.integers(0, 2)))]
        steps = [draw(_step(0)) for _ in range(draw(st.integers(0, 2)))]
        return ['fpath', inner, preds, steps]
    if k < 20:
        return ['union', draw(st.lists(_path(3), min_size=2, max_size=3))]
    if k < 25:
        return draw(paren_step(0))
    # //t[(preceding-sibling::s)[@k][1]/@id = 'x']: the context nodes of the parenthesised step are spread over the tree
    # (only a comparison of the selected node is sensitive to which node the positional predicate picks; exists/count are not)
    ps = draw(paren_step(1))
    ps[3] = draw(st.sampled_from([[], [['/', 'attribute', ['any'], [], 1]], [['/', 'attribute', ['name', None, 'id'], [], 1]],
                                  [['/', 'attribute', ['name', None, 'x'], [], 1]], [['/', 'child', ['text'], [], 1]]]))
    pred = ['exists', ps] if draw(st.integers(0, 5)) == 0 else \
        ['cmp', ps, draw(st.sampled_from(['=', '=', '!='])), draw(st.sampled_from(['v', 't', '1', 'x y', '']))]
    return ['path', draw(st.sampled_from([0, 2, 2, 2])), [['/', draw(st.sampled_from(['child', 'child', 'descendant', 'self'])),
                                                           draw(st.sampled_from([['any'], ['any'], ['node'], ['node'], ['name', None, 'a']])),
                                                           [pred], 1]]]
