"""Path AST strategy for C01 (AST format: see vp.ref.xdm).  XPath 1.0 grammar only, so that the same text is
valid for the 1.0/2.0/3.0/3.1 parsers and for libxml2."""
from __future__ import annotations

from hypothesis import strategies as st

from vp.gen import xml as gx

# weights: compositions the repository's tests never have (reverse axes, following/preceding, siblings) are common
_AXES = (['child'] * 30 + ['descendant'] * 8 + ['descendant-or-self'] * 4 + ['parent'] * 6 + ['ancestor'] * 5 +
         ['ancestor-or-self'] * 3 + ['following'] * 7 + ['preceding'] * 7 + ['following-sibling'] * 8 +
         ['preceding-sibling'] * 8 + ['self'] * 4 + ['attribute'] * 7 + ['namespace'] * 3)
_axis = st.sampled_from(_AXES)

_elem_name = st.tuples(st.just('name'), st.sampled_from([None, None, None, None, 'p', 'q']), st.sampled_from(gx.ELEM_LOCALS)).map(list)
_attr_name = st.tuples(st.just('name'), st.sampled_from([None, None, 'p', 'q', 'xml']), st.sampled_from(gx.ATTR_LOCALS)).map(list)
_ns_name = st.tuples(st.just('name'), st.none(), st.sampled_from(['p', 'q', 's', 'xml'])).map(list)
_pi = st.tuples(st.just('pi'), st.sampled_from([None, 'x', 'y', 'pi', 'xml-stylesheet'])).map(list)

_any, _node = st.just(['any']), st.just(['node'])
_TEST_ELEM = st.one_of(_elem_name, _elem_name, _elem_name, _elem_name, _any, _any, _any, _any, _node, _node, _node, _node,
                       st.sampled_from([['nsany', 'p'], ['nsany', 'q']]), st.just(['text']), st.just(['text']),
                       st.just(['comment']), _pi)
_TEST_ATTR = st.one_of(_attr_name, _attr_name, st.just(['any']), st.just(['any']), st.just(['node']),
                       st.sampled_from([['nsany', 'p'], ['nsany', 'xml']]), st.just(['text']))
_TEST_NS = st.one_of(_ns_name, st.just(['any']), st.just(['any']), st.just(['node']), st.just(['comment']))

_LITERALS = ('t', '1', 'x y', 'v', ' ', '', 'tt', 'd')
_OPS = ('=', '!=', '<', '>', '<=', '>=')


_LOOSE_ELEM = st.one_of(_any, _any, _any, _node, _node, _node, _node,
                        st.tuples(st.just('name'), st.none(), st.sampled_from(gx.ELEM_LOCALS)).map(list),
                        st.tuples(st.just('name'), st.none(), st.sampled_from(gx.ELEM_LOCALS)).map(list), st.just(['text']))
_LOOSE_ATTR = st.one_of(_any, _any, _node, st.tuples(st.just('name'), st.none(), st.sampled_from(gx.ATTR_LOCALS)).map(list))
_LOOSE_NS = st.one_of(_any, _node)


def _test_for(axis, loose=False):
    if axis == 'attribute':
        return _LOOSE_ATTR if loose else _TEST_ATTR
    if axis == 'namespace':
        return _LOOSE_NS if loose else _TEST_NS
    return _LOOSE_ELEM if loose else _TEST_ELEM


@st.composite
def _step(draw, depth, loose=False):
    axis = draw(_axis)
    test = draw(_test_for(axis, loose))
    preds = []
    k = draw(st.integers(0, 9))
    npred = (0 if k < 7 else 1) if loose else (0 if k < 6 else 1 if k < 9 else 2)
    for _ in range(npred):
        preds.append(draw(_pred(depth)))
    sep = '//' if draw(st.integers(0, 4)) == 0 else '/'
    return [sep, axis, test, preds, draw(st.integers(0, 1))]


@st.composite
def _rel_path(draw, depth, max_steps):
    n = draw(st.sampled_from([1, 1, 2][:max_steps + 1]))
    return ['path', 0, [draw(_step(depth)) for _ in range(n)]]


@st.composite
def _pred(draw, depth):
    k = draw(st.integers(0, 19))
    if k < 5:
        return ['num', draw(st.sampled_from([1, 1, 1, 2, 2, 3]))]
    if k < 8:
        return ['pos', draw(st.sampled_from(_OPS)), draw(st.integers(1, 3))]
    if k < 10:
        return ['last']
    if k < 11:
        return ['lastminus', 1]
    if depth >= 2:
        return ['num', draw(st.integers(1, 2))]
    if k < 14:
        return ['exists', draw(_rel_path(depth + 1, 2))]
    if k < 16:
        return ['cmp', draw(_rel_path(depth + 1, 2)), draw(st.sampled_from(['=', '=', '!='])), draw(st.sampled_from(_LITERALS))]
    if k < 17:
        return ['count', draw(_rel_path(depth + 1, 2)), draw(st.sampled_from(_OPS)), draw(st.integers(0, 2))]
    if k < 18:
        return ['not', draw(_pred(depth + 1))]
    return [draw(st.sampled_from(['and', 'or'])), draw(_pred(depth + 1)), draw(_pred(depth + 1))]


@st.composite
def _path(draw, max_steps, depth=0):
    ab = draw(st.sampled_from([0, 0, 0, 1, 2, 2]))
    n = draw(st.sampled_from([1, 1, 2, 2, 2, 3, 3, 4, 4, 5][:2 * max_steps])) if not (ab == 1 and depth == 0 and draw(st.integers(0, 7)) == 0) else 0
    loose = draw(st.integers(0, 9)) < 6
    return ['path', ab, [draw(_step(depth, loose)) for _ in range(n)]]


@st.composite
def path_asts(draw, max_steps=4):
    k = draw(st.integers(0, 19))
    if k < 15:
        return draw(_path(max_steps))
    if k < 18:
        inner = draw(st.one_of(_path(3), st.lists(_path(2), min_size=2, max_size=3).map(lambda ps: ['union', ps])))
        preds = [draw(_pred(1)) for _ in range(draw(st.integers(0, 2)))]
        steps = [draw(_step(0)) for _ in range(draw(st.integers(0, 2)))]
        return ['fpath', inner, preds, steps]
    return ['union', draw(st.lists(_path(3), min_size=2, max_size=3))]
