"""C12: XSD/XPath regex pattern ASTs (JSON), renderer, conversion to reference nodes, feature
signature, structural shrink candidates, subject sampling.

JSON AST (lists):
  ["lit", ch]  ["esc", ch]  ["dot"]  ["bol"]  ["eol"]  ["mce", l]  ["cat", name, neg]  ["blk", name, neg]
  ["cls", neg, [part...], sub|None]   part: ["c", ch] ["e", ch] ["r", lo, hi] ["hy"] ["mce", l] ["cat"..] ["blk"..]
  ["grp", n]  ["ncg", n]  ["ref", k]  ["seq", [n...]]  ["alt", [n...]]
  ["rep", n, min, max|None, lazy, form]      form in ? * + {n} {n,} {n,m}
  ["ws", text]   (only under flag x: ignorable white space between pieces)
"""
from __future__ import annotations

from hypothesis import strategies as st

from vp.ref import regex as R
from vp.ref import uniclass

META_OUT = '.\\?*+{}()|[]'
ESC1 = 'nrt'
CATS = ['L', 'Lu', 'Ll', 'Lt', 'Lo', 'M', 'Mn', 'N', 'Nd', 'Nl', 'No', 'P', 'Pc', 'Pd', 'Ps', 'Pe', 'Po', 'Z', 'Zs',
        'S', 'Sm', 'Sc', 'So', 'C', 'Cc', 'Cf', 'Co', 'Cn', 'Lm', 'Mc', 'Me', 'Pi', 'Pf', 'Zl', 'Zp', 'Sk']
BLKS = sorted(uniclass.BLOCKS)

LIT_PLAIN = ['a', 'b', 'c', 'x', 'Z', 'K', '5', '0', '_', '-', ' ', ':', '#', ',', '&', '<', '=', '!', '~', '/', '"', "'",
             '%', '@', ';', '>', '`', '\xe9', '\xc9', '\xdf', '\u03c3', '\u0661', '\u01c5', '\U0001f600', '\xa0',
             '\t', '\n', '\u2003', '\u4e2d']
LIT_META = list('.\\?*+{}()|[]^$')
POOL = ['a', 'z', 'A', 'Z', 'k', 'K', '\u212a', '5', '0', '9', '_', '$', '-', '.', ':', ' ', '\t', '\n', '\r', '\x0b',
        '\x85', '\xa0', '\u2003', '\u2028', '\u0661', '\u01c5', '\u01c6', '\xe9', '\xc9', '\xdf', '\u03a9', '\u03c3',
        '\u03c2', '\u4e2d', '\U0001f600', '\U0001d49c', '\u0378', '\ue000', '\xb7', '\xd7', '+', '^', '\\', ']', '[',
        '\u0130', '\u0131', '#', '&', '<', '\x00', '\U0010ffff', '\u0300', '\u2160', '\xad', '~', '|', '(', '{']
RANGES_ESC = [('\\t', '\\r'), ('\\n', 'a'), ('\\-', '/'), ('!', '\\-'), ('\\*', '\\+'), ('\\[', '\\]'), ('+', '\\.'),
              ('\\^', 'b'), ('\\.', '9'), ('\\\\', 'a'), ('\t', '\\n'), ('\\(', '\\)'), ('\\?', 'B'), ('\\{', '\\}'),
              ('\\|', '~'), (' ', '\\*'), ('X', '\\\\')]
RANGES = [('a', 'z'), ('A', 'Z'), ('0', '9'), ('a', 'c'), ('b', 'd'), ('Z', 'a'), (' ', '~'), ('\xe0', '\xff'),
          ('\U0001f600', '\U0001f602'), ('+', '.'), ('\x00', '\x7f'), ('a', 'a'), ('\t', '\r'), ('[', ']'),
          ('\u0660', '\u0669'), ('\x80', '\U0010ffff'), ('X', '\\'), ('^', 'b'), ('5', 'K'), (' ', ' ')]
CLS_CHARS = ['a', 'b', 'e', 'z', 'A', '5', '_', ' ', '$', '.', '?', '*', '+', '(', ')', '{', '}', '|', '#', '&', '~',
             ':', ',', '^', '-', '[', ']', '\\', '\xe9', '\xa0', '\u0661', '\u01c5', '\U0001f600', '\n', '\t', 'K', 'k']


# --------------------------------------------------------------------------
# rendering
# --------------------------------------------------------------------------
def dec(x):
    """character denoted by a class item: a character or an explicit escape text such as '\\n' or '\\.'"""
    if len(x) == 2 and x[0] == '\\':
        return {'n': '\n', 'r': '\r', 't': '\t'}.get(x[1], x[1])
    return x


def _rc(ch, first):
    """render one character inside a class"""
    if len(ch) == 2 and ch[0] == '\\':
        return ch
    if ch in '[]\\-':
        return '\\' + ch
    if ch == '^' and first:
        return '\\^'
    return ch


def render_set(n):
    t = n[0]
    if t == 'mce':
        return '\\' + n[1]
    if t in ('cat', 'blk'):
        return ('\\P{' if n[2] else '\\p{') + ('Is' if t == 'blk' else '') + n[1] + '}'
    if t == 'cls':
        out = ['[', '^' if n[1] else '']
        parts = n[2]
        for k, p in enumerate(parts):
            first = k == 0
            pt = p[0]
            if pt == 'c':
                out.append(_rc(p[1], first))
            elif pt == 'e':
                out.append('\\' + p[1])
            elif pt == 'r':
                out.append(_rc(p[1], first) + '-' + _rc(p[2], False))
            elif pt == 'hy':
                out.append('-')
            else:
                out.append(render_set(p))
        if n[3] is not None:
            out.append('-' + render_set(n[3]))
        out.append(']')
        return ''.join(out)
    raise ValueError(n)


def render(n, xpath: bool, xflag: bool = False) -> str:
    t = n[0]
    if t == 'lit':
        ch = n[1]
        if ch in META_OUT or (xpath and ch in '^$'):
            return '\\' + ch
        if xflag and ch in R.WS:
            return '[' + ch + ']'
        return ch
    if t == 'esc':
        return '\\' + n[1]
    if t == 'dot':
        return '.'
    if t == 'bol':
        return '^'
    if t == 'eol':
        return '$'
    if t in ('mce', 'cat', 'blk', 'cls'):
        return render_set(n)
    if t == 'grp':
        return '(' + render(n[1], xpath, xflag) + ')'
    if t == 'ncg':
        return '(?:' + render(n[1], xpath, xflag) + ')'
    if t == 'ref':
        return '\\' + str(n[1])
    if t == 'seq':
        out = []
        for k, x in enumerate(n[1]):
            out.append(render(x, xpath, xflag))
        return ''.join(out)
    if t == 'alt':
        return '|'.join(render(x, xpath, xflag) for x in n[1])
    if t == 'rep':
        body = n[1]
        s = render(body, xpath, xflag)
        if body[0] in ('seq', 'alt', 'rep') or (body[0] == 'seq' and len(body[1]) != 1):
            s = ('(?:' if xpath else '(') + s + ')'
        lo, hi, lazy, form = n[2], n[3], n[4], n[5]
        q = form if form in '?*+' else ('{%d}' % lo if form == '{n}' else '{%d,}' % lo if form == '{n,}'
                                        else '{%d,%d}' % (lo, hi))
        return s + q + ('?' if lazy else '')
    if t == 'ws':
        return n[1]
    raise ValueError(n)


# --------------------------------------------------------------------------
# JSON AST -> reference nodes (second route, compared with the reference parser's result)
# --------------------------------------------------------------------------
def _set_ref(n):
    t = n[0]
    if t == 'mce':
        return ('esc', n[1])
    if t == 'cat':
        return ('cat', n[1], bool(n[2]))
    if t == 'blk':
        return ('blk', n[1], bool(n[2]))
    if t == 'cls':
        parts = []
        for p in n[2]:
            pt = p[0]
            if pt == 'c':
                parts.append(('chr', ord(p[1])))
            elif pt == 'e':
                parts.append(('chr', ord({'n': '\n', 'r': '\r', 't': '\t'}.get(p[1], p[1]))))
            elif pt == 'r':
                parts.append(('rng', ord(dec(p[1])), ord(dec(p[2]))))
            elif pt == 'hy':
                parts.append(('chr', 0x2D))
            else:
                parts.append(_set_ref(p))
        return ('cls', bool(n[1]), tuple(parts), None if n[3] is None else _set_ref(n[3]))
    raise ValueError(n)


def to_ref(ast, xpath: bool, xflag: bool = False):
    """(node, ngroups); numbering of groups by opening parenthesis, as the parser does"""
    counter = [0]

    def conv(n):
        t = n[0]
        if t == 'lit':
            if xflag and n[1] in R.WS:
                return ('set', ('cls', False, (('chr', ord(n[1])),), None))
            return ('chr', ord(n[1]))
        if t == 'esc':
            return ('chr', ord({'n': '\n', 'r': '\r', 't': '\t'}.get(n[1], n[1])))
        if t == 'dot':
            return ('any',)
        if t == 'bol':
            return ('bol',)
        if t == 'eol':
            return ('eol',)
        if t in ('mce', 'cat', 'blk', 'cls'):
            return ('set', _set_ref(n))
        if t == 'grp':
            counter[0] += 1
            idx = counter[0]
            return ('grp', idx, conv(n[1]))
        if t == 'ncg':
            return ('ncg', conv(n[1]))
        if t == 'ref':
            return ('ref', n[1])
        if t == 'seq':
            items = []
            for k, x in enumerate(n[1]):
                if x[0] == 'ws':
                    continue
                if k and n[1][k - 1][0] == 'ref' and render(x, xpath, xflag)[:1].isdigit() \
                        and n[1][k - 1][1] * 10 + int(render(x, xpath, xflag)[0]) <= counter[0]:
                    raise ValueError('digit after a back-reference would be re-read as part of it')
                items.append(conv(x))
            return items[0] if len(items) == 1 else ('seq', tuple(items))
        if t == 'alt':
            bs = tuple(conv(x) for x in n[1])
            return bs[0] if len(bs) == 1 else ('alt', bs)
        if t == 'rep':
            body = n[1]
            inner = conv(body)
            if body[0] in ('seq', 'alt', 'rep'):
                if xpath:
                    inner = ('ncg', inner)
                else:
                    raise ValueError('xsd-mode repeated sequences must be explicit groups')
            return ('rep', inner, n[2], n[3], bool(n[4]))
        raise ValueError(n)
    node = conv(ast)
    return node, counter[0]


# --------------------------------------------------------------------------
# features / signature
# --------------------------------------------------------------------------
def _mce_tok(letter):
    grp = {'s': 'sw', 'w': 'sw', 'd': 'd', 'i': 'ic', 'c': 'ic'}[letter.lower()]
    return 'mce:' + (grp.upper() if letter.isupper() else grp)


def _lit_tok(ch):
    if ch in R.WS:
        return 'lit:ws'
    if ch == '#':
        return 'lit:#'
    if ch in META_OUT or ch in '^$':
        return 'lit:meta'
    if not ch.isascii():
        return 'lit:na'
    return 'lit'


def _cc_kind(ch):
    """kind of a character inside a class: esc(aped) > meta > ws > na(non-ascii) > ''"""
    if ch in '[]\\-^':
        return 'esc'
    if ch in '.?*+(){}|$#&~':
        return 'meta'
    if ch in R.WS:
        return 'ws'
    if not ch.isascii():
        return 'na'
    return ''


def _part_src(p):
    """source text of a class part that is not in first position"""
    pt = p[0]
    if pt == 'c':
        return _rc(p[1], False)
    if pt == 'e':
        return '\\' + p[1]
    if pt == 'r':
        return _rc(p[1], False)
    if pt == 'hy':
        return '-'
    return render_set(p)


def features(ast) -> list:
    toks = set()

    def cls_tok(n):
        sub = set()
        if n[1]:
            sub.add('neg')
        for k, p in enumerate(n[2]):
            pt = p[0]
            if pt == 'c':
                ck = _cc_kind(p[1])
                sub.add('c:' + ck if ck else 'c')
            elif pt == 'r':
                lo_src, hi_src = _rc(p[1], k == 0), _rc(p[2], False)
                if lo_src[0] == '\\':
                    sub.add('r:esc-start')
                elif hi_src[0] == '\\' and hi_src[1] in 'nrt':
                    sub.add('r:esc-end-nrt')
                elif hi_src == '\\\\' and k + 1 < len(n[2]) and _part_src(n[2][k + 1])[:1] in '\\|.^?*+{}()':
                    sub.add('r:bs-end+esc')     # the next item is written as an escape or starts with a metacharacter
                else:
                    ks = [_cc_kind(dec(p[1])), _cc_kind(dec(p[2]))]
                    kk = next((x for x in ('esc', 'meta', 'ws', 'na') if x in ks), '')
                    sub.add('r:' + kk if kk else 'r')
            elif pt in ('e', 'hy'):
                sub.add(pt)
            elif pt == 'mce':
                sub.add(_mce_tok(p[1])[4:])
            elif pt == 'cat':
                sub.add('CAT' if p[2] else 'cat')
            elif pt == 'blk':
                sub.add(('BLK' if p[2] else 'blk') + ('-hy' if '-' in p[1] else ''))
        if n[3] is not None:
            sub.add('sub' + cls_tok(n[3])[3:])
        return 'cls(' + ','.join(sorted(sub)) + ')'

    def walk(n):
        t = n[0]
        if t == 'lit':
            toks.add(_lit_tok(n[1]))
        elif t == 'esc':
            toks.add('esc1')
        elif t in ('dot', 'bol', 'eol', 'ref', 'grp', 'ncg', 'alt'):
            toks.add(t)
            if t in ('grp', 'ncg'):
                walk(n[1])
            elif t == 'alt':
                for x in n[1]:
                    walk(x)
        elif t == 'mce':
            toks.add(_mce_tok(n[1]))
        elif t == 'cat':
            toks.add('CAT' if n[2] else 'cat')
        elif t == 'blk':
            toks.add('BLK' if n[2] else 'blk')
        elif t == 'cls':
            toks.add(cls_tok(n))
        elif t == 'seq':
            for x in n[1]:
                walk(x)
        elif t == 'rep':
            toks.add('q' + n[5])
            if n[4]:
                toks.add('lazy')
            walk(n[1])
        elif t == 'ws':
            toks.add('xws')
    walk(ast)
    return sorted(toks)


def nontrivial(ast, flags) -> bool:
    if flags:
        return True
    for f in features(ast):
        if f == 'ref' or f.startswith('q{') or f.startswith('mce') or f in ('cat', 'CAT', 'blk', 'BLK'):
            return True
        if f.startswith('cls('):
            inner = set(f[4:].replace('(', ',').replace(')', ',').split(','))
            if inner & {'neg', 'sw', 'SW', 'd', 'D', 'ic', 'IC', 'cat', 'CAT', 'blk', 'BLK', 'blk-hy', 'BLK-hy'} or 'sub' in f:
                return True
    return False


_HUGE_CATS = {'L', 'Lo', 'C', 'Cn', 'Co', 'S', 'So'}


def _cls_slow(n) -> bool:
    """[huge positive set - [class with a negative part]]: CharacterClass.__isub__ intersects code point by code
    point (seconds per translation); still generated, but rarely, and never minimised with a large budget"""
    if any(p[0] == 'r' and ord(dec(p[2])) - ord(dec(p[1])) > 200000 for p in n[2]):
        return True      # bool(UnicodeSubset) walks every code point: ~0.15 s per translation
    if n[3] is None:
        return False
    sub = n[3]
    if _cls_slow(sub):
        return True
    if n[1]:
        # [^\W..] / [^\P{..}..]: the complement of a negated escape is a huge positive set
        left_huge = any((p[0] == 'mce' and p[1] in 'WIC') or (p[0] in ('cat', 'blk') and p[2]) for p in n[2])
    else:
        left_huge = any((p[0] == 'mce' and p[1] in 'wic') or (p[0] == 'cat' and not p[2] and p[1] in _HUGE_CATS)
                        or (p[0] == 'r' and ord(dec(p[2])) - ord(dec(p[1])) > 20000) for p in n[2])
    right_negative = bool(sub[1]) or any((p[0] == 'mce' and p[1].isupper()) or (p[0] in ('cat', 'blk') and p[2])
                                         for p in sub[2])
    return left_huge and right_negative


def slow_algebra(n) -> bool:
    t = n[0]
    if t == 'cls':
        return _cls_slow(n)
    if t in ('seq', 'alt'):
        return any(slow_algebra(x) for x in n[1])
    if t in ('grp', 'ncg', 'rep'):
        return slow_algebra(n[1])
    return False


def count_atoms(n) -> int:
    t = n[0]
    if t in ('seq', 'alt'):
        return sum(count_atoms(x) for x in n[1])
    if t in ('grp', 'ncg', 'rep'):
        return count_atoms(n[1])
    return 0 if t == 'ws' else 1


# --------------------------------------------------------------------------
# structural shrink candidates (used by the judge to attribute a discrepancy)
# --------------------------------------------------------------------------
def shrinks(n):
    """yield strictly simpler ASTs"""
    t = n[0]
    if t in ('seq', 'alt'):
        items = n[1]
        if len(items) == 1:
            yield items[0]
        if len(items) > 1:
            for k in range(len(items)):
                yield [t, items[:k] + items[k + 1:]]
            if t == 'alt':
                for x in items:
                    yield x
        for k, x in enumerate(items):
            for y in shrinks(x):
                yield [t, items[:k] + [y] + items[k + 1:]]
    elif t in ('grp', 'ncg'):
        yield n[1]
        if t == 'grp':
            yield ['ncg', n[1]]
        for y in shrinks(n[1]):
            yield [t, y]
    elif t == 'rep':
        yield n[1]
        if n[4]:
            yield ['rep', n[1], n[2], n[3], False, n[5]]
        for y in shrinks(n[1]):
            yield ['rep', y, n[2], n[3], n[4], n[5]]
    elif t == 'cls':
        neg, parts, sub = n[1], n[2], n[3]
        if sub is not None:
            yield ['cls', neg, parts, None]
            yield sub
            for y in shrinks(sub):
                if y[0] == 'cls':
                    yield ['cls', neg, parts, y]
        if neg:
            yield ['cls', False, parts, sub]
        if len(parts) > 1:
            for k in range(len(parts)):
                yield ['cls', neg, parts[:k] + parts[k + 1:], sub]
        for k, p in enumerate(parts):
            if p[0] == 'r' and p[1] != p[2]:
                yield ['cls', neg, parts[:k] + [['c', dec(p[1])]] + parts[k + 1:], sub]
                yield ['cls', neg, parts[:k] + [['c', dec(p[2])]] + parts[k + 1:], sub]
                if len(p[1]) == 2:
                    yield ['cls', neg, parts[:k] + [['r', dec(p[1]), p[2]]] + parts[k + 1:], sub]
                if len(p[2]) == 2:
                    yield ['cls', neg, parts[:k] + [['r', p[1], dec(p[2])]] + parts[k + 1:], sub]
        if len(parts) == 1 and not neg and sub is None and parts[0][0] in ('mce', 'cat', 'blk'):
            pass    # keep [\d] distinct from \d: different code paths
    elif t == 'lit':
        if n[1] not in 'a':
            pass


# --------------------------------------------------------------------------
# strategies
# --------------------------------------------------------------------------
class _State:
    def __init__(self, xpath, flags, budget, light=False):
        self.light = light
        self.xpath = xpath
        self.flags = flags
        self.budget = budget
        self.opened = 0
        self.closed = []


def _w(draw, pairs):
    """weighted choice"""
    total = sum(w for _, w in pairs)
    k = draw(st.integers(0, total - 1))
    for v, w in pairs:
        if k < w:
            return v
        k -= w
    raise AssertionError


def _gen_setpart(draw, allow_blk=True):
    kind = _w(draw, [('mce', 14), ('cat', 7), ('blk', 3 if allow_blk else 0)])
    if kind == 'mce':
        return ['mce', draw(st.sampled_from(R.MCE))]
    if kind == 'cat':
        return ['cat', draw(st.sampled_from(CATS)), draw(st.booleans())]
    return ['blk', draw(st.sampled_from(BLKS)), draw(st.booleans())]


_LIGHT_RANGES = [('a', 'z'), ('A', 'Z'), ('0', '9'), ('a', 'c'), ('Z', 'a'), (' ', '~'), ('\xe0', '\xff'), ('+', '.'),
                 ('\t', '\r'), ('[', ']')]


def _gen_cls_light(draw, depth=0):
    """classes whose translation is always fast (small sets only): for the checks that are not about class algebra"""
    neg = draw(st.integers(0, 99)) < 30
    parts = []
    for _ in range(_w(draw, [(1, 45), (2, 35), (3, 20)])):
        kind = _w(draw, [('c', 40), ('r', 30), ('e', 8), ('set', 22)])
        if kind == 'c':
            parts.append(['c', draw(st.sampled_from(CLS_CHARS))])
        elif kind == 'r':
            lo, hi = draw(st.sampled_from(_LIGHT_RANGES))
            parts.append(['r', lo, hi])
        elif kind == 'e':
            parts.append(['e', draw(st.sampled_from(list('nrt') + list('\\|.?*+(){}-[]^')))])
        elif draw(st.booleans()):
            parts.append(['mce', draw(st.sampled_from('sd'))])
        else:
            parts.append(['cat', draw(st.sampled_from(['Lu', 'Nd', 'Pd', 'Zs', 'Sc', 'Ll'])), False])
    sub = _gen_cls_light(draw, depth + 1) if depth < 1 and draw(st.integers(0, 99)) < 20 else None
    return ['cls', neg, parts, sub]


def _gen_cls(draw, depth=0):
    neg = draw(st.integers(0, 99)) < 35
    nparts = _w(draw, [(1, 40), (2, 35), (3, 18), (4, 7)])
    parts = []
    for _ in range(nparts):
        kind = _w(draw, [('c', 30), ('r', 25), ('e', 7), ('set', 30)])
        if kind == 'c':
            parts.append(['c', draw(st.sampled_from(CLS_CHARS))])
        elif kind == 'r':
            lo, hi = draw(st.sampled_from(RANGES if draw(st.integers(0, 19)) < 18 else RANGES_ESC))
            if ord(dec(hi)) - ord(dec(lo)) > 200000 and draw(st.integers(0, 3)) > 0:
                lo, hi = 'a', 'z'       # the top-of-code-space range stays, but rare (slow to translate)
            parts.append(['r', lo, hi])
        elif kind == 'e':
            parts.append(['e', draw(st.sampled_from(list('nrt') + list('\\|.?*+(){}-[]^')))])
        else:
            parts.append(_gen_setpart(draw))
    sub = None
    if depth < 2 and draw(st.integers(0, 99)) < (28 if depth == 0 else 20):
        sub = _gen_cls(draw, depth + 1)
    hy = draw(st.integers(0, 99))
    if hy < 5:
        parts.insert(0, ['hy'])
    elif hy < 10 and sub is None:
        parts.append(['hy'])
    res = ['cls', neg, parts, sub]
    if sub is not None and _cls_slow(res) and draw(st.integers(0, 99)) >= 12:
        # keep the expensive corner rare: make the subtrahend positive
        res = ['cls', neg, parts, ['cls', False, [p for p in sub[2] if not ((p[0] == 'mce' and p[1].isupper()) or
                                                                          (p[0] in ('cat', 'blk') and p[2]))] or [['c', 'a']],
                                   None]]
    return res


_FORMS = [('?', 0, 1), ('*', 0, None), ('+', 1, None)]


def _gen_quant(draw, node, state):
    k = draw(st.integers(0, 99))
    if k < 55:
        form, lo, hi = draw(st.sampled_from(_FORMS))
    elif k < 70:
        lo = draw(st.integers(0, 3))
        form, hi = '{n}', lo
    elif k < 82:
        lo = draw(st.integers(0, 3))
        form, hi = '{n,}', None
    else:
        lo = draw(st.integers(0, 3))
        hi = draw(st.integers(lo, 3))
        form = '{n,m}'
    lazy = state.xpath and draw(st.integers(0, 99)) < 25
    if not state.xpath and node[0] in ('seq', 'alt', 'rep'):
        node = ['grp', node]
    return ['rep', node, lo, hi, lazy, form]


def _gen_atom(draw, state, depth):
    xp = state.xpath
    choices = [('lit', 30), ('meta', 6), ('esc', 4), ('dot', 6), ('setpart', 14), ('cls', 22)]
    if depth < 3 and state.budget > 1:
        choices += [('grp', 9)]
        if xp:
            choices += [('ncg', 3)]
    if xp:
        choices += [('anchor', 5)]
        if state.closed:
            choices += [('ref', 7)]
    kind = _w(draw, choices)
    state.budget -= 1
    if kind == 'lit':
        return ['lit', draw(st.sampled_from(LIT_PLAIN))]
    if kind == 'meta':
        ch = draw(st.sampled_from(LIT_META))
        return ['lit', ch]
    if kind == 'esc':
        return ['esc', draw(st.sampled_from(list('nrt') + list('\\|.?*+(){}-[]^') + (['$'] if xp else [])))]
    if kind == 'dot':
        return ['dot']
    if kind == 'setpart':
        return _gen_setpart(draw)
    if kind == 'cls':
        return _gen_cls_light(draw) if state.light else _gen_cls(draw)
    if kind == 'anchor':
        return [draw(st.sampled_from(['bol', 'eol']))]
    if kind == 'ref':
        return ['ref', draw(st.sampled_from(state.closed))]
    if kind == 'grp':
        state.opened += 1
        idx = state.opened
        inner = _gen_regexp(draw, state, depth + 1)
        state.closed.append(idx)
        return ['grp', inner]
    inner = _gen_regexp(draw, state, depth + 1)
    return ['ncg', inner]


def _gen_branch(draw, state, depth):
    npieces = _w(draw, [(0, 3), (1, 30), (2, 30), (3, 22), (4, 10), (5, 5)])
    items = []
    for _ in range(npieces):
        if state.budget <= 0:
            break
        atom = _gen_atom(draw, state, depth)
        if atom[0] not in ('bol', 'eol') and draw(st.integers(0, 99)) < 38:
            atom = _gen_quant(draw, atom, state)
        items.append(atom)
        if 'x' in state.flags and 'q' not in state.flags and draw(st.integers(0, 99)) < 30:
            items.append(['ws', draw(st.sampled_from([' ', '  ', '\n', '\t', ' \r\n']))])
    return ['seq', items]


def _gen_regexp(draw, state, depth):
    nb = _w(draw, [(1, 75), (2, 20), (3, 5)]) if state.budget > 1 else 1
    bs = [_gen_branch(draw, state, depth) for _ in range(nb)]
    return bs[0] if nb == 1 else ['alt', bs]


FLAG_SETS = ['', '', '', '', 's', 'm', 'i', 'x', 'i', 'sm', 'si', 'mi', 'ix', 'smix', 'q', 'qi', 'mx', 'sx', 'qx', 'qsm']


# --- subjects ---------------------------------------------------------------
def alphabet(ast, flags) -> list:
    """characters that hit the membership boundaries of the pattern"""
    out = []

    def add(ch):
        if ch not in out:
            out.append(ch)

    def near(cp):
        for d in (-1, 0, 1):
            if 0 <= cp + d <= 0x10FFFF and not 0xD800 <= cp + d <= 0xDFFF:
                add(chr(cp + d))

    def walk(n):
        t = n[0]
        if t == 'lit':
            add(n[1])
            if 'i' in flags:
                add(n[1].swapcase()[:1] or n[1])
        elif t == 'esc':
            add({'n': '\n', 'r': '\r', 't': '\t'}.get(n[1], n[1]))
        elif t in ('seq', 'alt'):
            for x in n[1]:
                walk(x)
        elif t in ('grp', 'ncg', 'rep'):
            walk(n[1])
        elif t == 'cls':
            for p in n[2]:
                if p[0] == 'c':
                    add(p[1])
                    if 'i' in flags:
                        add(p[1].swapcase()[:1] or p[1])
                elif p[0] == 'e':
                    add({'n': '\n', 'r': '\r', 't': '\t'}.get(p[1], p[1]))
                elif p[0] == 'r':
                    near(ord(dec(p[1])))
                    near(ord(dec(p[2])))
                    if 'i' in flags:
                        add(dec(p[1]).swapcase()[:1] or dec(p[1]))
                elif p[0] == 'hy':
                    add('-')
            if n[3] is not None:
                walk(n[3])
    walk(ast)
    return out


def _members(sx, pool, icase, want=True):
    res = []
    for ch in pool:
        try:
            if R.set_contains(sx, ord(ch), icase) == want:
                res.append(ch)
        except R.Undecided:
            pass
    return res


@st.composite
def subjects_for(draw, ast, xpath, flags, count, xml_only=False, extra_chars=()):
    """`count` subject strings: sampled from the pattern (likely matches), mutated, or random."""
    q = 'q' in flags
    xflag = 'x' in flags and not q
    alpha = alphabet(ast, flags)
    pool = list(POOL) + [c for c in extra_chars if c not in POOL]
    if xml_only:
        ok = lambda c: c in '\t\n\r' or (0x20 <= ord(c) <= 0xD7FF) or (0xE000 <= ord(c) <= 0xFFFD) or ord(c) >= 0x10000
        alpha = [c for c in alpha if ok(c)]
        pool = [c for c in pool if ok(c)]
    chars = alpha + pool
    char_st = st.sampled_from(alpha * 3 + pool) if alpha else st.sampled_from(pool)
    icase = 'i' in flags
    multi = 'm' in flags
    mem_cache: dict = {}
    if q:
        text = render(ast, xpath, False)

    def sample(n, caps):
        t = n[0]
        if t == 'lit':
            ch = n[1]
            if icase and draw(st.booleans()):
                ch = ch.swapcase()[:1] or ch
            return ch
        if t == 'esc':
            return {'n': '\n', 'r': '\r', 't': '\t'}.get(n[1], n[1])
        if t == 'dot':
            return draw(char_st)
        if t in ('bol', 'eol'):
            # multi-line mode: put line ends around the anchors
            return '\n' if multi and draw(st.integers(0, 9)) < 5 else ''
        if t == 'ws':
            return ''
        if t in ('mce', 'cat', 'blk', 'cls'):
            mem = mem_cache.get(id(n))
            if mem is None:
                mem = mem_cache[id(n)] = _members(_set_ref(n), chars, icase)
            ch = draw(st.sampled_from(mem)) if mem else draw(char_st)
            if icase and draw(st.integers(0, 9)) < 3:
                ch = ch.swapcase()[:1] or ch       # probes what flag i must NOT do to escapes
            return ch
        if t == 'grp':
            s = sample(n[1], caps)
            caps.append(s)
            return s
        if t == 'ncg':
            return sample(n[1], caps)
        if t == 'ref':
            k = n[1]
            return caps[k - 1] if k - 1 < len(caps) else ''
        if t == 'seq':
            return ''.join(sample(x, caps) for x in n[1])
        if t == 'alt':
            return sample(draw(st.sampled_from(n[1])), caps)
        if t == 'rep':
            lo, hi = n[2], n[3]
            top = lo + 2 if hi is None else min(hi, lo + 2)
            k = draw(st.integers(lo, top))
            return ''.join(sample(n[1], caps) for _ in range(k))
        raise ValueError(n)

    out = []
    for _ in range(count):
        mode = draw(st.integers(0, 9))
        if mode < 6:
            s = text if q else sample(ast, [])
            if q and icase and draw(st.booleans()):
                s = s.swapcase()
            if len(s) > 14:
                s = s[:14]
            m = draw(st.integers(0, 9))
            if m < 3 and s:
                k = draw(st.integers(0, len(s) - 1))
                s = s[:k] + draw(char_st) + s[k + 1:]
            elif m == 3 and s:
                k = draw(st.integers(0, len(s) - 1))
                s = s[:k] + s[k + 1:]
            elif m == 4:
                k = draw(st.integers(0, len(s)))
                s = s[:k] + draw(char_st) + s[k:]
            elif m == 5:
                s = draw(char_st) + s
            elif m == 6:
                s = s + draw(st.sampled_from(['\n', '\n', draw(char_st)]))
            elif m == 7 and multi:
                s = draw(st.sampled_from([s + '\n', '\n' + s, s[:-1], s + '\n\n']))
        else:
            s = ''.join(draw(st.lists(char_st, min_size=0, max_size=6)))
        if xml_only:
            s = ''.join(c for c in s if ok(c))      # xs:string values consist of XML characters
        out.append(s)
    return out


@st.composite
def pattern_case(draw, xpath: bool, nsubj: int = 8, xml_only: bool = False, flag_sets=None, max_atoms: int = 12,
                 extra_chars=(), light: bool = False):
    ver = draw(st.sampled_from(['1.0', '1.1']))
    flags = draw(st.sampled_from(flag_sets or FLAG_SETS)) if xpath else ''
    special = draw(st.integers(0, 99)) if xpath and 'x' not in flags else 99
    if special < 5:
        # many groups: multi-digit back-references (\\10 vs \\1 followed by '0')
        ng = draw(st.integers(9, 12))
        letters = 'abcdefghijkl'
        items = [['grp', ['seq', [['lit', letters[k]]]]] for k in range(ng)]
        items.append(['ref', draw(st.sampled_from([ng, ng, ng - 1, 1, 2, min(ng, 10), draw(st.integers(1, ng))]))])
        if draw(st.booleans()):
            items.append(['lit', draw(st.sampled_from('0123'))])
        ast = ['seq', items]
    elif special < 15 and 'm' in flags:
        # line anchors next to things that match a newline
        nl = draw(st.sampled_from([['esc', 'n'], ['lit', '\n'], ['cls', False, [['mce', 's']], None],
                                   ['cls', True, [['c', 'a']], None], ['cat', 'Cc', False]]))
        a = ['lit', draw(st.sampled_from('ab'))]
        ast = draw(st.sampled_from([
            ['seq', [nl, ['bol']]], ['seq', [['bol'], ['eol']]], ['seq', [a, nl, ['bol']]], ['seq', [a, ['eol'], nl, ['bol']]],
            ['seq', [['eol'], nl, ['bol'], a]], ['seq', [nl, ['bol'], ['rep', a, 0, None, False, '*']]],
            ['seq', [['bol'], ['rep', a, 0, None, False, '*'], ['eol']]], ['seq', [nl, ['eol']]],
            ['alt', [['seq', [a, a, ['eol']]], ['seq', [nl, ['bol'], ['eol']]]]],
        ]))
    else:
        state = _State(xpath, flags, draw(st.integers(1, max_atoms)), light)
        ast = _gen_regexp(draw, state, 0)
    subs = draw(subjects_for(ast, xpath, flags, nsubj, xml_only, extra_chars))
    return {'ast': ast, 'flags': flags, 'xpath': xpath, 'ver': ver, 'subjects': subs}


@st.composite
def class_case(draw):
    """a single character class expression judged on a probe universe (XSD mode, whole-string match)"""
    ver = draw(st.sampled_from(['1.0', '1.1']))
    return {'ast': _gen_cls(draw), 'ver': ver, 'icase': draw(st.integers(0, 9)) < 2}


# --------------------------------------------------------------------------
# invalid patterns: recipes that are invalid under XSD 1.0, XSD 1.1 and F&O alike
# --------------------------------------------------------------------------
_BAD_ESC_CHARS = list('eEaAzZbBqQuUxXyYmMgGhHjJkKlLoOvVfF_0') + [' ', '~', '&', '#', '%', '@', '!', '/', '"', '=', '<', '>',
                                                                 ',', ';', ':', "'", '\xe9']
_ATOMS = ['a', 'b', '\\d', '[a-c]', '(a)', '.', '\\p{L}', 'x']


@st.composite
def invalid_case(draw):
    xpath = draw(st.booleans())
    ver = draw(st.sampled_from(['1.0', '1.1']))

    def valid_text(max_atoms=3):
        state = _State(xpath, '', draw(st.integers(0, max_atoms)), light=True)
        if state.budget == 0:
            return ''
        ast = _gen_regexp(draw, state, 0)
        return '' if slow_algebra(ast) else render(ast, xpath)

    P = valid_text()
    S = valid_text()
    if '|' in P:
        P = ('(?:' if xpath else '(') + P + ')'      # non-capturing: keeps the back-reference numbers of P valid
    if '|' in S:
        S = ('(?:' if xpath else '(') + S + ')'
    A = draw(st.sampled_from(_ATOMS))
    recipes = ['unbalanced-open', 'unbalanced-close', 'unterminated-class', 'stray-close-bracket', 'empty-class',
               'bad-escape-alnum', 'bad-escape-punct', 'bad-escape-in-class', 'trailing-backslash', 'double-quantifier', 'leading-quantifier',
               'inline-flag-group', 'backref-in-class', 'reversed-range', 'unknown-category', 'malformed-category',
               'class-unescaped-open-bracket', 'range-to-class-escape', 'junk-after-subtraction',
               'unterminated-subtraction', 'quantity-malformed', 'quantity-nonascii-digit']
    if xpath:
        recipes += ['backref-missing-group', 'backref-open-group', 'triple-question-mark', 'backref-zero']
    else:
        recipes += ['noncapturing-group-xsd', 'lazy-quantifier-xsd', 'backref-xsd']
    if xpath or ver == '1.1':
        recipes += ['quantity-no-min', 'unescaped-brace']
    rc = draw(st.sampled_from(recipes))
    ngroups = 0
    try:
        ngroups = R.parse(P, xpath=xpath, xsd_version=ver).ngroups
    except R.RefRegexError:
        pass
    q1 = draw(st.sampled_from(['*', '+', '?', '{2}', '{1,2}', '{0,}']))
    if rc == 'unbalanced-open':
        text = P + '(' + S
    elif rc == 'unbalanced-close':
        text = P + ')' + S
    elif rc == 'unterminated-class':
        text = P + draw(st.sampled_from(['[a', '[', '[^', '[a-', '[a-z', '[\\d']))
    elif rc == 'stray-close-bracket':
        text = P + ']' + S
    elif rc == 'empty-class':
        text = P + draw(st.sampled_from(['[]', '[^]'])) + S
    elif rc == 'bad-escape-alnum':
        c = draw(st.sampled_from([c for c in _BAD_ESC_CHARS if c.isalnum() or c == '_']
                                 + ([] if xpath else list('123456789'))))
        text = P + '\\' + c + S
    elif rc == 'bad-escape-punct':
        c = draw(st.sampled_from([c for c in _BAD_ESC_CHARS if not (c.isalnum() or c == '_')]))
        text = P + '\\' + c + S
    elif rc == 'bad-escape-in-class':
        c = draw(st.sampled_from(_BAD_ESC_CHARS + list('123456789')))
        text = P + '[' + draw(st.sampled_from(['', 'a', '^'])) + '\\' + c + draw(st.sampled_from(['', 'b'])) + ']' + S
    elif rc == 'trailing-backslash':
        text = P + S + '\\'
    elif rc == 'double-quantifier':
        if xpath:
            q2 = draw(st.sampled_from(['*', '+', '{3}', '?*', '?+', '??', '?{2}']))
        else:
            q2 = draw(st.sampled_from(['*', '+', '{3}', '?']))
        text = P + A + q1 + q2 + S
    elif rc == 'leading-quantifier':
        form = draw(st.integers(0, 3))
        if form == 0:
            text = q1 + A + S
        elif form == 1:
            text = P + '(' + q1 + A + ')' + S
        elif form == 2:
            text = P + A + '|' + q1 + A
        else:
            text = P + '(' + A + '|' + q1 + ')' + S
    elif rc == 'inline-flag-group':
        text = P + draw(st.sampled_from(['(?i)', '(?=a)', '(?!a)', '(?<n>a)', '(?P<n>a)', '(?#c)', '(?i:a)', '(?<=a)',
                                         '(?s)a', '(?x) a', '(?>a)', '(?)', '(?'])) + S
    elif rc == 'backref-in-class':
        text = P + '(a)' + draw(st.sampled_from(['[\\1]', '[a\\1]', '[^\\1]', '[\\1-z]'])) + S
    elif rc == 'reversed-range':
        text = P + draw(st.sampled_from(['[z-a]', '[9-0]', '[b-a]', '[^z-a]', '[ab-a]', '[a-c-[z-y]]'])) + S
    elif rc == 'unknown-category':
        text = P + draw(st.sampled_from(['\\p{Xx}', '\\p{Ab}', '\\p{l}', '\\p{LU}', '\\P{Q}', '\\p{Letter}',
                                         '[\\p{Xx}]', '[a\\P{Ab}]', '\\p{Lu }', '\\p{L-u}'])) + S
    elif rc == 'malformed-category':
        text = P + draw(st.sampled_from(['\\pL', '\\p{L', '\\p{}', '\\p', '\\P', '\\p(L)', '[\\pL]', '[\\p{L]',
                                         '\\p}L{'])) + draw(st.sampled_from(['', 'a', 'b+']))
    elif rc == 'class-unescaped-open-bracket':
        text = P + draw(st.sampled_from(['[a[b]', '[[]', '[[a]', '[a[]', '[^[]', '[a-z[]'])) + S
    elif rc == 'range-to-class-escape':
        text = P + draw(st.sampled_from(['[a-\\d]', '[a-\\p{L}]', '[+-\\s]', '[^a-\\w]', '[a-\\D]'])) + S
    elif rc == 'junk-after-subtraction':
        text = P + draw(st.sampled_from(['[a-[b]c]', '[a-z-[b]-[c]]', '[a-[b]\\d]', '[^a-[b] ]'])) + S
    elif rc == 'unterminated-subtraction':
        text = P + draw(st.sampled_from(['[a-[b]', '[a-z-[aeiou]', '[^a-[b]', '[\\w-[\\d]']))
    elif rc == 'quantity-malformed':
        text = P + A + draw(st.sampled_from(['{1', '{1,2', '{x}', '{1;2}', '{-1}', '{1,2,3}', '{1,x}', '{', '{}', '{1 }',
                                             '{ 1}', '{1, 2}', '{+1}', '{1.0}'])) + draw(st.sampled_from(['', 'a']))
    elif rc == 'quantity-nonascii-digit':
        text = P + A + draw(st.sampled_from(['{\u0661}', '{1,\u0662}', '{\u0661,}', '{\uff11}'])) + S
    elif rc == 'backref-missing-group':
        text = P + '\\' + str(min(ngroups + draw(st.integers(1, 2)), 9)) + S if ngroups < 8 else P + ')'
    elif rc == 'backref-open-group':
        text = (P + '(' + A + '\\' + str(ngroups + 1) + ')' + S) if ngroups < 9 else P + ')'
    elif rc == 'triple-question-mark':
        text = P + A + draw(st.sampled_from(['???', '*??', '+??', '{2}??'])) + S
    elif rc == 'backref-zero':
        text = P + '(a)\\0' + S
    elif rc == 'noncapturing-group-xsd':
        text = P + '(?:' + A + ')' + S
    elif rc == 'lazy-quantifier-xsd':
        text = P + A + draw(st.sampled_from(['*?', '+?', '??', '{2}?', '{1,2}?'])) + S
    elif rc == 'backref-xsd':
        text = P + '(a)\\1' + S
    elif rc == 'quantity-no-min':
        text = P + A + draw(st.sampled_from(['{,2}', '{,}', '{,0}'])) + S
    elif rc == 'unescaped-brace':
        text = P + draw(st.sampled_from(['}', 'a}', '{a}', 'a{b'])) + S
    else:
        raise AssertionError(rc)
    return {'recipe': rc, 'text': text, 'xpath': xpath, 'ver': ver}


@st.composite
def badflag_case(draw):
    good = draw(st.sampled_from(['', 's', 'i', 'mx']))
    bad = draw(st.sampled_from(['k', 'X', 'S', 'I', 'g', ' ', '-', '1', 'Q', 'u', '\xe9', ',']))
    k = draw(st.integers(0, len(good)))
    return {'recipe': 'bad-flag', 'flags': good[:k] + bad + good[k:], 'text': draw(st.sampled_from(['a', 'a+', '[a-c]', '\\d'])),
            'subject': draw(st.sampled_from(['', 'a', 'xa']))}
