"""Generator of programs with function items (C16).  AST: see vp/ref/interp.py.

Kinds of expressions: 'int' (exactly one xs:integer), 'seq' (0..6 integers), 'str' (one string), 'bool',
function kinds 'f0' ()->int, 'f1' int->int, 'f2' (int,int)->int, 'p1' int->boolean, 'g1' seq->int,
's1' str->str, 'fs' (a sequence of 2-4 'f1' items).

`hazard=False` (sub-check `program`): no function expression is ever evaluated twice while an item of
an earlier evaluation is still callable (function expressions only in let clauses at the top of the
program, as immediately applied functions, or as HOF arguments) - the known closure-on-token defect is
avoided by construction.  `hazard=True` programs are produced by `closure_program`.
"""
from __future__ import annotations

from hypothesis import strategies as st

from vp.gen.c08_gen import _upto, _sf

SMALL = [0, 1, 2, 3, 4, 5, 7, 10, -1, -2, -3]
STRS = ['a', 'b', 'ab', 'B', '', 'abc', 'x y']
_CMP = ['eq', 'ne', 'lt', 'le', 'gt', 'ge']
T_INT, T_SEQ, T_STR, T_BOOL = 'xs:integer', 'xs:integer*', 'xs:string', 'xs:boolean'


class FGen:
    def __init__(self, draw, version='31', max_depth=3, typed=False, reuse=False):
        self.draw, self.v, self.max_depth, self.typed, self.reuse = draw, version, max_depth, typed, reuse
        self.nvar = 0
        self.banned = []

    def k(self, n=99):
        return self.draw(_upto(n))

    def fresh(self, p='v', avoid=()):
        """a new variable name; in reuse mode parameters come from a tiny pool so that inner functions
        shadow outer parameters / variables (lexical scoping must sort that out)"""
        if self.reuse and p in ('p', 'v', 'f', 'b'):
            # parameters, for variables and let variables share one tiny pool: a call binds a name that is also
            # a variable where the call is made (the caller's binding must be untouched after the call)
            pool = [n for n in ('x', 'y', 'z') if n not in avoid and n not in self.banned]
            if pool:
                return _sf(self.draw, pool)
        self.nvar += 1
        return f'{p}{self.nvar}'

    def zero(self):
        """$zero of a fold with a sequence-valued accumulator: empty, one item, or SEVERAL items"""
        k = self.k(9)
        if k < 2:
            return ['empty']
        if k < 4:
            return self.lit_int()
        return ['seq', *[self.lit_int() for _ in range(2 + self.draw(_upto(2)))]]

    def range_expr(self, nm, d, sc):
        """the range expression of `for $nm in ...`: $nm must not occur in it at all, not even as a parameter
        (elementpath rejects that statically: known finding C08/range-mentions-own-name)"""
        self.banned.append(nm)
        e = self.seq(d + 1, tuple(v for v in sc if v[0] != nm))
        self.banned.pop()
        return e

    def vars_of(self, sc, kind):
        """names whose INNERMOST binding has the kind"""
        last = {}
        for nm, kd in sc:
            last[nm] = kd
        return [nm for nm, kd in last.items() if kd == kind]

    def param(self, name, typ):
        return [name, typ] if self.typed and self.k(9) < 5 else name

    # ---- plain values ----------------------------------------------------------
    def lit_int(self):
        return ['int', _sf(self.draw, SMALL)]

    def lit_seq(self, min_len=0):
        n = max(min_len, _sf(self.draw, [0, 1, 2, 3, 3, 4, 5, 6]))
        if n == 0:
            return ['empty']
        if self.k(9) < 2:
            lo = _sf(self.draw, [1, 0, 2, -1])
            return ['to', ['int', lo], ['int', lo + n - 1]]
        items = [self.lit_int() for _ in range(n)]
        if n >= 2 and self.k(9) < 5:
            items[self.draw(_upto(n - 1))] = items[self.draw(_upto(n - 1))]
        return ['seq', *items] if n > 1 else items[0]

    def int_(self, d, sc):
        k = self.k()
        vs = self.vars_of(sc, 'int')
        if d >= self.max_depth or k < 18:
            if vs and self.k() < 65:
                return ['var', _sf(self.draw, vs)]
            return self.lit_int()
        if k < 30:
            return ['arith', _sf(self.draw, ['+', '-', '*', '+']), self.int_(d + 1, sc), self.int_(d + 1, sc)]
        if k < 48:
            return ['dyn', self.fun('f1', d + 1, sc), [self.int_(d + 1, sc)]]
        if k < 58:
            return ['dyn', self.fun('f2', d + 1, sc), [self.int_(d + 1, sc), self.int_(d + 1, sc)]]
        if k < 60:
            return ['dyn', self.fun('f0', d + 1, sc), []]
        if k < 62:      # a direct call of a 3-ary inline function (argument order matters)
            a = self.fresh('p')
            b = self.fresh('p', (a,))
            c = self.fresh('p', (a, b))
            body = ['arith', '+', ['arith', '*', ['var', a], ['int', 100]],
                    ['arith', '-', ['arith', '*', ['var', b], ['int', 10]], ['var', c]]]
            f3 = ['inline', [self.param(a, T_INT), b, self.param(c, T_INT)], body]
            args = [self.int_(d + 1, sc) for _ in range(3)]
            if self.v == '31' and self.k(2) == 0:
                return ['call', 'apply', [f3, ['array', args]]]
            return ['dyn', f3, args]
        if k < 66:      # multi-item $zero, the callback reduces it to one integer
            a = self.fresh('p')
            b = self.fresh('p', (a,))
            fn = _sf(self.draw, ['fold-left', 'fold-right'])
            acc, it = (a, b) if fn == 'fold-left' else (b, a)
            body = ['arith', '+', ['arith', '*', ['call', 'count', [['var', acc]]], ['int', 10]],
                    ['arith', '+', ['call', 'sum', [['var', acc]]], ['var', it]]]
            # sum(): exactly one integer also when the input is empty and the fold returns $zero itself
            return ['call', 'sum', [['call', fn, [self.seq(d + 1, sc), self.zero(), ['inline', [a, b], body]]]]]
        if k < 72:
            fn = _sf(self.draw, ['fold-left', 'fold-right'])
            return ['call', fn, [self.seq(d + 1, sc), self.int_(d + 1, sc), self.fun('f2', d + 1, sc)]]
        if k < 78:
            return ['dyn', self.fun('g1', d + 1, sc), [self.seq(d + 1, sc)]]
        if k < 83:
            return ['call', _sf(self.draw, ['count', 'sum']), [self.seq(d + 1, sc)]]
        if k < 88:
            return ['if', self.bool_(d + 1, sc), self.int_(d + 1, sc), self.int_(d + 1, sc)]
        if k < 92 and self.v == '31':
            return ['call', 'apply', [self.fun('f2', d + 1, sc), ['array', [self.int_(d + 1, sc), self.int_(d + 1, sc)]]]]
        if k < 96:
            return ['call', 'string-length', [self.str_(d + 1, sc)]]
        fss = self.vars_of(sc, 'fs')
        if fss:
            return ['dyn', ['filter', ['var', _sf(self.draw, fss)], ['int', _sf(self.draw, [1, 2, 1])]], [self.int_(d + 1, sc)]]
        return self.lit_int()

    def seq(self, d, sc):
        k = self.k()
        vs = self.vars_of(sc, 'seq')
        if d >= self.max_depth or k < 18:
            if vs and self.k() < 60:
                return ['var', _sf(self.draw, vs)]
            return self.lit_seq()
        if k < 34:
            return ['call', 'for-each', [self.seq(d + 1, sc), self.fun('f1', d + 1, sc)]]
        if k < 46:
            return ['call', 'filter', [self.seq(d + 1, sc), self.fun('p1', d + 1, sc)]]
        if k < 56:
            return ['call', 'for-each-pair', [self.seq(d + 1, sc), self.seq(d + 1, sc), self.fun('f2', d + 1, sc)]]
        if k < 66 and self.v == '31':
            kk = self.k(9)
            if kk < 3:
                return ['call', 'sort', [self.seq(d + 1, sc)]]
            return ['call', 'sort', [self.seq(d + 1, sc), ['empty'], self.fun('f1', d + 1, sc)]]
        if k < 69:
            nm = self.fresh()
            return ['for', [[nm, self.range_expr(nm, d, sc)]], self.int_(d + 1, sc + ((nm, 'int'),))]
        if k < 72:      # callbacks returning sequences (flattening), sequence-valued accumulators
            kk = self.k(5)
            a = self.fresh('p')
            b = self.fresh('p', (a,))
            A, B = ['var', a], ['var', b]
            if kk == 0:
                m1 = ['inline', [a], _sf(self.draw, [['seq', A, A], ['seq', A, self.int_(d + 2, sc + ((a, 'int'),))], ['empty'],
                                                     ['to', ['int', 1], ['arith', 'mod', ['call', 'abs', [A]], ['int', 4]]]])]
                return ['call', 'for-each', [self.seq(d + 1, sc), m1]]
            if kk == 1:
                acc = _sf(self.draw, [['seq', B, A], ['seq', A, B], ['seq', A, B, B],
                                      ['if', ['vcmp', 'gt', B, ['int', 2]], ['seq', A, B], A]])
                return ['call', 'fold-left', [self.seq(d + 1, sc), self.zero(), ['inline', [a, b], acc]]]
            if kk == 2:
                acc = _sf(self.draw, [['seq', B, A], ['seq', A, B], ['if', ['vcmp', 'lt', A, ['int', 3]], ['seq', A, B], B]])
                return ['call', 'fold-right', [self.seq(d + 1, sc), self.zero(), ['inline', [a, b], acc]]]
            if kk == 3:
                return ['call', 'for-each-pair', [self.seq(d + 1, sc), self.seq(d + 1, sc), ['inline', [a, b], ['seq', B, A]]]]
            if kk == 4:     # named partial with two placeholders, called with both arguments
                return ['dyn', ['call', 'subsequence', [['?'], ['?']]], [self.seq(d + 1, sc), _sf(self.draw, [['int', 1], ['int', 2], ['int', 3]])]]
            return ['dyn', ['call', 'insert-before', [['?'], ['int', _sf(self.draw, [1, 2])], ['?']]], [self.seq(d + 1, sc), self.seq(d + 1, sc)]]
        if k < 74:
            nm = self.fresh()
            return ['for', [[nm, self.range_expr(nm, d, sc)]], self.int_(d + 1, sc + ((nm, 'int'),))]
        if k < 80:
            f = self.fun('f1', d + 1, sc)
            return ['map', self.seq(d + 1, sc), ['dyn', f, [['ctx']]]]
        if k < 85:
            return ['seq', self.int_(d + 1, sc), self.int_(d + 1, sc)]
        if k < 90:
            return ['call', _sf(self.draw, ['reverse', 'tail']), [self.seq(d + 1, sc)]]
        fss = self.vars_of(sc, 'fs')
        if fss and k < 97:
            fs = ['var', _sf(self.draw, fss)]
            if self.k(1):
                return ['map', fs, ['dyn', ['ctx'], [self.int_(d + 1, sc)]]]
            nm = self.fresh('f')
            if fs[1] == nm:
                nm = 'f%d' % self.nvar
            return ['for', [[nm, fs]], ['dyn', ['var', nm], [self.int_(d + 1, sc)]]]
        return self.lit_seq()

    def str_(self, d, sc):
        k = self.k()
        vs = self.vars_of(sc, 'str')
        if d >= self.max_depth or k < 40:
            if vs and self.k() < 60:
                return ['var', _sf(self.draw, vs)]
            return ['str', _sf(self.draw, STRS)]
        if k < 65:
            return ['dyn', self.fun('s1', d + 1, sc), [self.str_(d + 1, sc)]]
        if k < 72:      # named partials with two placeholders (static call and dynamic on a reference)
            sep = ['str', _sf(self.draw, ['-', '', '+'])]
            if self.k(1):
                p = ['call', 'concat', [['?'], sep, ['?']]]
            else:
                p = ['dyn', ['ref', 'concat', 3], [['?'], sep, ['?']]]
            return ['dyn', p, [self.str_(d + 1, sc), self.str_(d + 1, sc)]]
        if k < 80:
            return ['call', 'concat', [self.str_(d + 1, sc), self.str_(d + 1, sc)]]
        if k < 90:
            return ['call', 'string-join', [['call', 'for-each', [self.seq(d + 1, sc), ['ref', 'string', 1]]],
                                            ['str', _sf(self.draw, ['', ',', '-'])]]]
        return ['call', 'fold-left', [self.seq(d + 1, sc), ['str', ''],
                                      ['inline', ['a', 'b'], ['call', 'concat', [['var', 'a'], ['str', '.'], ['var', 'b']]]]]]

    def bool_(self, d, sc):
        k = self.k()
        if d >= self.max_depth or k < 50:
            return ['vcmp', _sf(self.draw, _CMP), self.int_(d + 1, sc), self.int_(d + 1, sc)]
        if k < 70:
            return ['dyn', self.fun('p1', d + 1, sc), [self.int_(d + 1, sc)]]
        if k < 80:
            return ['call', _sf(self.draw, ['empty', 'exists']), [self.seq(d + 1, sc)]]
        if k < 90:
            return [_sf(self.draw, ['and', 'or']), self.bool_(d + 1, sc), self.bool_(d + 1, sc)]
        return ['call', 'not', [self.bool_(d + 1, sc)]]

    # ---- function expressions ---------------------------------------------------
    def capture(self, body, sc):
        """make an integer body use a variable of the enclosing scope (a real closure) half of the time"""
        outer = self.vars_of(sc, 'int')
        if outer and self.k(9) < 5:
            return ['arith', _sf(self.draw, ['+', '-', '*']), body, ['var', _sf(self.draw, outer)]]
        return body

    def inline(self, kind, d, sc):
        """an inline function of the kind; its body may use the variables in scope (closure)"""
        if kind == 'f0':
            return ['inline', [], self.capture(self.int_(d + 1, sc), sc)] + ([T_INT] if self.typed and self.k(1) else [])
        if kind in ('f1', 'p1'):
            p = self.fresh('p')
            body = (self.int_ if kind == 'f1' else self.bool_)(d + 1, sc + ((p, 'int'),))
            if kind == 'f1':
                body = self.capture(body, sc)
            out = ['inline', [self.param(p, T_INT)], body]
            if self.typed and self.k(1):
                out.append(T_INT if kind == 'f1' else T_BOOL)
            return out
        if kind == 'f2':
            p = self.fresh('p')
            q = self.fresh('p', (p,))
            return ['inline', [self.param(p, T_INT), self.param(q, T_INT)],
                    self.capture(self.int_(d + 1, sc + ((p, 'int'), (q, 'int'))), sc)]
        if kind == 'g1':
            p = self.fresh('p')
            return ['inline', [self.param(p, T_SEQ)], self.int_(d + 1, sc + ((p, 'seq'),))]
        if kind == 's1':
            p = self.fresh('p')
            return ['inline', [self.param(p, T_STR)], self.str_(d + 1, sc + ((p, 'str'),))]
        raise ValueError(kind)

    def fun(self, kind, d, sc):
        k = self.k()
        vs = self.vars_of(sc, kind)
        if vs and (d >= self.max_depth or k < 40):
            return ['var', _sf(self.draw, vs)]
        if d >= self.max_depth + 1:
            return self.leaf_fun(kind)
        if k < 62:
            return self.inline(kind, d, sc)
        if k < 74:
            return self.leaf_fun(kind)
        # partial applications
        if kind == 'f1':
            kk = self.k(9)
            if kk < 4:
                f2 = self.fun('f2', d + 1, sc)
                args = [self.int_(d + 1, sc), ['?']]
                if self.k(1):
                    args.reverse()
                return ['dyn', f2, args]
            if kk < 6:      # partial of a 3-ary inline
                a = self.fresh('p')
                b = self.fresh('p', (a,))
                c = self.fresh('p', (a, b))
                body = ['arith', '+', ['arith', '*', ['var', a], ['int', 100]],
                        ['arith', '+', ['arith', '*', ['var', b], ['int', 10]], ['var', c]]]
                args = [self.int_(d + 1, sc), self.int_(d + 1, sc)]
                args.insert(self.draw(_upto(2)), ['?'])
                return ['dyn', ['inline', [a, b, c], body], args]
            if kk < 8:      # partial of a partial
                a = self.fresh('p')
                b = self.fresh('p', (a,))
                c = self.fresh('p', (a, b))
                body = ['arith', '-', ['arith', '*', ['var', a], ['var', b]], ['var', c]]
                f3 = ['inline', [a, b, c], body]
                pat = _sf(self.draw, [[0, 1], [1, 2], [0, 2]])
                first = [['?'], ['?'], ['?']]
                fixed = [i for i in range(3) if i not in pat]
                first[fixed[0]] = self.int_(d + 1, sc)
                second = [self.int_(d + 1, sc), ['?']]
                if self.k(1):
                    second.reverse()
                return ['dyn', ['dyn', f3, first], second]
            if kk < 9:      # currying: a function returning a function, applied once
                n_ = self.fresh('p')
                x_ = self.fresh('p', (n_,))
                inner = ['inline', [x_], self.int_(d + 2, sc + ((n_, 'int'), (x_, 'int')))]
                return ['dyn', ['inline', [n_], inner], [self.int_(d + 1, sc)]]
            # composition
            f, g = self.fun('f1', d + 1, sc), self.fun('f1', d + 1, sc)
            p = self.fresh('p')
            return ['inline', [p], ['dyn', f, [['dyn', g, [['var', p]]]]]]
        if kind == 'p1':
            a = self.fresh('p')
            b = self.fresh('p', (a,))
            f = ['inline', [a, b], ['vcmp', _sf(self.draw, _CMP), ['var', a], ['var', b]]]
            args = [self.int_(d + 1, sc), ['?']]
            if self.k(1):
                args.reverse()
            return ['dyn', f, args]
        if kind == 'g1':
            kk = self.k(9)
            if kk < 5:
                # static-call partial application: only closed fixed arguments here - the known late-binding defect
                # of this syntax (C16/shared-token/partial-static) is exercised by closure_program instead
                return ['call', 'fold-left', [['?'], self.lit_int(), self.leaf_fun('f2')]]
            return ['inline', [self.fresh('p')], self.int_(d + 1, sc)]
        if kind == 's1':
            args = [['str', _sf(self.draw, STRS)], ['?']]
            if self.k(1):
                args.reverse()
            return ['call', 'concat', args]
        return self.inline(kind, d, sc)

    def leaf_fun(self, kind):
        if kind == 'f1':
            return ['ref', 'abs', 1]
        if kind == 'g1':
            return ['ref', _sf(self.draw, ['count', 'sum', 'count']), 1]
        if kind == 's1':
            return ['ref', _sf(self.draw, ['upper-case', 'lower-case']), 1]
        if kind == 'f0':
            return ['inline', [], self.lit_int()]
        if kind == 'f2':
            p = self.fresh('p')
            q = self.fresh('p', (p,))
            return ['inline', [p, q], ['arith', _sf(self.draw, ['+', '-', '*']), ['var', p], ['var', q]]]
        if kind == 'p1':
            p = self.fresh('p')
            return ['inline', [p], ['vcmp', _sf(self.draw, _CMP), ['var', p], self.lit_int()]]
        raise ValueError(kind)


# --------------------------------------------------------------------------
# programs
# --------------------------------------------------------------------------
@st.composite
def program(draw, version='31'):
    """hazard-free program: let-bound values and functions at the top, then a result expression"""
    g = FGen(draw, version, max_depth=2 + draw(_upto(1)), typed=draw(_upto(3)) == 0, reuse=draw(_upto(2)) == 0)
    sc = ()
    binds = []
    nb = draw(_upto(5))
    for j in range(nb):
        kind = _sf(draw, ['int', 'seq', 'f1', 'f1', 'f2', 'p1', 'f0', 'g1', 's1', 'str'])
        if j == 0 and nb > 1:
            kind = 'int'
        nm = g.fresh('b')
        if kind == 'int':
            e = g.int_(1, sc)
        elif kind == 'seq':
            e = g.seq(1, sc)
        elif kind == 'str':
            e = g.str_(1, sc)
        else:
            e = g.fun(kind, 1, sc)
        binds.append([nm, e])
        sc = sc + ((nm, kind),)
    res_kind = _sf(draw, ['int', 'int', 'seq', 'seq', 'seq', 'str', 'bool', 'multi'])
    if res_kind == 'int':
        body = g.int_(0, sc)
    elif res_kind == 'seq':
        body = g.seq(0, sc)
    elif res_kind == 'str':
        body = g.str_(0, sc)
    elif res_kind == 'bool':
        body = g.bool_(0, sc)
    else:
        # the same items called several times with different arguments, in generated order
        fs = g.vars_of(sc, 'f1')
        calls = []
        for _ in range(2 + draw(_upto(3))):
            if fs and draw(_upto(9)) < 8:
                f = ['var', _sf(draw, fs)]
                arg = g.int_(2, sc)
                if draw(_upto(9)) < 3:
                    arg = ['dyn', ['var', _sf(draw, fs)], [arg]]      # nested / re-entrant call
                calls.append(['dyn', f, [arg]])
            else:
                calls.append(g.int_(1, sc))
        body = ['seq', *calls]
    return ['let', binds, body] if binds else body


@st.composite
def closure_program(draw, version='31'):
    """programs that evaluate ONE function expression several times and call the items later"""
    g = FGen(draw, version, max_depth=2)
    pat = _sf(draw, ['for-list', 'for-list', 'for-map', 'curry', 'for-partial', 'static-partial', 'nested-for', 'let-in-for',
                     'reentrant', 'reentrant', 'hof-closures', 'compose-fold', 'focus-ref',
                     'empty-closure', 'empty-closure', 'empty-closure', 'focus-partial', 'focus-partial', 'focus-partial']
             + (['callable'] * 5 if version == '31' else []) + ['factory-via-ref'] * 4 + ['typed-hof-param'] * 4)
    if pat == 'typed-hof-param':
        return {'pattern': pat, 'ast': typed_hof_param_program(draw, g)}
    if pat == 'factory-via-ref':
        return {'pattern': pat, 'ast': factory_via_ref_program(draw, g)}
    if pat == 'focus-ref':
        # references to context-dependent functions capture the focus of each evaluation
        name = _sf(draw, ['string', 'position', 'last', 'string'])
        S = g.lit_seq(min_len=2)
        if draw(_upto(2)) == 0:
            S = ['filter', S, ['vcmp', _sf(draw, ['ge', 'ne', 'lt']), ['ctx'], g.lit_int()]]
        fs = ['map', S, ['ref', name, 0]]
        if draw(_upto(1)):
            return {'pattern': pat, 'ast': ['map', fs, ['dyn', ['ctx'], []]]}
        calls = [['dyn', ['filter', ['var', 'fs'], ['int', 1 + draw(_upto(2))]], []] for _ in range(2 + draw(_upto(2)))]
        return {'pattern': pat, 'ast': ['let', [['fs', fs]], ['seq', *calls]]}
    if pat == 'callable':
        return {'pattern': pat, 'ast': callable_program(draw, g)}
    if pat == 'empty-closure':
        return {'pattern': pat, 'ast': empty_closure_program(draw, g)}
    if pat == 'focus-partial':
        return {'pattern': pat, 'ast': focus_partial_program(draw, g)}
    if pat == 'hof-closures':
        # closures made by a HOF callback: for-each(S, function($i) { function($x) { E($i, $x) } })
        inner = ['inline', ['x'], ['arith', '+', ['arith', '*', ['var', 'i'], ['int', 100]],
                                   g.int_(1, (('i', 'int'), ('x', 'int')))]]
        make = ['call', 'for-each', [g.lit_seq(min_len=2), ['inline', ['i'], inner]]]
        calls = [['dyn', ['filter', ['var', 'fs'], ['int', 1 + draw(_upto(2))]], [g.lit_int()]] for _ in range(2 + draw(_upto(2)))]
        return {'pattern': pat, 'ast': ['let', [['fs', make]], ['seq', *calls]]}
    if pat == 'compose-fold':
        # a chain of closures of ONE function expression, each capturing the previous one
        step = ['inline', ['f', 'i'], ['inline', ['x'], ['arith', _sf(draw, ['+', '-']),
                                                         ['arith', '*', ['dyn', ['var', 'f'], [['var', 'x']]], ['int', _sf(draw, [1, 2, 10])]],
                                                         ['var', 'i']]]]
        chain = ['call', _sf(draw, ['fold-left', 'fold-left', 'fold-right-swapped']), [g.lit_seq(min_len=2), ['inline', ['x'], ['var', 'x']], step]]
        if chain[1] == 'fold-right-swapped':
            step2 = ['inline', ['i', 'f'], step[2]]
            chain = ['call', 'fold-right', [chain[2][0], chain[2][1], step2]]
        return {'pattern': pat, 'ast': ['let', [['c', chain]], ['seq', ['dyn', ['var', 'c'], [g.lit_int()]],
                                                                  ['dyn', ['var', 'c'], [g.lit_int()]]]]}
    if pat == 'reentrant':
        return {'pattern': pat, 'ast': reentrant_program(draw, g)}
    src = g.lit_seq(min_len=2)
    i = 'i'

    def dep(e, var='i'):
        # make the result depend on the captured variable whatever the generated body is
        return ['arith', '+', ['arith', '*', ['var', var], ['int', 100]], e]
    if pat == 'for-map':
        # (for $i in S return function() { E($i) }) ! .()
        return {'pattern': pat, 'ast': ['map', ['for', [[i, src]], ['inline', [], dep(g.int_(1, ((i, 'int'),)))]],
                                        ['dyn', ['ctx'], []]]}
    if pat == 'for-list':
        x = 'x'
        f = ['inline', [x], dep(g.int_(1, ((i, 'int'), (x, 'int'))))]
        n_calls = 2 + draw(_upto(3))
        calls = [['dyn', ['filter', ['var', 'fs'], ['int', 1 + draw(_upto(2))]], [g.lit_int()]] for _ in range(n_calls)]
        return {'pattern': pat, 'ast': ['let', [['fs', ['for', [[i, src]], f]]], ['seq', *calls]]}
    if pat == 'curry':
        n_, x = 'n', 'x'
        mk = ['inline', [n_], ['inline', [x], dep(g.int_(1, ((n_, 'int'), (x, 'int'))), n_)]]
        a1, a2 = g.lit_int(), g.lit_int()
        order = [_sf(draw, ['a', 'b']) for _ in range(2 + draw(_upto(2)))]
        calls = [['dyn', ['var', o], [g.lit_int()]] for o in order]
        return {'pattern': pat, 'ast': ['let', [['mk', mk], ['a', ['dyn', ['var', 'mk'], [a1]]],
                                                ['b', ['dyn', ['var', 'mk'], [a2]]]], ['seq', *calls]]}
    if pat == 'for-partial':
        p, q = 'p', 'q'
        f2 = ['inline', [p, q], ['arith', '+', ['arith', '*', ['var', p], ['int', 10]],
                                 ['arith', '-', ['var', q], g.int_(1, ((p, 'int'), (q, 'int')))]]]
        args = [['var', i], ['?']]
        if draw(_upto(1)):
            args.reverse()
        calls = [['dyn', ['filter', ['var', 'fs'], ['int', 1 + draw(_upto(1))]], [g.lit_int()]]
                 for _ in range(2 + draw(_upto(2)))]
        return {'pattern': pat, 'ast': ['let', [['f', f2], ['fs', ['for', [[i, src]], ['dyn', ['var', 'f'], args]]]],
                                        ['seq', *calls]]}
    if pat == 'static-partial':
        # (for $i in S return concat($i, ?)) ! .("x")   /  subsequence(?, $i)
        if draw(_upto(1)):
            part = ['call', 'concat', [['var', i], ['?']]]
            arg = ['str', _sf(draw, STRS)]
        else:
            part = ['call', 'subsequence', [['?'], ['var', i]]]
            arg = g.lit_seq(min_len=2)
        return {'pattern': pat, 'ast': ['map', ['for', [[i, src]], part], ['dyn', ['ctx'], [arg]]]}
    if pat == 'nested-for':
        x = 'x'
        f = ['inline', [x], ['arith', '+', ['arith', '*', ['var', i], ['int', 10]], ['arith', '+', ['var', 'j'], ['var', x]]]]
        return {'pattern': pat, 'ast': ['let', [['fs', ['for', [[i, src], ['j', g.lit_seq(min_len=1)]], f]]],
                                        ['for', [['f', ['call', _sf(draw, ['reverse', 'tail', 'reverse']), [['var', 'fs']]]]],
                                         ['dyn', ['var', 'f'], [g.lit_int()]]]]}
    # let-in-for: closure created and used within one iteration (must work even with a shared token)
    x = 'x'
    f = ['inline', [x], dep(g.int_(1, ((i, 'int'), (x, 'int'))))]
    return {'pattern': pat, 'ast': ['for', [[i, src]], ['let', [['f', f]], ['seq', ['dyn', ['var', 'f'], [g.lit_int()]],
                                                                            ['dyn', ['var', 'f'], [['var', i]]]]]]}


_TYPED_ITEMS = [   # (function item AST, function test, arguments inside the HOF ($s = the value passed along), value AST, 3.1 only)
    (['ref', 'substring', 2], 'function(xs:string?, xs:double) as xs:string', [['var', 's'], ['int', 3]], ['str', 'abcdef'], False),
    (['call', 'substring', [['?'], ['?']]], 'function(xs:string?, xs:double) as xs:string', [['var', 's'], ['int', 2]], ['str', 'abcdef'], False),
    (['call', 'substring', [['?'], ['?'], ['int', 2]]], 'function(xs:string?, xs:double) as xs:string', [['var', 's'], ['int', 3]], ['str', 'abcdef'], False),
    (['ref', 'substring', 3], 'function(xs:string?, xs:double, xs:double) as xs:string', [['var', 's'], ['int', 2], ['int', 3]], ['str', 'abcdef'], False),
    (['ref', 'round', 1], 'function(xs:numeric?) as xs:numeric?', [['var', 's']], ['dec', '2.5'], False),
    (['ref', 'sort', 1], 'function(item()*) as item()*', [['var', 's']], ['seq', ['int', 3], ['int', 1], ['int', 2]], True),
    (['ref', 'concat', 3], 'function(xs:anyAtomicType?, xs:anyAtomicType?, xs:anyAtomicType?) as xs:string',
     [['var', 's'], ['str', '-'], ['var', 's']], ['str', 'a'], False),
    (['call', 'concat', [['?'], ['str', '-'], ['?']]], 'function(xs:anyAtomicType?, xs:anyAtomicType?) as xs:string',
     [['var', 's'], ['var', 's']], ['str', 'b'], False),
    (['ref', 'string-join', 1], 'function(xs:anyAtomicType*) as xs:string', [['var', 's']], ['seq', ['str', 'a'], ['str', 'b']], True),
    (['ref', 'subsequence', 2], 'function(item()*, xs:double) as item()*', [['var', 's'], ['int', 2]], ['seq', ['int', 1], ['int', 2], ['int', 3]], False),
    (['call', 'subsequence', [['?'], ['?']]], 'function(item()*, xs:double) as item()*', [['var', 's'], ['int', 2]], ['seq', ['int', 4], ['int', 5], ['int', 6]], False),
    (['ref', 'insert-before', 3], 'function(item()*, xs:integer, item()*) as item()*', [['var', 's'], ['int', 1], ['int', 9]], ['seq', ['int', 1], ['int', 2]], False),
    (['call', 'insert-before', [['?'], ['?'], ['int', 9]]], 'function(item()*, xs:integer) as item()*', [['var', 's'], ['int', 2]], ['seq', ['int', 1], ['int', 2]], False),
    (['ref', 'count', 1], 'function(item()*) as xs:integer', [['var', 's']], ['seq', ['int', 1], ['int', 2]], False),
    (['ref', 'string-length', 1], 'function(xs:string?) as xs:integer', [['var', 's']], ['str', 'abc'], False),
    (['ref', 'abs', 1], 'function(xs:numeric?) as xs:numeric?', [['var', 's']], ['int', -4], False),
]


def typed_hof_param_program(draw, g):
    """a named reference of reduced arity / a partial application of a built-in is passed to a user-written higher-order
    inline function whose parameter has the specific function type of that arity; compared with the direct call"""
    pool = [t for t in _TYPED_ITEMS if g.v == '31' or not t[4]]
    item, ftest, args, value, _ = _sf(draw, pool)
    F = ['var', 'f']
    call = ['dyn', F, args]
    k = draw(_upto(3))
    if k == 0:
        body = call
    elif k == 1:
        body = ['call', 'for-each', [['seq', ['int', 1], ['int', 2]], ['inline', ['i'], call]]]
    elif k == 2:
        body = ['call', 'fold-left', [['seq', ['int', 1], ['int', 2]], ['empty'], ['inline', ['acc', 'i'], ['seq', ['var', 'acc'], call]]]]
    else:
        body = ['seq', call, ['dyn', ['inline', [['g', ftest]], ['dyn', ['var', 'g'], args]], [F]]]      # handed on to a second typed HOF
    h = ['inline', [['f', ftest], 's'], body]
    via = draw(_upto(2))
    fitem = item if via == 0 else ['var', 'r']
    binds = [['h', h]] + ([['r', item]] if via else [])
    res = ['dyn', ['var', 'h'], [fitem, value]]
    direct = ['dyn', item, [value if a == ['var', 's'] else a for a in args]]
    return ['let', binds, ['seq', res, direct]]


def factory_via_ref_program(draw, g):
    """a closure made by a factory (captures the factory's parameter $k) is passed as a bare function item, through a
    named function reference f#n or fn:apply, to a higher-order builtin; $k is shadowed (or absent) at the call site"""
    v31 = g.v == '31'
    K, X = ['var', 'k'], ['var', 'x']
    S = g.lit_seq(min_len=3)
    kf = _sf(draw, [-1, -1, 2, 3, -2])
    outer_k = _sf(draw, [1, 1, 0, 5])
    hof = _sf(draw, (['sort', 'sort', 'sort', 'array:sort'] if v31 else []) + ['for-each', 'filter', 'fold-left', 'fold-right', 'for-each-pair'])
    if hof in ('sort', 'array:sort', 'for-each'):
        inner = ['inline', ['x'], ['arith', '*', X, K]]
    elif hof == 'filter':
        inner = ['inline', ['x'], ['vcmp', _sf(draw, _CMP), X, K]]
    elif hof == 'fold-left':
        inner = ['inline', ['a', 'x'], ['arith', '+', ['var', 'a'], ['arith', '*', X, K]]]
    elif hof == 'fold-right':
        inner = ['inline', ['x', 'a'], ['arith', '+', ['var', 'a'], ['arith', '*', X, K]]]
    else:
        inner = ['inline', ['x', 'y'], ['arith', '+', ['arith', '*', X, K], ['var', 'y']]]
    mk = ['inline', ['k'], inner]
    F = ['var', 'f']
    src = ['array', list(S[1:]) if S[0] == 'seq' else [S]] if hof == 'array:sort' else S
    if hof == 'array:sort' and S[0] == 'to':
        src = ['array', [['int', 3], ['int', 1], ['int', 2]]]
    args = {'sort': [src, ['empty'], F], 'array:sort': [src, ['empty'], F], 'for-each': [src, F], 'filter': [src, F],
            'fold-left': [src, g.lit_int(), F], 'fold-right': [src, g.lit_int(), F],
            'for-each-pair': [src, g.lit_seq(min_len=2), F]}[hof]
    ref = ['ref', hof, len(args)]
    via = _sf(draw, ['ref-var', 'ref-var', 'ref-direct', 'apply'] if v31 else ['ref-var', 'ref-direct'])
    if via == 'ref-var':
        call = ['dyn', ['var', 's'], args]
    elif via == 'ref-direct':
        call = ['dyn', ref, args]
    else:
        call = ['call', 'apply', [['var', 's'], ['array', args]]]
    direct = ['call', hof, args]
    shadow = draw(_upto(2))
    binds = ([['k', ['int', outer_k]]] if shadow != 2 else []) + [['mk', mk], ['f', ['dyn', ['var', 'mk'], [['int', kf]]]], ['s', ref]]
    body = ['seq', call, direct] if draw(_upto(1)) else call
    if shadow == 1:      # a different $k bound right at the call site
        body = ['for', [['k', ['seq', ['int', outer_k], ['int', outer_k + 1]]]], body]
    return ['let', binds, body]


def callable_program(draw, g):
    """maps and arrays used as function items of arity 1 wherever a function item can stand (XPath 3.1)"""
    li = g.lit_int
    arr = ['array', [li(), li(), li(), ['seq', li(), li()]]]
    mp = ['mapc', [[['str', 'k'], li()], [['str', 'j'], ['seq', li(), li()]], [['int', 2], li()], [['int', 1], li()]]]
    binds = [['a', arr], ['m', mp]]
    A, M, F = ['var', 'a'], ['var', 'm'], ['var', 'f']
    c = lambda name, *args: ['call', name, list(args)]     # noqa: E731
    idx = ['int', 1 + draw(_upto(3))]
    key = _sf(draw, [['str', 'k'], ['str', 'j'], ['int', 2], ['int', 1], ['str', 'zz'], ['int', 7]])
    inl = ['inline', ['x'], ['arith', '*', ['var', 'x'], li()]]
    part = ['dyn', ['inline', ['p', 'q'], ['arith', '-', ['var', 'p'], ['var', 'q']]], [['?'], li()]]
    mixed = _sf(draw, [['seq', A, M, inl, ['ref', 'abs', 1], part], ['seq', M, A], ['seq', inl, A, part, M], ['seq', A, A, M]])
    k = draw(_upto(13))
    if k == 0:
        body = ['seq', c('apply', A, ['array', [idx]]), ['dyn', A, [idx]], c('apply', M, ['array', [key]]), ['dyn', M, [key]]]
    elif k == 1:
        body = c('for-each', ['seq', *[['int', 1 + draw(_upto(3))] for _ in range(2 + draw(_upto(2)))]], A)
    elif k == 2:
        body = c('for-each', ['seq', ['str', 'k'], ['str', 'zz'], ['int', 2], ['str', 'j']], M)
    elif k == 3:
        body = c('for-each', mixed, ['inline', ['f'], c('apply', F, ['array', [['int', 2]]])])
    elif k == 4:
        body = c('for-each', mixed, ['inline', ['f'], ['dyn', F, [['int', 2]]]])
    elif k == 5:
        fn = _sf(draw, ['fold-left', 'fold-right'])
        step = (['inline', ['acc', 'f'], ['seq', ['var', 'acc'], c('apply', F, ['array', [['int', 1]]])]] if fn == 'fold-left'
                else ['inline', ['f', 'acc'], ['seq', ['dyn', F, [['int', 1]]], ['var', 'acc']]])
        body = c(fn, mixed, g.zero(), step)
    elif k == 6:
        body = ['seq', ['dyn', ['dyn', A, [['?']]], [idx]], ['dyn', ['dyn', M, [['?']]], [key]],
                ['let', [['p', ['dyn', M, [['?']]]]], ['seq', ['dyn', ['var', 'p'], [['str', 'j']]], ['dyn', ['var', 'p'], [['str', 'k']]]]]]
    elif k == 7:
        body = ['seq', ['arrow', idx, A], ['arrow', key, M], ['arrow', ['int', 2], ['dyn', A, [['?']]]]]
    elif k == 8:
        body = c('for-each', mixed, ['ref', 'function-arity', 1])
    elif k == 9:
        body = c('sort', ['seq', ['int', 3], ['int', 1], ['int', 2], ['int', 1]], ['empty'], _sf(draw, [A, ['mapc', [[['int', 1], li()], [['int', 2], li()], [['int', 3], li()]]]]))
    elif k == 10:
        mb = ['mapc', [[['int', i], ['bool', bool(draw(_upto(1)))]] for i in (1, 2, 3, 4)]]
        body = c('filter', ['seq', ['int', 1], ['int', 2], ['int', 3], ['int', 4], ['int', 2]], mb)
    elif k == 11:    # the callee receives whatever function item and applies it twice
        twice = ['inline', ['f', 'x'], ['seq', c('apply', F, ['array', [['var', 'x']]]), ['dyn', F, [['var', 'x']]]]]
        body = ['let', [['t', twice]], ['seq', ['dyn', ['var', 't'], [A, idx]], ['dyn', ['var', 't'], [M, key]], ['dyn', ['var', 't'], [inl, li()]]]]
    elif k == 12:    # array members that are function items
        fa = ['array', [inl, ['ref', 'abs', 1], A]]
        body = ['seq', ['dyn', ['dyn', fa, [['int', 1]]], [li()]], ['dyn', ['dyn', fa, [['int', 3]]], [idx]],
                c('apply', ['dyn', fa, [['int', 2]]], ['array', [li()]])]
    else:
        body = c('for-each-pair', mixed, ['seq', ['int', 1], ['int', 2], ['int', 2], ['int', 1], ['int', 2]],
                 ['inline', ['f', 'x'], ['dyn', F, [['var', 'x']]]])
    return ['let', binds, body]


def empty_closure_program(draw, g):
    """a function item that captured NOTHING is called where a variable with the name of its parameter is
    bound; that variable is read (directly and through closures) after the call"""
    nm = _sf(draw, ['x', 'x', 'y', 'a'])
    V = ['var', nm]
    S = g.lit_seq(min_len=2)
    T = g.lit_seq(min_len=1)
    k1, k2 = g.lit_int(), g.lit_int()
    body = _sf(draw, [['arith', '*', V, ['int', 2]], ['arith', '+', V, k1], ['arith', '-', k1, V], V])
    f1 = ['inline', [nm], body]                      # no free variable: its closure is empty
    read = lambda: _sf(draw, [V, ['dyn', ['inline', [], V], []], ['arith', '+', V, ['int', 0]]])     # noqa: E731
    k = draw(_upto(9))
    if k == 0:      # let-bound first (nothing in scope), called inside a for over the same name
        return ['let', [['d', f1]], ['for', [[nm, S]], ['seq', read(), ['dyn', ['var', 'd'], [k2]], read()]]]
    if k == 1:      # inline literal passed straight to a HOF
        hof = ['call', 'for-each', [T, f1]]
        return ['for', [[nm, S]], ['seq', hof, read()]]
    if k == 2:
        p1 = ['inline', [nm], ['vcmp', _sf(draw, _CMP), V, k1]]
        return ['for', [[nm, S]], ['seq', read(), ['call', 'count', [['call', 'filter', [T, p1]]]], read()]]
    if k == 3:      # both parameters of a fold callback are names bound at the call site
        other = 'b' if nm != 'b' else 'c'
        f2 = ['inline', [nm, other], ['arith', '+', V, ['var', other]]]
        fold = ['call', _sf(draw, ['fold-left', 'fold-right']), [T, k1, f2]]
        return ['for', [[nm, S], [other, ['seq', k2]]], ['seq', fold, read(), ['var', other]]]
    if k == 4:      # immediately applied literal
        return ['for', [[nm, S]], ['seq', ['dyn', f1, [k2]], read(), ['dyn', f1, [V]], read()]]
    if k == 5:      # let variable instead of a for variable
        return ['let', [['d', f1], [nm, k1]], ['seq', ['dyn', ['var', 'd'], [k2]], read(), ['call', 'for-each', [T, ['var', 'd']]], read()]]
    if k == 6 and g.v == '31':
        return ['for', [[nm, S]], ['seq', ['call', 'sort', [T, ['empty'], ['inline', [nm], ['neg', V]]]], read(),
                                  ['call', 'apply', [f1, ['array', [k2]]]], read()]]
    if k == 7:      # through a partial application of an empty-closure item
        f2 = ['inline', [nm, 'q'], ['arith', '+', ['arith', '*', V, ['int', 10]], ['var', 'q']]]
        return ['let', [['d', ['dyn', f2, [['?'], k1]]]], ['for', [[nm, S]], ['seq', ['dyn', ['var', 'd'], [k2]], read()]]]
    if k == 8:      # simple map: the call happens per focus item, the variable is read afterwards
        return ['for', [[nm, S]], ['seq', ['map', T, ['dyn', f1, [['ctx']]]], read()]]
    # nested: the callee itself calls another empty-closure item with the same parameter name
    g1 = ['inline', [nm], ['arith', '+', ['dyn', f1, [V]], V]]
    return ['let', [['d', g1]], ['for', [[nm, S]], ['seq', ['dyn', ['var', 'd'], [k2]], read(), ['call', 'for-each', [T, g1]], read()]]]


def focus_partial_program(draw, g):
    """partial application by a dynamic call whose fixed argument depends on the focus; the item is
    created under one focus and called under another one (or none)"""
    k = draw(_upto(11))
    S = g.lit_seq(min_len=2)
    kint = g.lit_int()
    add = ['inline', ['a', 'b'], ['arith', '+', ['arith', '*', ['var', 'a'], ['int', 10]], ['var', 'b']]]
    hole_first = draw(_upto(1)) == 1
    fixed = _sf(draw, [['ctx'], ['ctx'], ['pos'], ['last'], ['arith', '+', ['ctx'], ['pos']]])

    def args(fx):
        return [['?'], fx] if hole_first else [fx, ['?']]

    def later(fs, arg):
        # three ways to call the items after the creating focus is gone
        kk = draw(_upto(2))
        if kk == 0:
            return ['for', [['g', fs]], ['dyn', ['var', 'g'], [arg]]]
        if kk == 1:
            return ['map', fs, ['dyn', ['ctx'], [arg]]]                  # the focus is the item itself now
        return ['let', [['fs', fs]], ['seq', ['dyn', ['filter', ['var', 'fs'], ['int', 2]], [arg]],
                                      ['dyn', ['filter', ['var', 'fs'], ['int', 1]], [arg]]]]
    if k < 4:       # inline function through a variable
        return ['let', [['f', add]], later(['map', S, ['dyn', ['var', 'f'], args(fixed)]], kint)]
    if k == 4:      # inline literal
        return later(['map', S, ['dyn', add, args(fixed)]], kint)
    if k < 7:       # a named reference (concat#2 / concat#3) on strings
        strs = ['seq', *[['str', _sf(draw, STRS)] for _ in range(2 + draw(_upto(2)))]]
        if draw(_upto(1)):
            return ['let', [['c', ['ref', 'concat', 2]]],
                    later(['map', strs, ['dyn', ['var', 'c'], args(['ctx'])]], ['str', _sf(draw, ['-', '+', ''])])]
        a3 = [['?'], ['str', '/'], ['ctx']] if hole_first else [['ctx'], ['str', '/'], ['?']]
        return later(['map', strs, ['dyn', ['ref', 'concat', 3], a3]], ['str', _sf(draw, ['-', '+'])])
    if k == 7:      # name() of the context node
        fx = _sf(draw, [['call', 'name', []], ['call', 'string', []], ['call', 'name', [['ctx']]]])
        return ['let', [['c', ['ref', 'concat', 2]]],
                later(['map', ['nodes', _sf(draw, ['all', 'a', 'ad'])], ['dyn', ['var', 'c'], args(fx)]], ['str', '-'])]
    if k == 8:      # a child step as fixed argument
        cnt = ['inline', ['n', 's'], ['arith', '+', ['arith', '*', ['var', 'n'], ['int', 10]], ['call', 'count', [['var', 's']]]]]
        step = ['step', _sf(draw, ['a', 'b', '*', 'zz'])]
        return ['let', [['f', cnt]], later(['map', ['seq', ['nodes', 'r'], ['nodes', 'r']], ['dyn', ['var', 'f'], [['?'], step]]], kint)]
    if k == 9:      # created in a predicate-filtered focus, called inside another simple map
        fs = ['map', ['filter', S, ['vcmp', 'ge', ['pos'], ['int', 1]]], ['dyn', ['var', 'f'], args(fixed)]]
        return ['let', [['f', add]], ['map', g.lit_seq(min_len=2), ['for', [['g', fs]], ['dyn', ['var', 'g'], [['ctx']]]]]]
    if k == 10:     # partial of a partial, the second fixed argument under a different focus
        f3 = ['inline', ['a', 'b', 'c'], ['arith', '+', ['arith', '*', ['var', 'a'], ['int', 100]],
                                          ['arith', '+', ['arith', '*', ['var', 'b'], ['int', 10]], ['var', 'c']]]]
        first = ['map', S, ['dyn', ['var', 'f'], [['ctx'], ['?'], ['?']]]]
        second = ['map', g.lit_seq(min_len=2), ['for', [['h', ['var', 'ps']]], ['dyn', ['var', 'h'], [['?'], ['ctx']]]]]
        return ['let', [['f', f3], ['ps', first]], ['for', [['g', second]], ['dyn', ['var', 'g'], [kint]]]]
    # a HOF applies the items later
    return ['let', [['f', add]], ['call', 'for-each', [['map', S, ['dyn', ['var', 'f'], args(fixed)]],
                                                      ['inline', ['g'], ['dyn', ['var', 'g'], [kint]]]]]]


def reentrant_program(draw, g):
    """one function item active in two nested calls at the same time"""
    S, T = g.lit_seq(min_len=1), g.lit_seq(min_len=1)
    k = draw(_upto(7))
    x, y = ['var', 'x'], ['var', 'y']
    mul = ['inline', ['y'], ['arith', '*', y, ['int', 2]]]
    add = ['inline', ['c', 'd'], ['arith', '+', ['var', 'c'], ['var', 'd']]]
    if k == 0:      # a named HOF reference called from inside its own callback
        body = ['call', 'sum', [['dyn', ['var', 'h'], [['seq', x, ['int', 1]], mul]]]]
        return ['let', [['h', ['ref', 'for-each', 2]]], ['dyn', ['var', 'h'], [S, ['inline', ['x'], body]]]]
    if k == 1:
        inner = ['dyn', ['var', 'h'], [['seq', ['var', 'b'], ['int', 1]], ['int', 0], add]]
        return ['let', [['h', ['ref', 'fold-left', 3]]],
                ['dyn', ['var', 'h'], [S, g.lit_int(), ['inline', ['a', 'b'], ['arith', '+', ['var', 'a'], inner]]]]]
    if k == 2:      # named reference nested in its own argument
        return ['let', [['h', ['ref', 'abs', 1]]],
                ['dyn', ['var', 'h'], [['arith', '-', ['dyn', ['var', 'h'], [g.lit_int()]], ['dyn', ['var', 'h'], [g.lit_int()]]]]]]
    if k == 3:      # a partial application nested in its own argument
        f = ['dyn', ['inline', ['a', 'b'], ['arith', '-', ['arith', '*', ['var', 'a'], ['int', 3]], ['var', 'b']]],
             [['?'], g.lit_int()] if draw(_upto(1)) else [g.lit_int(), ['?']]]
        return ['let', [['p', f]], ['dyn', ['var', 'p'], [['dyn', ['var', 'p'], [['dyn', ['var', 'p'], [g.lit_int()]]]]]]]
    if k == 4:      # static partial of a named function nested in its own argument
        return ['let', [['p', ['call', 'concat', [['?'], ['str', _sf(draw, STRS)]]]]],
                ['dyn', ['var', 'p'], [['dyn', ['var', 'p'], [['str', _sf(draw, STRS)]]]]]]
    if k == 5:      # an inline function calling a HOF whose callback calls the same inline function (recursion by self-argument)
        fact = ['inline', ['f', 'n'], ['if', ['vcmp', 'le', ['var', 'n'], ['int', 1]], ['int', 1],
                                       ['arith', '*', ['var', 'n'], ['dyn', ['var', 'f'], [['var', 'f'], ['arith', '-', ['var', 'n'], ['int', 1]]]]]]]
        return ['let', [['fact', fact]], ['for', [['n', ['to', ['int', 0], ['int', 2 + draw(_upto(4))]]]],
                                          ['dyn', ['var', 'fact'], [['var', 'fact'], ['var', 'n']]]]]
    if k == 6:      # the same inline item as callback of nested for-each
        f = ['inline', ['x'], ['arith', '+', x, g.lit_int()]]
        return ['let', [['f', f]], ['call', 'for-each', [S, ['inline', ['y'], ['call', 'sum', [['call', 'for-each', [['seq', y, ['dyn', ['var', 'f'], [y]]], ['var', 'f']]]]]]]]]
    if k == 6 and draw(_upto(1)):
        # a HOF whose first argument has an inner focus (predicate) and whose other arguments read the outer focus
        inner = ['filter', T, ['vcmp', _sf(draw, _CMP), ['pos'], _sf(draw, [['last'], ['int', 1], ['int', 2]])]]
        add2 = ['inline', ['a', 'b'], ['arith', '+', ['arith', '*', ['var', 'a'], ['int', 10]], ['var', 'b']]]
        hof = _sf(draw, ['for-each-pair', 'for-each-pair', 'fold-left', 'fold-right', 'apply'])
        if hof == 'for-each-pair':
            e = ['call', 'for-each-pair', [inner, ['seq', ['ctx'], ['ctx'], ['pos']], add2]]
        elif hof == 'apply':
            e = ['call', 'apply', [add2, ['array', [['filter', inner, ['int', 1]], ['ctx']]]]]
        else:
            e = ['call', hof, [inner, ['ctx'], add2]]
        return ['map', S, ['seq', e, ['ctx']]]
    if k == 7 and draw(_upto(1)):
        # ONE named-reference expression evaluated again (recursion) while a call of its earlier result is active
        n, f = ['var', 'n'], ['var', 'f']
        rec = ['dyn', f, [f, ['arith', '-', n, ['int', 1]]]]
        hof = _sf(draw, ['for-each', 'fold-left', 'filter'])
        if hof == 'for-each':
            step = ['dyn', ['ref', 'for-each', 2], [['seq', n, ['int', 1]], ['inline', ['x'], ['arith', '+', x, ['call', 'sum', [rec]]]]]]
        elif hof == 'fold-left':
            step = ['dyn', ['ref', 'fold-left', 3], [['seq', n, ['int', 2]], ['int', 0],
                                                     ['inline', ['a', 'b'], ['arith', '+', ['arith', '+', ['var', 'a'], ['var', 'b']], ['call', 'sum', [rec]]]]]]
        else:
            step = ['dyn', ['ref', 'filter', 2], [['to', ['int', 0], n], ['inline', ['x'], ['vcmp', 'ge', x, ['call', 'count', [rec]]]]]]
        body = ['if', ['vcmp', 'le', n, ['int', 0]], ['int', 0], step]
        return ['let', [['r', ['inline', ['f', 'n'], body]]], ['dyn', ['var', 'r'], [['var', 'r'], ['int', 1 + draw(_upto(2))]]]]
    # filter / for-each-pair references re-entered
    inner = ['call', 'count', [['dyn', ['var', 'h'], [T, ['inline', ['y'], ['vcmp', 'lt', y, x]]]]]]
    return ['let', [['h', ['ref', 'filter', 2]]],
            ['dyn', ['var', 'h'], [S, ['inline', ['x'], ['vcmp', 'ge', inner, ['int', 1]]]]]]


# --------------------------------------------------------------------------
# definitional expansions (both sides evaluated by elementpath)
# --------------------------------------------------------------------------
EXPANSIONS_30 = ['for-each', 'filter', 'fold-left', 'fold-right', 'for-each-pair', 'partial', 'named-ref', 'fold-left-rec',
                 'fold-left-seq', 'fold-right-seq']
EXPANSIONS_31 = EXPANSIONS_30 + ['apply', 'arrow']


@st.composite
def expansion_case(draw):
    v = _sf(draw, ['31', '31', '30'])
    rel = _sf(draw, EXPANSIONS_30 if v == '30' else EXPANSIONS_31)
    g = FGen(draw, v, max_depth=2)
    binds, sc = [], ()
    if draw(_upto(1)):
        binds.append(['k', g.lit_int()])
        sc = (('k', 'int'),)
    case = {'v': v, 'rel': rel, 'binds': binds}
    seqs = [g.lit_seq() for _ in range(2)]
    if draw(_upto(4)) == 0:
        seqs[0] = g.seq(1, sc)
    case['S'], case['T'] = seqs
    if rel == 'for-each':
        case['f'] = g.fun('f1', 1, sc)
    elif rel == 'filter':
        case['f'] = g.fun('p1', 1, sc)
    elif rel in ('fold-left', 'fold-right', 'for-each-pair', 'apply', 'fold-left-rec'):
        case['f'] = g.fun('f2', 1, sc)
        case['z'] = g.int_(2, sc)
        case['a'], case['b'] = g.int_(2, sc), g.int_(2, sc)
    elif rel in ('fold-left-seq', 'fold-right-seq'):
        A, B = ['var', 'a'], ['var', 'b']
        case['f'] = ['inline', ['a', 'b'], _sf(draw, [['seq', A, B], ['seq', B, A], ['seq', A, B, A],
                                                     ['seq', ['call', 'count', [A]], B], ['seq', A, ['call', 'count', [B]]]])]
        case['z'] = g.zero()
    elif rel == 'partial':
        case['f'] = g.fun('f2', 1, sc)
        case['a'], case['b'] = g.int_(2, sc), g.int_(2, sc)
        case['hole'] = draw(_upto(1))
    elif rel == 'named-ref':
        case['name'] = _sf(draw, ['abs', 'count', 'sum', 'string-length', 'upper-case', 'concat2', 'concat3', 'concat4',
                                  'reverse', 'subsequence2', 'subsequence3', 'string-join2', 'not', 'empty', 'max', 'head',
                                  'insert-before'])
        case['a'], case['b'] = g.int_(2, sc), g.int_(2, sc)
        case['s'] = g.str_(2, sc)
    elif rel == 'arrow':
        case['f'] = g.fun('g1', 1, sc)
    return case


# --------------------------------------------------------------------------
# sort
# --------------------------------------------------------------------------
SORT_KEYS = ['identity', 'high', 'low', 'neg-high', 'mod3', 'const', 'pair', 'empty-or-high', 'string', 'abs', 'double-nan']


@st.composite
def sort_case(draw):
    """items are integers key*16 + index (index = input position), so equal keys are observable"""
    n = _sf(draw, [0, 1, 2, 3, 4, 5, 6, 7, 8, 10, 12])
    keys = [draw(_upto(_sf(draw, [1, 2, 3, 5, 9]))) for _ in range(n)]
    neg = draw(_upto(5)) == 0
    return {'v': '31', 'keys': keys, 'keyfn': _sf(draw, SORT_KEYS), 'neg': neg,
            'via': _sf(draw, ['inline', 'inline', 'let', 'partial', 'named'])}


# --------------------------------------------------------------------------
# call histories from python
# --------------------------------------------------------------------------
@st.composite
def history_case(draw):
    v = _sf(draw, ['31', '30'])
    g = FGen(draw, v, max_depth=2)
    kind = _sf(draw, ['inline-list', 'inline-list', 'named', 'partial', 'mixed'])
    progs = []
    n_items = 2 + draw(_upto(2))
    if kind == 'named':
        progs = [['ref', nm, 1] for nm in [_sf(draw, ['abs', 'count', 'sum']) for _ in range(n_items)]]
    elif kind == 'partial':
        for _ in range(n_items):
            p, q = g.fresh('p'), g.fresh('p')
            f2 = ['inline', [p, q], g.int_(1, ((p, 'int'), (q, 'int')))]
            args = [g.lit_int(), ['?']]
            if draw(_upto(1)):
                args.reverse()
            progs.append(['dyn', f2, args])
    elif kind == 'inline-list':
        # ONE program yielding several items of one function expression
        x = 'x'
        f = ['inline', [x], ['arith', '+', ['arith', '*', ['var', 'i'], ['int', 100]], g.int_(1, (('i', 'int'), (x, 'int')))]]
        progs = [['for', [['i', ['seq', *[g.lit_int() for _ in range(n_items)]]]], f]]
    else:
        for _ in range(n_items):
            progs.append(g.fun('f1', 1, ()))
    ops = []
    for _ in range(3 + draw(_upto(6))):
        k = draw(_upto(9))
        calls = [o for o in ops if o[0] == 'call']
        if k == 0:
            ops.append(['reeval', draw(_upto(len(progs) - 1))])
        elif k < 4 and calls:
            ops.append(list(calls[draw(_upto(len(calls) - 1))]))      # the same call again, later
        else:
            ops.append(['call', draw(_upto(5)), _sf(draw, SMALL)])
    return {'v': v, 'kind': kind, 'progs': progs, 'ops': ops}


# --------------------------------------------------------------------------
# misuse: the root operation must raise (wrong arity, non-function, non-boolean filter callback)
# --------------------------------------------------------------------------
MISUSES = ['dyn-arity-more', 'dyn-arity-less', 'dyn-non-function', 'filter-non-boolean', 'filter-boolean-sequence',
           'for-each-arity', 'fold-left-arity', 'fold-right-arity', 'for-each-pair-arity', 'filter-arity', 'apply-size',
           'sort-key-arity', 'partial-arity', 'control-ok', 'apply-array-arity', 'apply-map-arity', 'array-call-arity',
           'map-call-arity', 'array-as-binary-callback']


@st.composite
def misuse_case(draw):
    v = _sf(draw, ['31', '31', '30'])
    g = FGen(draw, v, max_depth=1)
    kind = _sf(draw, MISUSES)
    if v == '30' and kind in ('apply-size', 'sort-key-arity', 'apply-array-arity', 'apply-map-arity', 'array-call-arity',
                              'map-call-arity', 'array-as-binary-callback'):
        kind = 'dyn-arity-more'
    S = g.lit_seq(min_len=0 if draw(_upto(3)) == 0 else 1)
    if kind.endswith('-arity'):
        # with nothing to call the callback on, an implementation may leave the argument unchecked (XPath 3.1 2.3.4)
        S = g.lit_seq(min_len=2)
    T = g.lit_seq(min_len=2)
    f0, f1, f2, p1 = (g.fun(k, 1, ()) for k in ('f0', 'f1', 'f2', 'p1'))
    a, b = g.lit_int(), g.lit_int()
    c = lambda name, *args: ['call', name, list(args)]     # noqa: E731
    ast = {
        'dyn-arity-more': ['dyn', f1, [a, b]],
        'dyn-arity-less': ['dyn', f2, [a]],
        'dyn-non-function': ['dyn', _sf(draw, [['int', 1], ['str', 'abs'], ['seq', f1, f1], ['empty']]), [a]],
        'filter-non-boolean': c('filter', S, _sf(draw, [f1, ['inline', ['x'], ['str', 'true']], ['inline', ['x'], ['empty']]])),
        'filter-boolean-sequence': c('filter', S, ['inline', ['x'], ['seq', ['bool', True], ['bool', False]]]),
        'for-each-arity': c('for-each', S, _sf(draw, [f2, f0])),
        'fold-left-arity': c('fold-left', S, a, _sf(draw, [f1, f0])),
        'fold-right-arity': c('fold-right', S, a, f1),
        'for-each-pair-arity': c('for-each-pair', S, T, f1),
        'filter-arity': c('filter', S, ['inline', ['x', 'y'], ['bool', True]]),
        'apply-size': c('apply', f2, ['array', [a] if draw(_upto(1)) else [a, b, a]]),
        'sort-key-arity': c('sort', S, ['empty'], f2),
        'partial-arity': ['dyn', f2, [['?']]],
        'control-ok': c('filter', S, p1),
        'apply-array-arity': c('apply', ['array', [a, b, a]], ['array', _sf(draw, [[a, b], [a, b, a]])]),
        'apply-map-arity': c('apply', ['mapc', [[['str', 'k'], a]]], ['array', _sf(draw, [[['str', 'k'], ['str', 'k']], [a, b, a]])]),
        'array-call-arity': ['dyn', ['array', [a, b]], [['int', 1], ['int', 2]]],
        'map-call-arity': ['dyn', ['mapc', [[['str', 'k'], a]]], [['str', 'k'], ['str', 'j']]],
        'array-as-binary-callback': c(_sf(draw, ['fold-left', 'fold-right']), T, a, ['array', [a, b]]),
    }[kind]
    return {'v': v, 'kind': kind, 'ast': ast}


# --------------------------------------------------------------------------
# sort of heterogeneous items that are == / hash-equal in python but distinct XPath values
# --------------------------------------------------------------------------
HET_NUM = [['bool', True], ['bool', False], ['int', 1], ['int', 0], ['int', 2], ['dec', '1.0'], ['dec', '0.0'],
           ['dbl', '1.0'], ['dbl', '0.0'], ['dbl', '2.0'], ['flt', '1.0'], ['flt', '0.0']]
HET_STR = [['str', 'b'], ['str', 'a'], ['unt', 'b'], ['unt', 'a'], ['uri', 'b'], ['uri', 'a']]
HET_KEYS_NUM = ['bool-offset', 'type-rank', 'rank-plus-value', 'neg-rank-plus-value', 'bool-last']
HET_KEYS_STR = ['type-rank', 'rank-and-string', 'string-only']


@st.composite
def hetero_sort_case(draw):
    pool = _sf(draw, ['num', 'num', 'str', 'mixed'])
    src = HET_NUM if pool == 'num' else HET_STR if pool == 'str' else HET_NUM + HET_STR
    n = 2 + draw(_upto(8))
    items = [_sf(draw, src) for _ in range(n)]
    if draw(_upto(1)):      # make sure python-equal twins are present
        items[0:0] = [['int', 1], ['bool', True], ['dbl', '1.0']] if pool != 'str' else [['unt', 'b'], ['str', 'b'], ['uri', 'b']]
        if draw(_upto(1)):
            items.reverse()
    keyfn = _sf(draw, HET_KEYS_NUM if pool == 'num' else HET_KEYS_STR if pool == 'str' else ['type-rank'])
    return {'v': '31', 'items': items, 'keyfn': keyfn, 'fn': _sf(draw, ['sort', 'sort', 'array:sort']),
            'via': _sf(draw, ['inline', 'let'])}


# --------------------------------------------------------------------------
# sort with a parser-configuration axis: default collation codepoint vs html-ascii-case-insensitive
# --------------------------------------------------------------------------
COLL_STRS = ['b', 'A', 'a', 'B', 'ab', 'AB', 'Ab', 'aB', '_', 'Z', 'z', '', 'a_', 'A0']
COLL_ARGS = ['absent', 'empty', 'empty', 'empty', 'codepoint', 'html-ascii']
COLL_FORMS = ['direct', 'direct', 'ref', 'static-partial', 'dyn-partial', 'let-key']
COLL_KEYS = ['none', 'identity', 'identity', 'dup', 'len-then-string', 'string-then-len', 'typed-identity']


@st.composite
def collation_sort_case(draw):
    n = 2 + draw(_upto(7))
    items = [_sf(draw, COLL_STRS) for _ in range(n)]
    if draw(_upto(3)):
        items[draw(_upto(len(items))):0] = _sf(draw, [['b', 'A', 'a', 'B'], ['B', 'a'], ['Z', '_', 'a'], ['ab', 'AB', 'Ab']])
    coll = _sf(draw, COLL_ARGS)
    key = 'none' if coll == 'absent' else _sf(draw, COLL_KEYS)
    return {'v': '31', 'default': _sf(draw, ['html-ascii', 'html-ascii', 'codepoint']), 'items': items, 'coll': coll,
            'key': key, 'fn': _sf(draw, ['sort', 'sort', 'array:sort']), 'form': _sf(draw, COLL_FORMS)}
