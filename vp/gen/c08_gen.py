"""Typed generator of sequence-expression ASTs (see vp/ref/interp.py for the AST) - used by C08.

Item flavours keep the programs (mostly) free of type errors so that the value oracle decides:
  'i' integers | 'n' mixed numerics (integer, decimal, double, rarely float) | 's' strings
  'u' element nodes / untypedAtomic | 'm' any atomic item
"""
from __future__ import annotations

from hypothesis import strategies as st

INTS = [0, 1, 2, 3, 3, 4, 5, 7, 10, -1, -2]
BIG_INTS = [2 ** 31, -2 ** 31, 2 ** 63, 10 ** 18, -10 ** 18]
DECS = ['0.5', '1.5', '2.5', '-0.5', '2.0', '1.0', '3.25', '0.1', '10.75', '-2.5', '0.0']
DBLS = ['0.5', '1.5', '2.5', '-1.5', '2.0', '1.0', '3.0', '0.25', '0.0', '100.0', 'INF', '-INF', 'NaN']
FLTS = ['1.5', '0.25', '2.0', '3.0', 'NaN', 'INF']
STRS = ['a', 'b', 'c', '', 'A', 'ab', 'b', '1', '2', ' ', 'a"b', "it's"]
UNTS_NUM = ['1', '2', '3', ' 2 ', '1.5', '2.5', 'INF', 'NaN', '1e1']
UNTS_ANY = UNTS_NUM + ['abc', '', 'a']
NODE_KEYS = ['a', 'b', 'ad', 'all', 'none', 'a1', 'd']
NODE_KEYS_NUM = ['a', 'ad', 'none', 'a1', 'd']

POS_INT = [-3, -1, 0, 1, 1, 2, 2, 3, 4, 5, 6, 9, 2 ** 31, -2 ** 31, 2 ** 63]
POS_FRAC = ['0.5', '1.5', '2.5', '3.5', '-0.5', '-1.5', '1.49', '2.51', '0.0', '1.0', '2.0', '3.0', '4.5', '0.49',
            '7.5', '-2.5', '100.5']
POS_NONFINITE = ['INF', '-INF', 'NaN']
POS_UNT = ['1', '2', ' 3 ', '2.5', 'INF', 'NaN', '-1', '0']

LENGTHS = [0, 0, 1, 1, 2, 2, 3, 3, 3, 4, 4, 5, 6, 8]


_INTS_UPTO = {}


def _upto(n):
    """cached st.integers(0, n) (building strategy objects per draw is the dominant cost otherwise)"""
    s = _INTS_UPTO.get(n)
    if s is None:
        s = _INTS_UPTO[n] = st.integers(0, n)
    return s


def _sf(draw, xs):
    return xs[draw(_upto(len(xs) - 1))]


def _pool(*weighted):
    """flat list realising integer weights: (weight, [asts]) -> weight copies of the pool spread evenly"""
    out = []
    for w, asts in weighted:
        reps = max(1, round(w * 12 / len(asts)))
        for a in asts:
            out.extend([a] * reps)
    return out


_I = [['int', x] for x in INTS]
_BI = [['int', x] for x in BIG_INTS]
_D = [['dec', x] for x in DECS]
_F = [['dbl', x] for x in DBLS]
_FL = [['flt', x] for x in FLTS]
_S = [['str', x] for x in STRS]
_UN = [['unt', x] for x in UNTS_NUM]
_UA = [['unt', x] for x in UNTS_ANY]
_B = [['bool', True], ['bool', False]]
ITEM_POOL = {
    'i': _pool((96, _I), (4, _BI)),
    'n': _pool((38, _I), (2, _BI), (25, _D), (30, _F), (5, _FL)),
    's': _S,
    'u': _pool((80, _UN), (20, _UA)),
    'm': _pool((16, _I), (8, _D), (10, _F), (2, _FL), (30, _S), (15, _B), (12, _UA)),
}


def lit_item(draw, flavor):
    """AST of one literal item of the flavour (a single draw)"""
    return _sf(draw, ITEM_POOL[flavor])


def lit_seq(draw, flavor, min_len=0):
    """AST of a literal sequence"""
    if flavor == 'u' and draw(_upto(9)) < 6:
        return ['nodes', _sf(draw, NODE_KEYS)]
    n = max(min_len, _sf(draw, LENGTHS))
    if n == 0:
        return ['empty']
    if flavor == 'i' and draw(_upto(9)) < 2:
        lo = _sf(draw, [1, 1, 0, 2, -1, 5])
        return ['to', ['int', lo], ['int', lo + n - 1]]
    items = [lit_item(draw, flavor) for _ in range(n)]
    if n >= 2 and draw(_upto(9)) < 4:       # force a duplicate
        items[draw(_upto(n - 1))] = items[draw(_upto(n - 1))]
    if n >= 2 and flavor in 'nm' and draw(_upto(9)) == 0:      # several NaN (NaN = NaN only for distinct-values)
        nan = _sf(draw, [['dbl', 'NaN'], ['dbl', 'NaN'], ['flt', 'NaN']])
        items[draw(_upto(n - 1))] = nan
        items[draw(_upto(n - 1))] = nan if draw(_upto(3)) else ['dbl', 'NaN']
    if n == 1 and (draw(_upto(1)) == 1):
        return items[0]
    return ['seq', *items]


def pos_arg(draw, integer_typed=False):
    """AST of a literal position/length argument with boundary values"""
    k = draw(_upto(99))
    if integer_typed:
        if k < 86:
            return ['int', _sf(draw, POS_INT)]
        if k < 91:
            return ['unt', _sf(draw, ['1', '2', ' 3 ', '0', '-1'])]
        if k < 94:
            return ['nodes', _sf(draw, ['a1', 'd'])]
        if k < 97:
            return ['dec', _sf(draw, POS_FRAC)]
        return ['dbl', _sf(draw, POS_FRAC + POS_NONFINITE)]
    if k < 30:
        return ['int', _sf(draw, POS_INT)]
    if k < 52:
        return ['dec', _sf(draw, POS_FRAC)]
    if k < 74:
        return ['dbl', _sf(draw, POS_FRAC)]
    if k < 88:
        return ['dbl', _sf(draw, POS_NONFINITE)]
    if k < 93:
        return ['unt', _sf(draw, POS_UNT)]
    if k < 96:
        return ['nodes', _sf(draw, ['a1', 'd'])]
    return ['flt', _sf(draw, ['1.5', '2.5', 'INF', 'NaN', '0.5'])]


_SUB = {'i': 'i', 'n': 'in', 's': 's', 'u': 'u', 'm': 'insum'}     # flavours usable where key is wanted
_CMP = ['eq', 'ne', 'lt', 'le', 'gt', 'ge']
_GCMP = ['=', '!=', '<', '<=', '>', '>=']


class Gen:
    """recursive typed generator; `sc` = (vars, focus): vars is a tuple of (name, kind, flavour) with
    kind 'item' | 'seq'; focus is None or the flavour of the context item"""

    def __init__(self, draw, version='31', max_depth=3, reuse=False):
        self.draw, self.v, self.max_depth, self.reuse = draw, version, max_depth, reuse
        self.nvar = 0
        self.banned = []        # names that must not occur at all in the range expression being generated

    def k(self, n=99):
        return self.draw(_upto(n))

    def fresh(self):
        """a variable name; in reuse mode names come from a two-name pool, so that nested for/some/every/let
        re-bind a name that is already bound (the outer binding must be back after the inner binder)"""
        if self.reuse:
            pool = [n for n in ('x', 'x', 'y') if n not in self.banned]
            if pool:
                return _sf(self.draw, pool)
        self.nvar += 1
        return 'v%d' % self.nvar

    @staticmethod
    def hide(vars_, name):
        return tuple(v for v in vars_ if v[0] != name)

    @staticmethod
    def visible(vars_):
        """the innermost binding of every name: [(name, kind, flavour)]"""
        seen = {}
        for nm, kind, fl in vars_:
            seen[nm] = (nm, kind, fl)
        return list(seen.values())

    # -- single items ---------------------------------------------------------
    def item(self, flavor, sc):
        vars_, focus = sc
        cands = [['var', nm] for nm, kind, fl in self.visible(vars_) if kind == 'item' and fl in _SUB[flavor]]
        if focus is not None and focus in _SUB[flavor]:
            cands.append(['ctx'])
            cands.append(['ctx'])
        if cands and self.k() < 70:
            return _sf(self.draw, cands)
        fl = flavor if flavor != 'u' else 'u'
        return lit_item(self.draw, fl)

    def int1(self, d, sc):
        vars_, focus = sc
        k = self.k()
        if d >= self.max_depth or k < 30:
            if focus is not None and self.k() < 40:
                return _sf(self.draw, [['pos'], ['last'], ['pos']])
            return self.item('i', sc)
        if k < 50:
            return ['call', 'count', [self.seq(_sf(self.draw, 'insum'), d + 1, sc)]]
        if k < 70:
            return ['arith', _sf(self.draw, ['+', '-', '*', '+']), self.int1(d + 1, sc), self.int1(d + 1, sc)]
        if k < 82:
            return ['call', 'sum', [self.seq('i', d + 1, sc)]]
        if k < 90 and focus is not None:
            return ['arith', _sf(self.draw, ['+', '-']), _sf(self.draw, [['pos'], ['last']]), ['int', _sf(self.draw, [1, 1, 2])]]
        return self.item('i', sc)

    def pos(self, d, sc, integer_typed=False):
        """position / length argument: boundary literal or a computed integer"""
        if self.k() < 65:
            return pos_arg(self.draw, integer_typed)
        return self.int1(d + 1, sc)

    # -- booleans ---------------------------------------------------------------
    def boolean(self, d, sc):
        vars_, focus = sc
        k = self.k()
        if self.reuse and vars_ and d < self.max_depth and self.k() < 30:
            outer = [['var', nm] for nm, kind, fl in self.visible(vars_) if kind == 'item']
            if outer:       # an inner quantifier, then the outer variable read again
                v = _sf(self.draw, outer)
                return [_sf(self.draw, ['and', 'or']), self.quantified(d, sc),
                        ['call', _sf(self.draw, ['exists', 'empty']), [['call', 'index-of', [v, v]]]]]
        if d >= self.max_depth:
            if focus is not None and k < 50:
                return ['vcmp', _sf(self.draw, _CMP), ['pos'], _sf(self.draw, [['last'], ['int', 1], ['int', 2], ['int', 3]])]
            if k < 80:
                return ['vcmp', _sf(self.draw, _CMP), self.item('i', sc), self.item('i', sc)]
            return ['bool', k % 2 == 0]
        if focus is not None and k < 18:
            return ['vcmp', _sf(self.draw, _CMP), ['pos'], self.int1(d + 1, sc)]
        if focus in ('i', 's') and k < 34:
            return ['vcmp', _sf(self.draw, _CMP), ['ctx'], self.item(focus, sc)]
        if k < 46:
            return ['vcmp', _sf(self.draw, _CMP), self.int1(d + 1, sc), self.int1(d + 1, sc)]
        if k < 56:
            fl = _sf(self.draw, 'iis')
            return ['gcmp', _sf(self.draw, _GCMP), self.seq(fl, d + 1, sc), self.seq(fl, d + 1, sc)]
        if k < 66:
            return ['call', _sf(self.draw, ['empty', 'exists']), [self.seq(_sf(self.draw, 'insum'), d + 1, sc)]]
        if k < 82:
            return self.quantified(d, sc)
        if k < 90:
            return [_sf(self.draw, ['and', 'or']), self.boolean(d + 1, sc), self.boolean(d + 1, sc)]
        if k < 96:
            return ['call', 'not', [self.boolean(d + 1, sc)]]
        return ['bool', k % 2 == 0]

    def binds(self, d, sc, flavors=None):
        """1-3 clauses `$v in seq`; later clauses may use earlier variables"""
        vars_, focus = sc
        n = _sf(self.draw, [1, 1, 1, 2, 2, 3])
        out = []
        for _ in range(n):
            fl = _sf(self.draw, flavors or 'iiinsm')
            nm = self.fresh()
            # the range expression never mentions the name it binds (neither an outer variable of that name nor an
            # inner binder): elementpath rejects that statically (known finding C08/range-mentions-own-name, pinned by tests)
            self.banned.append(nm)
            e = self.seq(fl, d + 1, (self.hide(vars_, nm), focus))
            self.banned.pop()
            out.append([nm, e])
            vars_ = vars_ + ((nm, 'item', fl),)
        return out, (vars_, focus)

    def quantified(self, d, sc):
        b, sc2 = self.binds(d, sc, 'iiis')
        return [_sf(self.draw, ['some', 'every']), b, self.boolean(d + 1, sc2)]

    # -- sequences --------------------------------------------------------------
    def seq(self, flavor, d, sc):
        vars_, focus = sc
        k = self.k()
        if self.reuse and vars_ and d < self.max_depth and self.k() < 35:
            # an inner binder (very likely re-binding a visible name), then an outer variable read again
            outer = [['var', nm] for nm, kind, fl in self.visible(vars_) if fl in _SUB[flavor]]
            if outer:
                kk = self.k(2)
                if kk == 0:
                    b, sc2 = self.binds(d, sc)
                    inner = ['for', b, self.seq(flavor, d + 1, sc2)]
                elif kk == 1:
                    inner = ['if', self.quantified(d, sc), self.seq(flavor, d + 1, sc), ['empty']]
                else:
                    inner = ['filter', self.seq(flavor, d + 1, sc), self.quantified(d + 1, (vars_, flavor))]
                return ['seq', inner, _sf(self.draw, outer)]
        if d >= self.max_depth or k < 22:
            cands = [['var', nm] for nm, kind, fl in self.visible(vars_) if fl in _SUB[flavor]]
            if focus is not None and focus in _SUB[flavor]:
                cands.append(['ctx'])
            if focus is not None and flavor in 'inm':
                cands.extend([['pos'], ['last']])
            if cands and self.k() < 55:
                return _sf(self.draw, cands)
            return lit_seq(self.draw, flavor)
        if k < 30:
            first = self.seq(flavor, d + 1, sc)
            outer = [['var', nm] for nm, kind, fl in self.visible(vars_) if fl in _SUB[flavor]]
            if self.reuse and outer and self.k() < 60:
                return ['seq', first, _sf(self.draw, outer)]        # the outer variable read AFTER an inner binder
            return ['seq', first, self.seq(flavor, d + 1, sc)]
        if k < 42:      # for
            b, sc2 = self.binds(d, sc)
            return ['for', b, self.seq(flavor, d + 1, sc2)]
        if k < 54:      # filter
            base = self.seq(flavor, d + 1, sc)
            sc2 = (vars_, flavor)
            kk = self.k()
            if kk < 30:
                pred = self.pos(d, sc2)
            else:
                pred = self.boolean(d + 1, sc2)
            return ['filter', base, pred]
        if k < 62 and self.v != '20':      # simple map
            f2 = _sf(self.draw, 'iiinsm')
            return ['map', self.seq(f2, d + 1, sc), self.seq(flavor, d + 1, (vars_, f2))]
        if k < 86:
            return self.seqfn(flavor, d, sc)
        if k < 91:
            return ['if', self.boolean(d + 1, sc), self.seq(flavor, d + 1, sc), self.seq(flavor, d + 1, sc)]
        if k < 95 and self.v != '20':
            nm = self.fresh()
            f2 = _sf(self.draw, 'iiinsm')
            e = self.seq(f2, d + 1, (self.hide(vars_, nm), focus))
            return ['let', [[nm, e]], self.seq(flavor, d + 1, (vars_ + ((nm, 'seq', f2),), focus))]
        if flavor in 'inm' and k < 98:
            return ['to', self.int1(d + 1, sc), self.int1(d + 1, sc)]
        return lit_seq(self.draw, flavor)

    def seqfn(self, flavor, d, sc):
        """a function of the C08 list producing a sequence of the flavour"""
        k = self.k()
        s = lambda fl=flavor: self.seq(fl, d + 1, sc)    # noqa: E731
        if k < 8:
            return ['call', 'reverse', [s()]]
        if k < 14 and self.v != '20':
            return ['call', _sf(self.draw, ['head', 'tail']), [s()]]
        if k < 30:
            if self.k() < 45:
                return ['call', 'subsequence', [s(), self.pos(d, sc)]]
            return ['call', 'subsequence', [s(), self.pos(d, sc), self.pos(d, sc)]]
        if k < 42:
            return ['call', 'insert-before', [s(), self.pos(d, sc, True), s()]]
        if k < 52:
            return ['call', 'remove', [s(), self.pos(d, sc, True)]]
        if k < 58:
            return ['call', _sf(self.draw, ['zero-or-one', 'one-or-more', 'exactly-one']), [s()]]
        if k < 66 and flavor in 'inm':
            fl = _sf(self.draw, 'iiinsu')
            return ['call', 'index-of', [self.seq(fl, d + 1, sc), self.item(fl, sc)]]
        if k < 76 and flavor in 'nm':
            fl = _sf(self.draw, 'iinnu')
            fn = _sf(self.draw, ['sum', 'avg', 'min', 'max', 'sum'])
            return ['call', fn, [self.seq(fl, d + 1, sc)]]
        if k < 76 and flavor == 'i':
            return ['call', _sf(self.draw, ['sum', 'min', 'max', 'count']), [s('i')]]
        if k < 84 and flavor in 'sm':
            if self.v == '31' and self.k() < 40:
                src = self.seq(_sf(self.draw, 'insmu'), d + 1, sc)
            else:
                src = s('s')
            if self.v != '20' and self.k() < 25:
                return ['call', 'string-join', [src]]
            return ['call', 'string-join', [src, ['str', _sf(self.draw, ['', ',', '-', ' '])]]]
        if k < 88 and flavor in 'sm':
            return ['call', _sf(self.draw, ['min', 'max']), [s('s')]]
        if k < 94 and flavor in 'inm':
            inner = ['call', _sf(self.draw, ['distinct-values', 'distinct-values', 'unordered']),
                     [self.seq(_sf(self.draw, 'insum'), d + 1, sc)]]
            return ['call', 'count', [inner]]
        return ['call', 'reverse', [s()]]


TOP = ((), None)


@st.composite
def nested_program(draw, version='31', max_depth=3):
    g = Gen(draw, version, max_depth, reuse=draw(_upto(9)) < 5)
    k = draw(_upto(99))
    if g.reuse and k < 60:
        # an outer binder at the root, so that inner binders have a name to re-bind
        fl = _sf(draw, 'iiinnsmu')
        b, sc2 = g.binds(0, TOP)
        if draw(_upto(2)):
            return ['for', b, g.seq(fl, 1, sc2)]
        return [_sf(draw, ['some', 'every']), b, g.boolean(1, sc2)]
    if k < 70:
        return g.seq(_sf(draw, 'iiinnsmu'), 0, TOP)
    if k < 85:
        return g.boolean(0, TOP)
    if k < 93:
        return g.int1(0, TOP)
    # implementation-dependent order: only at the root
    return ['call', _sf(draw, ['distinct-values', 'unordered']),
            [g.seq(_sf(draw, 'insum'), 1, TOP)]]


def direct_calls(draw, version):
    """one generated environment (S, T, a, b, x) -> the whole C08 function list applied to it"""
    fl = _sf(draw, 'iiinnnssmmuu')
    S = lit_seq(draw, fl)
    T = lit_seq(draw, fl if draw(_upto(9)) < 7 else 'm')
    a, b = pos_arg(draw), pos_arg(draw)
    ia = pos_arg(draw, True)
    x = lit_item(draw, fl if draw(_upto(9)) < 8 else 'm')
    if fl == 'u' and (draw(_upto(1)) == 1):
        x = ['str', _sf(draw, ['1', '2', 'x', ''])]
    zero = _sf(draw, [['empty'], ['int', 0], ['dec', '0.0'], ['dbl', '0.0'], ['str', 'z'], ['seq', ['int', 1], ['int', 2]]])
    sep = ['str', _sf(draw, ['', ',', '-', ' '])]
    c = lambda name, *args: ['call', name, list(args)]     # noqa: E731
    out = [c('count', S), c('empty', S), c('exists', S), c('reverse', S),
           c('subsequence', S, a), c('subsequence', S, a, b), c('insert-before', S, ia, T), c('remove', S, ia),
           c('index-of', S, x), c('distinct-values', S), c('unordered', S),
           c('zero-or-one', S), c('one-or-more', S), c('exactly-one', S),
           c('sum', S), c('sum', S, zero), c('avg', S), c('min', S), c('max', S),
           c('string-join', S, sep),
           ['filter', S, a], ['filter', S, ['vcmp', _sf(draw, _CMP), ['pos'], a]],
           ['filter', S, ['vcmp', _sf(draw, _CMP), ['pos'], ['arith', '-', ['last'], ['int', _sf(draw, [0, 1, 2])]]]],
           ['seq', S, T], ['to', ia, _sf(draw, [['int', 3], ['int', 0], ['call', 'count', [S]]])],
           ['for', [['x', S]], ['seq', ['var', 'x'], ['var', 'x']]],
           ['some', [['x', S], ['y', T]], ['call', 'exists', [['seq', ['var', 'x'], ['var', 'y']]]]],
           ['filter', S, ['gcmp', _sf(draw, ['=', '!=', '<', '>=']), ['pos'], ['seq', ['int', 1], ia]]],
           ['filter', ['filter', S, ['vcmp', _sf(draw, _CMP), ['pos'], a]], b],
           ['filter', c('subsequence', S, a, b), ['last']],
           ['filter', S, ['and', ['vcmp', 'gt', ['pos'], ['int', 1]], ['vcmp', 'lt', ['pos'], ['last']]]],
           ['for', [['x', S], ['y', c('subsequence', T, ['int', 1], c('count', ['var', 'x']))]],
            c('count', ['seq', ['var', 'x'], ['var', 'y']])],
           ['every', [['x', c('reverse', S)], ['y', ['seq', ['var', 'x'], T]]],
            c('exists', ['filter', ['seq', ['var', 'x'], ['var', 'y']], ['int', 2]])],
           c('count', c('insert-before', c('remove', S, ia), ia, T)),
           c('reverse', c('subsequence', c('reverse', S), a)),
           ]
    inner = ['filter', T, ['vcmp', _sf(draw, _CMP), ['pos'], _sf(draw, [['int', 2], ['last'], ['int', 1]])]]
    out += [    # the focus must be the outer one again after an inner focus has been used
        ['filter', S, ['and', c('exists', inner), ['vcmp', _sf(draw, _CMP), ['pos'], ia]]],
        ['filter', S, ['or', ['vcmp', 'eq', c('count', inner), ['pos']], ['vcmp', 'eq', ['pos'], ['last']]]],
        ['filter', S, ['seq', ['filter', c('count', inner), ['bool', False]], ['pos']]],
    ]
    if version == '31':
        out += stored_sequence_forms(draw, S, T, a, ia)
    # same-name shadowing: the outer $x / $y must be visible again after an inner binder of the same name
    X, Y = ['var', 'x'], ['var', 'y']
    inS = lambda v: c('exists', c('index-of', S, v))      # noqa: E731  true for every item of S except NaN
    body_c = ['and', ['some', [['x', T]], c('exists', X)], inS(X)]
    q1, q2 = _sf(draw, ['some', 'every']), _sf(draw, ['some', 'every'])
    out += [
        ['for', [['x', S]], ['seq', [q1, [['x', T]], c(_sf(draw, ['exists', 'empty']), X)], X]],
        ['every', [['x', S]], body_c],
        c('not', ['some', [['x', S]], c('not', body_c)]),
        ['some', [['x', S]], ['and', ['every', [['x', T]], c('exists', X)], inS(X)]],
        ['for', [['x', S], ['y', T]], ['if', [q2, [['y', S]], c('exists', c('index-of', X, Y))], Y, ['int', 0]]],
        ['for', [['x', S]], ['seq', ['for', [['x', T]], c('count', X)], X]],
        ['for', [['x', S]], ['seq', [q1, [['y', T], ['x', ['seq', Y, Y]]], ['bool', q1 == 'every']], X]],
        ['for', [['x', S]], ['seq', X, ['filter', T, [q2, [['x', ['ctx']]], c('exists', X)]], X]],
        [q1, [['x', S]], ['and', c('exists', ['for', [['x', T]], X]), inS(X)]],
        ['for', [['x', S]], ['for', [['x', ['seq', X, T]]], X]],      # legal XPath; known finding (rejected statically)
        # a later clause shadows an outer variable that an earlier clause reads (re-evaluated per outer iteration)
        ['for', [['y', S]], ['for', [['a', ['seq', ['int', 1], ['int', 1]]], ['b', Y], ['y', T]], ['seq', ['var', 'b'], Y]]],
        ['for', [['y', S]], [q2, [['a', ['seq', ['int', 1], ['int', 2]]], ['b', ['seq', Y, Y]], ['y', T]], inS(['var', 'b'])]],
    ]
    if version != '20':
        out += [
            ['let', [['x', S]], ['seq', c('count', ['for', [['x', T]], X]), X, [q1, [['x', T]], c('exists', X)], X]],
            ['for', [['x', S]], ['seq', ['let', [['x', T]], c('count', X)], X]],
            ['map', S, ['seq', ['for', [['x', ['ctx']]], ['seq', [q2, [['x', T]], c('empty', X)], X]], ['ctx']]],
        ]
    # the outer focus must be back after an inner focus was abandoned early or while later arguments are evaluated
    out += [
        ['filter', S, ['and', ['or', c('exists', inner), c('empty', inner)], ['vcmp', _sf(draw, _CMP), ['pos'], ia]]],
        ['filter', S, ['seq', ['filter', c('zero-or-one', ['filter', inner, ['int', 1]]), ['bool', False]], ['pos']]],
        ['for', [['x', S]], c('count', c('insert-before', inner, ['int', draw(_upto(3))], ['seq', ['var', 'x'], ['var', 'x']]))],
    ]
    if version != '20':
        k_ = draw(_upto(3))
        out += [
            ['map', S, ['seq', c('head', inner), ['ctx'], ['pos'], ['last']]],
            ['map', S, ['seq', c(_sf(draw, ['exists', 'empty']), inner), ['pos'], ['ctx']]],
            ['map', S, ['seq', ['filter', inner, ['int', 1]], ['ctx'], ['pos']]],
            ['map', S, c('insert-before', inner, ['int', k_], ['seq', ['ctx'], ['pos']])],
            ['map', S, c('insert-before', inner, ['pos'], ['ctx'])],
            ['map', S, c('subsequence', inner, ['pos'])],
            ['map', S, c('remove', inner, ['pos'])],
            ['map', S, c('index-of', inner, ['ctx'])],
            ['map', S, c('count', ['seq', c('subsequence', inner, ['int', 1], ['int', 1]), ['ctx'], ['last']])],
            ['map', S, ['seq', c('sum', c('index-of', inner, ['ctx'])), ['pos']]],
            ['map', S, ['if', c('exists', inner), ['seq', ['ctx'], ['pos']], ['seq', ['pos'], ['ctx']]]],
            ['map', S, ['seq', ['some', [['v', inner]], ['bool', True]], ['ctx'], ['every', [['v', inner]], ['bool', False]], ['pos']]],
        ]
    if version != '20':
        out += [c('head', S), c('tail', S), c('string-join', S), ['map', S, ['seq', ['pos'], ['last']]],
                ['map', S, ['ctx']],
                ['map', S, ['seq', c('count', inner), ['pos'], ['last']]],
                ['map', S, ['seq', ['map', T, ['pos']], ['pos'], ['last'], ['ctx']]],
                ['map', S, ['seq', ['ctx'], ['filter', inner, ['last']], ['ctx'], ['pos']]],
                ['map', ['map', S, ['seq', ['ctx'], ['pos']]], ['seq', ['pos'], ['last']]]]
    return out


def stored_sequence_forms(draw, S, T, a, ia):
    """sequences handed out by a map entry / array member (the stored list must never be modified by the consumer):
    the lookup is an operand of comma / insert-before / reverse / subsequence ... and is used again afterwards"""
    c = lambda name, *args: ['call', name, list(args)]     # noqa: E731
    M, A = ['var', 'm'], ['var', 'a']
    kind = draw(_upto(5))
    LS = [['dyn', M, [['str', 'k']]], ['lookup', M, 'k'], c('map:get', M, ['str', 'k']),
          ['dyn', A, [['int', 1]]], ['lookup', A, 1], c('array:get', A, ['int', 1])][kind]
    LT = [['dyn', M, [['str', 'j']]], ['lookup', M, 'j'], c('map:get', M, ['str', 'j']),
          ['dyn', A, [['int', 2]]], ['lookup', A, 2], c('array:get', A, ['int', 2])][kind]
    binds = [['m', ['mapc', [[['str', 'k'], S], [['str', 'j'], T]]]]] if kind < 3 else [['a', ['array', [S, T]]]]
    I = ['var', 'i']
    three = ['seq', ['int', 1], ['int', 2], ['int', 3]]
    forms = [
        ['seq', ['seq', LS, ['int', 3]], c('count', LS), LS],
        ['for', [['i', three]], c('count', ['seq', LS, I])],
        ['for', [['i', three]], ['seq', LS, I]],                                   # ONE comma expression evaluated 3 times
        ['seq', c('reverse', ['seq', LS, LT]), LS, LT],
        ['seq', c('count', c('insert-before', LS, ia, LT)), LS, c('count', LT)],
        ['seq', c('subsequence', ['seq', LS, LT, ['int', 0]], a), c('count', LS)],
        ['seq', ['every', [['x', ['seq', LS, LT]]], c('exists', ['var', 'x'])], c('count', ['seq', LS, LS])],
        ['for', [['i', ['seq', ['int', 1], ['int', 2]]]], ['seq', c('count', ['seq', ['seq', LS, I], LT]), c('count', LS)]],
        ['seq', ['map', ['seq', ['int', 1], ['int', 2]], c('count', ['seq', LS, ['ctx'], LT])], c('count', LS)],
        ['seq', ['filter', ['seq', LS, LT], ['last']], c('count', ['seq', LT, LS]), ['filter', LS, ['int', 1]]],
        ['seq', c('count', ['for', [['x', ['seq', LS, ['int', 9]]]], ['seq', ['var', 'x'], LS]]), c('count', LS)],
        ['seq', c('string-join', ['seq', LS, ['str', '|'], LS], ['str', ',']), c('count', LS)],
        ['let', [['s', LS]], ['seq', c('count', ['seq', ['var', 's'], ['var', 's'], ['int', 1]]), c('count', ['var', 's']), c('count', LS)]],
        ['seq', c('count', c('remove', ['seq', LS, LT], ia)), c('count', ['seq', LS, LT])],
    ]
    return [['let', binds, f] for f in forms]


@st.composite
def direct_batch(draw):
    version = _sf(draw, ['31', '31', '31', '30', '20'])
    return {'v': version, 'asts': direct_calls(draw, version)}


# --------------------------------------------------------------------------
# parts for the metamorphic equivalences (C08 'equiv'): the judge assembles both sides
# --------------------------------------------------------------------------
RELATIONS_20 = ['every-some', 'subseq3', 'subseq2', 'rev-rev', 'insert-count', 'remove-filter', 'sum-avg',
                'minmax-bound', 'filter-for', 'exists-empty', 'some-filter', 'comma-assoc', 'index-of-def',
                'last-reverse', 'first-subseq', 'distinct-bound', 'count-for']
RELATIONS_30 = RELATIONS_20 + ['tail-subseq', 'head-first', 'for-map', 'count-map']


def uses_var_under_focus(n, name, infocus=False):
    """True if $name occurs below an inner focus (then it cannot be replaced by '.')"""
    if not isinstance(n, list) or not n:
        return False
    t = n[0]
    if t == 'var':
        return infocus and n[1] == name
    if t in ('str', 'dec', 'dbl', 'flt', 'unt', 'nodes', 'int', 'bool'):
        return False
    if t in ('map', 'filter'):
        return uses_var_under_focus(n[1], name, infocus) or uses_var_under_focus(n[2], name, True)
    kids = n[1:] if isinstance(t, str) else n
    return any(uses_var_under_focus(c, name, infocus) for c in kids)


def subst_var_by_ctx(n, name):
    if not isinstance(n, list) or not n:
        return n
    if n[0] == 'var':
        return ['ctx'] if n[1] == name else n
    if n[0] in ('str', 'dec', 'dbl', 'flt', 'unt', 'nodes', 'int', 'bool'):
        return n
    return [subst_var_by_ctx(c, name) for c in n]


def _numeric_pos(draw):
    while True:
        a = pos_arg(draw)
        if a[0] in ('int', 'dec', 'dbl', 'flt'):
            return a


@st.composite
def equiv_case(draw):
    v = _sf(draw, ['31', '31', '30', '20'])
    rel = _sf(draw, RELATIONS_20 if v == '20' else RELATIONS_30)
    g = Gen(draw, v, max_depth=2)
    fl = _sf(draw, 'iiinnssmu')
    if rel in ('sum-avg',):
        fl = _sf(draw, 'iii')
    if rel in ('minmax-bound', 'index-of-def'):
        fl = _sf(draw, 'iis')
    if rel == 'distinct-bound':
        fl = _sf(draw, 'iisn')
    S = g.seq(fl, 0 if draw(_upto(9)) < 6 else 1, TOP)
    if rel == 'sum-avg' and draw(_upto(9)) < 4:
        S = ['seq', *[_sf(draw, _I + _D) for _ in range(1 + draw(_upto(5)))]]
    case = {'v': v, 'rel': rel, 'S': S, 'fl': fl}
    scx = ((('x', 'item', fl),), None)
    if rel in ('every-some', 'filter-for', 'some-filter'):
        case['P'] = g.boolean(1, scx)
    if rel in ('for-map',):
        case['F'] = g.seq(_sf(draw, 'iinsm'), 1, scx)
    if rel in ('subseq3', 'subseq2'):      # numeric arguments only (the equivalence is stated for xs:double)
        case['a'] = _numeric_pos(draw)
        case['b'] = _numeric_pos(draw)
    if rel in ('insert-count', 'remove-filter'):
        case['i'] = ['int', _sf(draw, POS_INT)] if draw(_upto(9)) < 7 else g.int1(1, TOP)
    if rel in ('insert-count', 'comma-assoc'):
        case['T'] = g.seq(_sf(draw, 'insmu'), 1, TOP)
        case['U'] = lit_seq(draw, _sf(draw, 'insmu'))
    if rel == 'index-of-def':
        case['x'] = lit_item(draw, fl)
    return case
