"""Reference XDM tree (RefTree) and definitional XPath 1.0 path evaluator (DESIGN 4.2).

Nothing here imports elementpath.  A RefTree is built from a normalised TreeSpec (vp.gen.xml) only.
The evaluator works on a JSON path AST (the generator produces ASTs and `render()` turns them into
XPath text, so no parser is shared with the code under test) and follows XPath 1.0 section 2:
for each context node take the axis in axis order, apply the node test with the axis' principal
node kind, apply the predicates in turn with proximity positions, union, document order.

AST
    Expr  = ['union', [PathExpr, PathExpr, ...]] | PathExpr
    PathExpr = ['path', abs, [Step...]]            abs: 0 relative, 1 '/', 2 '//'   ('/' alone: abs=1, no steps)
             | ['fpath', Expr, [Pred...], [Step...]]      (Expr)[p]... / step / step   (XPath 1.0 FilterExpr first)
    Step  = [sep, axis, Test, [Pred...], abbr]     sep '/' | '//' (ignored on the first step of a 'path')
                                                   abbr 1: use @, ., .. or omit child:: where possible
    Test  = ['name', prefix|None, local] | ['any'] | ['nsany', prefix] | ['node'] | ['text'] | ['comment']
          | ['pi', target|None]
    Pred  = ['num', n] | ['pos', op, n] | ['last'] | ['lastminus', k] | ['exists', Expr]
          | ['dec', '2.0'] | ['div', a, b] | ['lastdiv', k] | ['lastminusdec', '1.0']   numeric but not integer-typed values
          | ['cmp', Expr, op('='|'!='), 'literal'] | ['count', Expr, op, n]
          | ['not', Pred] | ['and', Pred, Pred] | ['or', Pred, Pred]

Document order: element, its namespace nodes, its attributes, its children.  The relative order of
the namespace nodes / attributes of ONE element is implementation-dependent in XDM: a RefTree starts
with (xml first, then declaration order; attributes in spec order) and `adopt_order()` lets a check
take the order that the implementation exposes, so that only *consistency* with it is demanded.
"""
from __future__ import annotations

from vp.gen.xml import PREFIX_URI, PATH_NAMESPACES, XML_NS, clark

FORWARD = ('child', 'descendant', 'descendant-or-self', 'following', 'following-sibling', 'self',
           'attribute', 'namespace')
REVERSE = ('parent', 'ancestor', 'ancestor-or-self', 'preceding', 'preceding-sibling')
AXES = FORWARD + REVERSE


class RNode:
    __slots__ = ('kind', 'name', 'value', 'parent', 'children', 'attrs', 'nss', 'order', 'addr')

    def __init__(self, kind, name=None, value=None, parent=None):
        self.kind, self.name, self.value, self.parent = kind, name, value, parent
        self.children, self.attrs, self.nss = [], [], []
        self.order, self.addr = -1, None

    def __repr__(self):
        return f'<{self.kind} {self.name or ""} {self.addr}>'

    @property
    def string_value(self):
        if self.kind in ('element', 'document'):
            out = []

            def walk(n):
                for c in n.children:
                    if c.kind == 'text':
                        out.append(c.value)
                    elif c.kind == 'element':
                        walk(c)
            walk(self)
            return ''.join(out)
        return self.value


class RefTree:
    """top: 'document' or 'element'.  misc: include document-level comments/PIs (needs document top).
    ns_mode: 'lxml' -> in-scope namespaces by inheritance of the declarations (+ xml);
             dict   -> ElementTree: every element has xml + exactly the given prefix map ('' allowed)
    dummy_doc: the document node is the implicit one of an Element root (fragment=None): it is never
    part of a result and reaching it upwards gives no verdict (flag 'doc_upward')."""

    def __init__(self, spec, top='document', misc=True, ns_mode='lxml', dummy_doc=False):
        self.spec, self.dummy_doc = spec, dummy_doc
        self.ns_mode = ns_mode
        self.doc = None
        if top == 'document':
            self.doc = RNode('document')
            if misc:
                for m in spec['pre']:
                    self._misc(m, self.doc)
            self.root = self._elem(spec['root'], self.doc, {})
            if misc:
                for m in spec['post']:
                    self._misc(m, self.doc)
            self.top = self.doc
        else:
            self.root = self._elem(spec['root'], None, {})
            self.top = self.root
        self.renumber()

    # -- construction -------------------------------------------------------
    def _misc(self, m, parent):
        if m['k'] == 'c':
            n = RNode('comment', None, m['v'] or '', parent)
        else:
            n = RNode('pi', m['tg'], m['v'] or '', parent)
        parent.children.append(n)
        return n

    def _elem(self, e, parent, scope):
        n = RNode('element', clark(e['ns'], e['n']), None, parent)
        if parent is not None:
            parent.children.append(n)
        sc = dict(scope)
        for p in e['decl']:
            sc.pop(p, None)
            sc[p] = PREFIX_URI[p]
        if self.ns_mode == 'lxml':
            inscope = sc
        else:
            inscope = {k: v for k, v in self.ns_mode.items() if k != 'xml'}
        n.nss.append(RNode('namespace', 'xml', XML_NS, n))
        for p, u in inscope.items():
            n.nss.append(RNode('namespace', p, u, n))
        for uri, local, v in e['a']:
            n.attrs.append(RNode('attribute', clark(uri, local), v, n))
        if e['t'] is not None:
            n.children.append(RNode('text', None, e['t'], n))
        for c in e['c']:
            if c['k'] == 'e':
                self._elem(c, n, sc)
            else:
                self._misc(c, n)
            if c['tl'] is not None:
                n.children.append(RNode('text', None, c['tl'], n))
        return n

    def renumber(self):
        self.nodes = []
        self.by_addr = {}

        def walk(n, addr):
            n.order, n.addr = len(self.nodes), addr
            self.nodes.append(n)
            self.by_addr[addr] = n
            for x in n.nss:
                x.order, x.addr = len(self.nodes), addr + (('ns', x.name),)
                self.nodes.append(x)
                self.by_addr[x.addr] = x
            for x in n.attrs:
                x.order, x.addr = len(self.nodes), addr + (('@', x.name),)
                self.nodes.append(x)
                self.by_addr[x.addr] = x
            for i, c in enumerate(n.children):
                walk(c, addr + (i,))
        walk(self.top, ())

    def adopt_order(self, addr, ns_prefixes=None, attr_names=None):
        """Reorder namespace nodes / attributes of the element at addr as observed; False if the sets differ."""
        n = self.by_addr[addr]
        ok = True
        if ns_prefixes is not None:
            if sorted(ns_prefixes) == sorted(x.name for x in n.nss):
                d = {x.name: x for x in n.nss}
                n.nss = [d[p] for p in ns_prefixes]
            else:
                ok = False
        if attr_names is not None:
            if sorted(attr_names) == sorted(x.name for x in n.attrs):
                d = {x.name: x for x in n.attrs}
                n.attrs = [d[p] for p in attr_names]
            else:
                ok = False
        return ok

    # -- axes (definitional) ---------------------------------------------------
    def _descendants(self, n):
        out = []

        def walk(x):
            for c in x.children:
                out.append(c)
                walk(c)
        walk(n)
        return out

    def _ancestors(self, n):          # nearest first (reverse document order)
        out = []
        p = n.parent
        while p is not None:
            out.append(p)
            p = p.parent
        return out

    def axis(self, n, axis):
        """nodes on the axis of n, in AXIS order (reverse axes: reverse document order)."""
        k = n.kind
        if axis == 'self':
            return [n]
        if axis == 'child':
            return list(n.children)
        if axis == 'descendant':
            return self._descendants(n)
        if axis == 'descendant-or-self':
            return [n] + self._descendants(n)
        if axis == 'parent':
            return [n.parent] if n.parent is not None else []
        if axis == 'ancestor':
            return self._ancestors(n)
        if axis == 'ancestor-or-self':
            return [n] + self._ancestors(n)
        if axis == 'attribute':
            return list(n.attrs) if k == 'element' else []
        if axis == 'namespace':
            return list(n.nss) if k == 'element' else []
        if axis in ('following-sibling', 'preceding-sibling'):
            if k in ('attribute', 'namespace') or n.parent is None:
                return []
            sibs = n.parent.children
            i = next(j for j, c in enumerate(sibs) if c is n)
            return sibs[i + 1:] if axis == 'following-sibling' else sibs[:i][::-1]
        if axis == 'following':
            desc = {id(x) for x in self._descendants(n)}
            return [m for m in self.nodes if m.order > n.order and m.kind not in ('attribute', 'namespace')
                    and id(m) not in desc]
        if axis == 'preceding':
            anc = {id(x) for x in self._ancestors(n)}
            return [m for m in self.nodes if m.order < n.order and m.kind not in ('attribute', 'namespace')
                    and id(m) not in anc][::-1]
        raise ValueError(axis)


# --------------------------------------------------------------------------
# evaluator
# --------------------------------------------------------------------------

class EvalInfo:
    """side information about one evaluation (what the verdict may rely on)."""
    __slots__ = ('order_dep', 'doc_upward', 'fp_from_attr_ns', 'reverse', 'positional', 'nonelem_ctx', 'max_inter',
                 'preceding_from_doc_child', 'ns_positional', 'paren_reverse_bite')

    def __init__(self):
        self.order_dep = False        # a positional predicate saw >= 2 attributes / namespace nodes of one element
        self.doc_upward = False       # an explicit axis step had the dummy document node on its axis
        self.fp_from_attr_ns = False  # following/preceding evaluated from an attribute/namespace context node
        self.reverse = False
        self.positional = False
        self.nonelem_ctx = False      # some step was evaluated from a non-element, non-document context node
        self.max_inter = 0
        self.preceding_from_doc_child = False   # preceding:: evaluated from a child of the document node
        self.paren_reverse_bite = False  # (reverse-axis step)[p1][positional]: >= 2 nodes reached the later positional predicate
        self.ns_positional = False    # a positional predicate numbered a list of >= 2 nodes containing a namespace node


_PRINCIPAL = {'attribute': 'attribute', 'namespace': 'namespace'}
_CMP = {'=': lambda a, b: a == b, '!=': lambda a, b: a != b, '<': lambda a, b: a < b, '>': lambda a, b: a > b,
        '<=': lambda a, b: a <= b, '>=': lambda a, b: a >= b}


class Evaluator:
    def __init__(self, tree: RefTree, namespaces=None):
        self.t = tree
        self.ns = {'xml': XML_NS, **PATH_NAMESPACES} if namespaces is None else namespaces

    # -- node tests ----------------------------------------------------------
    def test(self, n, axis, test):
        kind = test[0]
        principal = _PRINCIPAL.get(axis, 'element')
        if kind == 'node':
            return True
        if kind == 'text':
            return n.kind == 'text'
        if kind == 'comment':
            return n.kind == 'comment'
        if kind == 'pi':
            return n.kind == 'pi' and (test[1] is None or n.name == test[1])
        if n.kind != principal:
            return False
        if kind == 'any':
            return True
        if kind == 'name':
            prefix, local = test[1], test[2]
            if principal == 'namespace':
                return prefix is None and n.name == local
            uri = self.ns[prefix] if prefix is not None else None
            return n.name == clark(uri, local)
        if kind == 'nsany':
            if principal == 'namespace':
                return False
            uri = self.ns[test[1]]
            return n.name.startswith('{%s}' % uri)
        raise ValueError(test)

    # -- predicates ------------------------------------------------------------
    def pred(self, p, n, pos, size, info, top=True):
        """top: the predicate expression itself (a number there means position() = number); below and/or/not
        a number is converted with boolean() (XPath 1.0 3.4, 4.3)."""
        k = p[0]
        if k == 'num':
            return pos == p[1] if top else p[1] != 0
        if k == 'pos':
            return _CMP[p[1]](pos, p[2])
        if k == 'last':
            return pos == size if top else size != 0
        if k == 'lastminus':
            return pos == size - p[1] if top else size - p[1] != 0
        if k in ('dec', 'div', 'lastdiv', 'lastminusdec'):
            # a predicate whose value is a number of ANY numeric type is a position test (XPath 1.0 2.4, XPath 2.0 3.2.2)
            from fractions import Fraction
            v = Fraction(p[1]) if k == 'dec' else Fraction(p[1], p[2]) if k == 'div' else \
                Fraction(size, p[1]) if k == 'lastdiv' else size - Fraction(p[1])
            return pos == v if top else v != 0
        if k == 'exists':
            return bool(self.expr(p[1], n, info))
        if k == 'cmp':
            vals = [x.string_value for x in self.expr(p[1], n, info)]
            return any(_CMP[p[2]](v, p[3]) for v in vals)
        if k == 'count':
            return _CMP[p[2]](len(self.expr(p[1], n, info)), p[3])
        if k == 'not':
            return not self.pred(p[1], n, pos, size, info, False)
        if k == 'and':
            return self.pred(p[1], n, pos, size, info, False) and self.pred(p[2], n, pos, size, info, False)
        if k == 'or':
            return self.pred(p[1], n, pos, size, info, False) or self.pred(p[2], n, pos, size, info, False)
        raise ValueError(p)

    @staticmethod
    def is_positional(p, top=True):
        k = p[0]
        if k == 'pos':
            return True
        if k in ('num', 'last', 'lastminus', 'dec', 'div', 'lastdiv', 'lastminusdec'):
            return top or k not in ('num', 'dec', 'div')
        if k == 'not':
            return Evaluator.is_positional(p[1], False)
        if k in ('and', 'or'):
            return Evaluator.is_positional(p[1], False) or Evaluator.is_positional(p[2], False)
        return False

    def filter(self, cands, preds, info):
        """cands in the order that defines proximity positions."""
        for p in preds:
            if self.is_positional(p):
                info.positional = True
                if len(cands) > 1 and any(c.kind == 'namespace' for c in cands):
                    info.ns_positional = True
                seen = set()
                for c in cands:
                    if c.kind in ('attribute', 'namespace'):
                        key = (id(c.parent), c.kind)
                        if key in seen:
                            info.order_dep = True
                        seen.add(key)
            size = len(cands)
            cands = [c for i, c in enumerate(cands, 1) if self.pred(p, c, i, size, info)]
        return cands

    # -- steps / paths ---------------------------------------------------------
    def step(self, ctx_nodes, step, info, implicit=False):
        axis, test, preds = step[1], step[2], step[3]
        out = {}
        if axis in REVERSE:
            info.reverse = True
        for n in ctx_nodes:
            if n.kind not in ('element', 'document'):
                info.nonelem_ctx = True
            if axis in ('following', 'preceding') and n.kind in ('attribute', 'namespace'):
                info.fp_from_attr_ns = True
            if axis == 'preceding' and n.parent is not None and n.parent.kind == 'document':
                info.preceding_from_doc_child = True
            cands = [m for m in self.t.axis(n, axis) if self.test(m, axis, test)]
            if self.t.dummy_doc and not implicit and any(m.kind == 'document' for m in self.t.axis(n, axis)):
                info.doc_upward = True      # an explicit step reaches the implicit document node
            for m in self.filter(cands, preds, info):
                out[id(m)] = m
        res = sorted(out.values(), key=lambda m: m.order)
        info.max_inter = max(info.max_inter, len(res))
        return res

    def steps(self, nodes, steps, info, first_has_sep):
        for i, st in enumerate(steps):
            if st[0] == '//' and (first_has_sep or i > 0):
                nodes = self.step(nodes, ['/', 'descendant-or-self', ['node'], [], 0], info, True)
            nodes = self.step(nodes, st, info)
        return nodes

    def expr(self, e, ctx, info):
        k = e[0]
        if k == 'union':
            out = {}
            for sub in e[1]:
                for m in self.expr(sub, ctx, info):
                    out[id(m)] = m
            return sorted(out.values(), key=lambda m: m.order)
        if k == 'path':
            ab, steps = e[1], e[2]
            if ab == 0:
                return self.steps([ctx], steps, info, False)
            nodes = [self.t.top]
            if ab == 2:
                nodes = self.step(nodes, ['/', 'descendant-or-self', ['node'], [], 0], info, True)
            return self.steps(nodes, steps, info, False)
        if k == 'fpath':
            nodes = self.expr(e[1], ctx, info)
            inner = e[1]
            if len(e[2]) >= 2 and inner[0] == 'path' and inner[1] == 0 and len(inner[2]) == 1 and inner[2][0][1] in REVERSE:
                part = nodes
                for i, p in enumerate(e[2]):
                    if i > 0 and self.is_positional(p) and len(part) >= 2:
                        info.paren_reverse_bite = True
                    part = self.filter(part, [p], EvalInfo())
            nodes = self.filter(nodes, e[2], info)      # document order positions
            return self.steps(nodes, e[3], info, True)
        raise ValueError(e)

    def evaluate(self, e, ctx=None):
        info = EvalInfo()
        res = self.expr(e, ctx if ctx is not None else self.t.top, info)
        return res, info


# --------------------------------------------------------------------------
# rendering
# --------------------------------------------------------------------------

def render_test(t):
    k = t[0]
    if k == 'name':
        return (t[1] + ':' if t[1] is not None else '') + t[2]
    if k == 'any':
        return '*'
    if k == 'nsany':
        return t[1] + ':*'
    if k == 'node':
        return 'node()'
    if k == 'text':
        return 'text()'
    if k == 'comment':
        return 'comment()'
    if k == 'pi':
        return 'processing-instruction(%s)' % ('' if t[1] is None else "'%s'" % t[1])
    raise ValueError(t)


def render_pred(p):
    k = p[0]
    if k == 'num':
        return str(p[1])
    if k == 'pos':
        return 'position() %s %d' % (p[1], p[2])
    if k == 'last':
        return 'last()'
    if k == 'lastminus':
        return 'last() - %d' % p[1]
    if k == 'dec':
        return p[1]
    if k == 'div':
        return '%d div %d' % (p[1], p[2])
    if k == 'lastdiv':
        return 'last() div %d' % p[1]
    if k == 'lastminusdec':
        return 'last() - %s' % p[1]
    if k == 'exists':
        return render(p[1])
    if k == 'cmp':
        return "%s %s '%s'" % (render(p[1]), p[2], p[3])
    if k == 'count':
        return 'count(%s) %s %d' % (render(p[1]), p[2], p[3])
    if k == 'not':
        return 'not(%s)' % render_pred(p[1])
    if k in ('and', 'or'):
        return '(%s) %s (%s)' % (render_pred(p[1]), k, render_pred(p[2]))
    raise ValueError(p)


def render_step(st):
    _sep, axis, test, preds, abbr = st
    ps = ''.join('[%s]' % render_pred(p) for p in preds)
    if abbr:
        if axis == 'child':
            return render_test(test) + ps
        if axis == 'attribute':
            return '@' + render_test(test) + ps
        if axis == 'self' and test == ['node'] and not preds:
            return '.'
        if axis == 'parent' and test == ['node'] and not preds:
            return '..'
    return '%s::%s%s' % (axis, render_test(test), ps)


def render(e):
    k = e[0]
    if k == 'union':
        return ' | '.join(render(x) for x in e[1])
    if k == 'path':
        ab, steps = e[1], e[2]
        s = {0: '', 1: '/', 2: '//'}[ab]
        for i, st in enumerate(steps):
            if i > 0:
                s += st[0]
            s += render_step(st)
        return s
    if k == 'fpath':
        s = '(%s)' % render(e[1]) + ''.join('[%s]' % render_pred(p) for p in e[2])
        for st in e[3]:
            s += st[0] + render_step(st)
        return s
    raise ValueError(e)


def iter_steps(e):
    """all steps of an expression, including those inside predicates."""
    k = e[0]
    if k == 'union':
        for x in e[1]:
            yield from iter_steps(x)
        return
    preds = []
    if k == 'path':
        steps = e[2]
    else:
        yield from iter_steps(e[1])
        preds = list(e[2])
        steps = e[3]
    for st in steps:
        yield st
        preds.extend(st[3])
    for p in preds:
        yield from _pred_steps(p)


def _pred_steps(p):
    k = p[0]
    if k in ('exists', 'cmp', 'count'):
        yield from iter_steps(p[1])
    elif k == 'not':
        yield from _pred_steps(p[1])
    elif k in ('and', 'or'):
        yield from _pred_steps(p[1])
        yield from _pred_steps(p[2])


# --------------------------------------------------------------------------
# structural addresses of implementation nodes (through their own links only)
# --------------------------------------------------------------------------

def ep_address(node, top=None):
    """address of an elementpath node via parent/children links; ('?', reason) parts when broken."""
    parts = []
    n = node
    guard = 0
    while n is not top and getattr(n, 'parent', None) is not None:
        guard += 1
        if guard > 200:
            return ('?', 'parent-cycle')
        p = n.parent
        kind = n.node_kind
        if kind == 'attribute':
            parts.append(('@', n.name))
        elif kind == 'namespace':
            parts.append(('ns', n.name or ''))
        else:
            idx = [i for i, c in enumerate(p.children) if c is n]
            if len(idx) != 1:
                return ('?', 'not-in-parent-children' if not idx else 'twice-in-parent-children')
            parts.append(idx[0])
        n = p
    if top is not None and n is not top:
        return ('?', 'foreign-root')
    return tuple(reversed(parts))


EP_KIND = {'document': 'document', 'element': 'element', 'attribute': 'attribute', 'namespace': 'namespace',
           'text': 'text', 'comment': 'comment', 'pi': 'processing-instruction'}


def ep_find(top, addr):
    """implementation node at a structural address (through children/attributes/namespace_nodes)."""
    n = top
    for part in addr:
        if isinstance(part, int):
            n = n.children[part]
        elif part[0] == '@':
            n = next(x for x in n.attributes if x.name == part[1])
        else:
            n = next(x for x in n.namespace_nodes if (x.name or '') == part[1])
    return n


def adopt_all(ref: 'RefTree', top) -> bool:
    """take the implementation's attribute/namespace order; False when the structure differs (C02/tree reports it)."""
    ok = True
    try:
        for rn in [r for r in ref.nodes if r.kind in ('element', 'document')]:
            n = ep_find(top, rn.addr)
            if n.node_kind != EP_KIND[rn.kind] or [c.node_kind for c in n.children] != [EP_KIND[c.kind] for c in rn.children]:
                return False
            if rn.kind == 'element':
                ok &= ref.adopt_order(rn.addr, [x.name or '' for x in n.namespace_nodes], [x.name for x in n.attributes])
    except (IndexError, StopIteration, AttributeError, TypeError):
        return False
    ref.renumber()
    return ok


def lxml_result_address(built, item, doc_top=True):
    """address of one lxml xpath() result item (element/comment/PI/smart string); None for namespace tuples."""
    if isinstance(item, tuple):
        return None
    if isinstance(item, str):
        par = item.getparent()
        if par is None:
            return ('?', 'string-without-parent')
        if item.is_attribute:
            return built.conv(built.obj_addr[id(par)], doc_top) + (('@', item.attrname),)
        if item.is_tail:
            return built.conv(built.tail_addr[id(par)], doc_top)
        return built.conv(built.text_addr[id(par)], doc_top)
    return built.conv(built.obj_addr[id(item)], doc_top)


# --------------------------------------------------------------------------
# self-test: XPath 1.0 section 2.5 abbreviation examples on a fixed document, cross-checked with libxml2
# --------------------------------------------------------------------------

def _p(ab, *steps):
    return ['path', ab, list(steps)]


def _s(axis, test, preds=(), sep='/', abbr=1):
    return [sep, axis, test, list(preds), abbr]


def self_test():
    from vp.gen.xml import normalize, materialize
    E = lambda n, c=(), a=(), t=None, tl=None: {'k': 'e', 'ns': None, 'n': n, 'decl': [], 'a': [list(x) for x in a],
                                               't': t, 'c': list(c), 'tl': tl}
    spec = normalize({'root': E('doc', [
        E('chapter', [E('title', t='Intro'), E('para', a=[(None, 'type', 'warning')], t='p1'), E('para', t='p2'),
                      E('section', [E('para', t='p3'), {'k': 'c', 'v': 'cm', 'tl': 'tail'}])]),
        E('chapter', [E('title', t='Two'), E('para', t='p4', a=[(None, 'type', 'warning')]),
                      {'k': 'p', 'tg': 'x', 'v': 'y', 'tl': None}, E('para', t='p5', a=[(None, 'type', 'warning')])]),
        E('appendix', [E('para', t='p6')]),
    ]), 'pre': [], 'post': []})
    tree = RefTree(spec)
    ev = Evaluator(tree)
    nm = lambda l: ['name', None, l]
    ctx = tree.root
    cases = [
        (_p(0, _s('child', nm('chapter'))), 2),
        (_p(0, _s('child', ['any'])), 3),
        (_p(0, _s('child', ['text'])), 0),
        (_p(2, _s('child', nm('para'))), 6),
        (_p(0, _s('child', nm('chapter'), [['num', 2]]), _s('child', nm('para'), [['last']])), 1),
        (_p(0, _s('child', ['any']), _s('child', nm('para'))), 5),
        (_p(1, _s('child', nm('doc')), _s('child', nm('chapter'), [['num', 2]]), _s('child', nm('para'), [['num', 1]])), 1),
        (_p(0, _s('child', nm('chapter')), _s('child', nm('para'), sep='//')), 5),
        (_p(2, _s('child', nm('para'), [['cmp', _p(0, _s('attribute', nm('type'))), '=', 'warning']])), 3),
        (_p(2, _s('child', nm('para'), [['cmp', _p(0, _s('attribute', nm('type'))), '=', 'warning'], ['num', 2]])), 1),
        (_p(2, _s('child', nm('para'), [['num', 2], ['cmp', _p(0, _s('attribute', nm('type'))), '=', 'warning']])), 1),
        (_p(0, _s('child', nm('chapter'), [['exists', _p(0, _s('child', nm('title')))]])), 2),
        (_p(0, _s('child', nm('chapter'), [['cmp', _p(0, _s('child', nm('title'))), '=', 'Intro']])), 1),
        (_p(2, _s('child', nm('section')), _s('parent', ['node'])), 1),
        (_p(2, _s('child', nm('section')), _s('preceding', nm('para'), [['num', 1]], abbr=0)), 1),
        (_p(2, _s('child', nm('title')), _s('following', ['node'], abbr=0)), 20),
        (_p(2, _s('child', ['comment']), _s('following-sibling', ['node'], abbr=0)), 1),
        (_p(2, _s('attribute', nm('type')), _s('following', nm('para'), abbr=0)), 5),
        (['fpath', _p(2, _s('child', nm('para'))), [['last']], [_s('ancestor', ['any'], [['num', 1]], abbr=0)]], 1),
        (['union', [_p(2, _s('child', nm('title'))), _p(2, _s('child', ['pi', 'x']))]], 3),
        (_p(2, _s('namespace', ['any'], abbr=0)), 13),
    ]
    b = materialize(spec, 'lxml')
    for ast, n in cases:
        res, info = ev.evaluate(ast, ctx)
        assert len(res) == n, (render(ast), n, res)
        assert [x.order for x in res] == sorted({x.order for x in res})
        if info.fp_from_attr_ns:
            continue
        got = b.root.xpath(render(ast))
        addrs = [lxml_result_address(b, x) for x in got]
        if None in addrs:
            assert len(addrs) == n
        else:
            assert addrs == [x.addr for x in res], (render(ast), addrs, [x.addr for x in res])
    # the one literal answer that pins reverse-axis numbering
    res, _ = ev.evaluate(_p(2, _s('child', nm('section')), _s('preceding', nm('para'), [['num', 1]], abbr=0)), ctx)
    assert res[0].string_value == 'p2'
    assert tree.root.string_value == 'Introp1p2p3tailTwop4p5p6'


# --------------------------------------------------------------------------
# which XDM tree does an (input tree, root kind, fragment, namespaces) configuration denote?
# --------------------------------------------------------------------------

def tree_config(spec, backend, rootkind, fragment, namespaces=None):
    """-> dict(top='document'|'element', misc=bool, ns_mode=..., ctx_dummy=bool)

    fragment=True: the tree is the root element's subtree.  fragment=False: a document node on top
    (lxml: the element's real document, with its comment/PI siblings).  fragment=None: root kind preserved,
    except that an lxml root element with document-level siblings keeps them (document on top).
    ctx_dummy: an Element root with fragment=None is evaluated with an implicit document node that is
    never part of a result (documented behaviour of XPathContext)."""
    has_misc = backend == 'lxml' and bool(spec['pre'] or spec['post'])
    if fragment is True:
        top = 'element'
    elif fragment is False:
        top = 'document'
    else:
        top = 'document' if (rootkind == 'doc' or has_misc) else 'element'
    return {'top': top, 'misc': backend == 'lxml' and top == 'document',
            'ns_mode': 'lxml' if backend == 'lxml' else dict(namespaces or {}),
            'ctx_dummy': fragment is None and top == 'element'}


def ref_tree(spec, cfg, for_context=False):
    """RefTree of a configuration; for_context=True models the implicit document of ctx_dummy."""
    if for_context and cfg['ctx_dummy']:
        return RefTree(spec, 'document', False, cfg['ns_mode'], dummy_doc=True)
    return RefTree(spec, cfg['top'], cfg['misc'], cfg['ns_mode'])
