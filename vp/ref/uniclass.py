"""Reference character sets for XSD regex escapes, written from XSD Part 2 App. F/G
and XML 1.0 (5th ed.) productions [4] NameStartChar and [4a] NameChar.

`in_escape(letter, cp)` returns True/False, or None when the specifications
disagree between XSD 1.0 (XML 1.0 2nd ed. Letter tables) and XSD 1.1 (5th ed.
NameStartChar) so that no verdict is asserted.
"""
import unicodedata

_NSC = [(0x3A, 0x3A), (0x41, 0x5A), (0x5F, 0x5F), (0x61, 0x7A), (0xC0, 0xD6), (0xD8, 0xF6), (0xF8, 0x2FF),
        (0x370, 0x37D), (0x37F, 0x1FFF), (0x200C, 0x200D), (0x2070, 0x218F), (0x2C00, 0x2FEF),
        (0x3001, 0xD7FF), (0xF900, 0xFDCF), (0xFDF0, 0xFFFD), (0x10000, 0xEFFFF)]
_NC_EXTRA = [(0x2D, 0x2E), (0x30, 0x39), (0xB7, 0xB7), (0x300, 0x36F), (0x203F, 0x2040)]


def _in(ranges, cp):
    return any(lo <= cp <= hi for lo, hi in ranges)


def is_name_start_char(cp: int) -> bool:
    return _in(_NSC, cp)


def is_name_char(cp: int) -> bool:
    return _in(_NSC, cp) or _in(_NC_EXTRA, cp)


def category(cp: int) -> str:
    return unicodedata.category(chr(cp))


def in_category(name: str, cp: int) -> bool:
    c = category(cp)
    return c == name if len(name) == 2 else c[0] == name


# code points < 0x80 plus a few BMP points on which XML 1.0 2e Letter/NameChar and 5e agree
_IC_SAFE_MAX = 0x7F
_IC_SAFE_EXTRA = {0xB7, 0xC0, 0xD7, 0xE9, 0xF7, 0x3A9, 0x4E00}


def in_escape(letter: str, cp: int):
    """letter in 'sdwic' (lower case); caller negates for upper case."""
    if letter == 's':
        return cp in (0x20, 0x9, 0xA, 0xD)
    if letter == 'd':
        return category(cp) == 'Nd'
    if letter == 'w':
        return category(cp)[0] not in 'PZC'
    if letter in 'ic':
        if cp > _IC_SAFE_MAX and cp not in _IC_SAFE_EXTRA:
            return None
        return is_name_start_char(cp) if letter == 'i' else is_name_char(cp)
    raise ValueError(letter)


CATEGORIES = ('Cc', 'Cf', 'Cs', 'Co', 'Cn', 'Lu', 'Ll', 'Lt', 'Lm', 'Lo', 'Mn', 'Mc', 'Me', 'Nd', 'Nl', 'No',
              'Pc', 'Pd', 'Ps', 'Pe', 'Pi', 'Pf', 'Po', 'Sm', 'Sc', 'Sk', 'So', 'Zs', 'Zl', 'Zp')
MAJORS = ('C', 'L', 'M', 'N', 'P', 'S', 'Z')

# A few blocks transcribed from Blocks.txt (stable since Unicode 2.0 / 3.x), XSD names
BLOCKS = {
    'BasicLatin': (0x0000, 0x007F),
    'Latin-1Supplement': (0x0080, 0x00FF),
    'LatinExtended-A': (0x0100, 0x017F),
    'Cyrillic': (0x0400, 0x04FF),
    'Hebrew': (0x0590, 0x05FF),
    'Arabic': (0x0600, 0x06FF),
    'GeneralPunctuation': (0x2000, 0x206F),
    'Hiragana': (0x3040, 0x309F),
}


def self_test():
    assert is_name_start_char(ord('A')) and is_name_start_char(ord('_')) and is_name_start_char(ord(':'))
    assert not is_name_start_char(ord('-')) and is_name_char(ord('-')) and is_name_char(ord('7'))
    assert not is_name_char(ord(' ')) and not is_name_char(0xD7) and is_name_char(0xB7)
    assert in_escape('d', ord('5')) and in_escape('d', 0x0663) and not in_escape('d', ord('a'))
    assert in_escape('w', ord('$')) and in_escape('w', ord('a')) and not in_escape('w', ord('_'))
    assert not in_escape('w', ord(' ')) and not in_escape('w', ord('-')) and in_escape('w', ord('+'))
    assert in_escape('s', 0x20) and not in_escape('s', 0xA0) and not in_escape('s', 0x0B)
