"""Reference model of the XPath F&O numeric tower (DESIGN 4.5).

Independent of elementpath: python ints, fractions.Fraction and IEEE doubles only.

A *value* is a pair ``(type, v)``:
    'integer'  v: int
    'decimal'  v: Fraction            (xs:decimal has no negative zero)
    'float'    v: python float that is exactly representable in binary32
    'double'   v: python float
The result of an operation is an :class:`Exp` (what F&O 3.1 section 4 demands, including
the freedom it leaves: implementation-defined decimal precision, overflow/underflow
options, unspecified sign of a zero remainder).

Transcribed from: XQuery and XPath Functions and Operators 3.1, sections 4.2 (op:numeric-*),
4.4 (fn:abs/ceiling/floor/round/round-half-to-even); XPath 1.0 sections 3.5, 4.4 for the
'number' (all double) semantics.
"""
from __future__ import annotations

import math
import re
import struct
from fractions import Fraction

TYPES = ('integer', 'decimal', 'float', 'double')
RANK = {'integer': 0, 'decimal': 1, 'float': 2, 'double': 3}
DEC_DIGITS = 18          # digits every conformant processor must keep for xs:decimal
DEC_RTOL = Fraction(1, 10 ** 17)   # relative error of an 18-digit truncation


# --------------------------------------------------------------------------
# IEEE helpers
# --------------------------------------------------------------------------

def round_to_binary(q: Fraction, p: int, emin: int, emax: int) -> float:
    """Correctly rounded (nearest, ties to even) value of rational q in the binary format with
    p significant bits, normal exponent range emin..emax (binary32: 24,-126,127; binary64: 53,-1022,1023).
    The result is returned as a python float (exact for both formats); overflow gives +-inf."""
    if q == 0:
        return 0.0
    sign = -1 if q < 0 else 1
    a = abs(q)
    e = a.numerator.bit_length() - a.denominator.bit_length()
    if a < Fraction(2) ** e:          # make 2^e <= a < 2^(e+1)
        e -= 1
    elif a >= Fraction(2) ** (e + 1):
        e += 1
    quantum = Fraction(2) ** (max(e, emin) - p + 1)
    n = round(a / quantum)            # Fraction.__round__: ties to even
    r = n * quantum
    if r >= Fraction(2) ** (emax + 1):
        return sign * math.inf
    res = float(r)                    # exact: r has <= 53 significant bits and is in double range
    assert Fraction(res) == r
    return sign * res


def f32_of_rational(q: Fraction) -> float:
    return round_to_binary(q, 24, -126, 127)


def f64_of_rational(q: Fraction) -> float:
    """nearest double: python's int/int true division is correctly rounded (checked against
    round_to_binary in self_test)"""
    try:
        return q.numerator / q.denominator
    except OverflowError:
        return math.inf if q > 0 else -math.inf


def f32(x: float) -> float:
    """double -> nearest binary32 (as python float)."""
    if math.isnan(x) or math.isinf(x):
        return x
    try:
        return struct.unpack('<f', struct.pack('<f', x))[0]
    except OverflowError:
        return math.copysign(math.inf, x)


def is_f32(x: float) -> bool:
    return math.isnan(x) or f32(x) == x


def is_neg_zero(x) -> bool:
    return isinstance(x, float) and x == 0 and math.copysign(1.0, x) < 0


F32_MIN_NORMAL = 2.0 ** -126
F64_MIN_NORMAL = 2.0 ** -1022


# --------------------------------------------------------------------------
# lexical -> value
# --------------------------------------------------------------------------
_INT_RE = re.compile(r'^[+-]?[0-9]+$')
_DEC_RE = re.compile(r'^[+-]?(?:[0-9]+(?:\.[0-9]*)?|\.[0-9]+)$')
_DBL_RE = re.compile(r'^[+-]?(?:[0-9]+(?:\.[0-9]*)?|\.[0-9]+)(?:[eE][+-]?[0-9]+)?$')


def rational_of_lexical(lex: str) -> Fraction:
    """Exact rational denoted by a decimal / scientific numeral."""
    m = re.match(r'^([+-]?)([0-9]*)(?:\.([0-9]*))?(?:[eE]([+-]?[0-9]+))?$', lex)
    if not m or not (m.group(2) or m.group(3)):
        raise ValueError(lex)
    sign, ip, fp, ex = m.group(1), m.group(2) or '', m.group(3) or '', int(m.group(4) or 0)
    q = Fraction(int((ip + fp) or '0'), 10 ** len(fp)) * Fraction(10) ** ex
    return -q if sign == '-' else q


def parse(typ: str, lex: str):
    """XSD lexical -> reference value; raises ValueError for a lexical outside the lexical space."""
    s = lex.strip(' \t\n\r')
    if typ == 'integer':
        if not _INT_RE.match(s):
            raise ValueError(lex)
        return int(s)
    if typ == 'decimal':
        if not _DEC_RE.match(s):
            raise ValueError(lex)
        return rational_of_lexical(s)
    if typ in ('double', 'float', 'untypedAtomic'):
        if s in ('INF', '+INF'):
            return math.inf
        if s == '-INF':
            return -math.inf
        if s == 'NaN':
            return math.nan
        if not _DBL_RE.match(s):
            raise ValueError(lex)
        q = rational_of_lexical(s)
        v = f32_of_rational(q) if typ == 'float' else f64_of_rational(q)
        if q == 0 and s.startswith('-'):
            v = -0.0
        elif v == 0 and q < 0:
            v = -0.0
        return v
    raise ValueError(typ)


def make(typ: str, lex: str):
    """(type, value) for a typed lexical; xs:untypedAtomic is promoted to xs:double (XPath 3.1 3.5)."""
    if typ == 'untypedAtomic':
        return ('double', parse('double', lex))
    return (typ, parse(typ, lex))


def to_rational(v) -> Fraction:
    return Fraction(v)


def finite(val) -> bool:
    t, v = val
    return t in ('integer', 'decimal') or not (math.isnan(v) or math.isinf(v))


def convert(val, typ: str):
    """Numeric promotion integer -> decimal -> float -> double (XPath 3.1 B.1)."""
    t, v = val
    if t == typ:
        return val
    assert RANK[t] < RANK[typ], (t, typ)
    if typ == 'decimal':
        return ('decimal', Fraction(v))
    if typ == 'float':
        return ('float', f32_of_rational(Fraction(v)))
    if t == 'float':
        return ('double', v)
    return ('double', f64_of_rational(Fraction(v)))


def promote(a, b):
    t = a[0] if RANK[a[0]] >= RANK[b[0]] else b[0]
    return t, convert(a, t)[1], convert(b, t)[1]


def sig_digits(q: Fraction) -> int | None:
    """Number of significant decimal digits of q, None when the expansion does not terminate."""
    if q == 0:
        return 1
    d = q.denominator
    k = 0
    while d % 10 == 0:
        d //= 10
        k += 1
    twos = fives = 0
    while d % 2 == 0:
        d //= 2
        twos += 1
    while d % 5 == 0:
        d //= 5
        fives += 1
    if d != 1:
        return None
    scale = k + max(twos, fives)
    n = abs(q.numerator) * 10 ** scale // q.denominator
    s = str(n).rstrip('0') if scale == 0 else str(n)
    return len(s.lstrip('0')) or 1


# --------------------------------------------------------------------------
# expectation
# --------------------------------------------------------------------------

class Exp:
    """What the specification demands of a result.

    type      expected XPath type name, or None for an error
    value     expected value (int, Fraction, float)
    codes     for an error: the acceptable error codes
    rtol      Fraction: acceptable relative error (decimal results beyond 18 digits)
    any_zero  the sign of a zero result is not specified
    alts      further acceptable values (same type)
    or_codes  error codes that are acceptable *instead of* the value (overflow/underflow options)
    note      which rule produced it
    """
    __slots__ = ('type', 'value', 'codes', 'rtol', 'any_zero', 'alts', 'or_codes', 'note')

    def __init__(self, type=None, value=None, codes=(), rtol=None, any_zero=False, alts=(), or_codes=(), note=''):
        self.type, self.value, self.codes, self.rtol = type, value, tuple(codes), rtol
        self.any_zero, self.alts, self.or_codes, self.note = any_zero, tuple(alts), tuple(or_codes), note

    @property
    def is_error(self):
        return self.type is None

    def __repr__(self):
        if self.is_error:
            return 'error(' + '|'.join(self.codes) + ')'
        s = f'{self.type}({fmt(self.value)})'
        if self.alts:
            s += ' or ' + ' or '.join(fmt(x) for x in self.alts)
        if self.rtol:
            s += ' ~rel 1e-17'
        if self.any_zero:
            s += ' (either zero)'
        if self.or_codes:
            s += ' or error ' + '|'.join(self.or_codes)
        return s

    def accepts_value(self, v) -> bool:
        """v: int / Fraction / float already of the expected type's representation."""
        for w in (self.value,) + self.alts:
            if same_value(w, v, self.any_zero):
                return True
            if self.rtol is not None and not isinstance(w, float) and not isinstance(v, float):
                if w != 0 and abs(Fraction(v) - Fraction(w)) <= self.rtol * abs(Fraction(w)):
                    return True
        return False


def fmt(v) -> str:
    if isinstance(v, Fraction):
        if sig_digits(v) is not None:
            return dec_str(v)
        return f'{v.numerator}/{v.denominator}'
    if isinstance(v, float):
        return repr(v)
    return str(v)


def dec_str(q: Fraction) -> str:
    """Exact decimal numeral of a rational with a terminating expansion."""
    assert sig_digits(q) is not None
    d, scale = q.denominator, 0
    while (10 ** scale) % d:
        scale += 1
    n = abs(q.numerator) * 10 ** scale // d
    s = str(n).rjust(scale + 1, '0')
    body = s if scale == 0 else s[:-scale] + '.' + s[-scale:]
    return ('-' if q < 0 else '') + body


def same_value(w, v, any_zero=False) -> bool:
    if isinstance(w, float) or isinstance(v, float):
        if not (isinstance(w, float) and isinstance(v, float)):
            return False
        if math.isnan(w) or math.isnan(v):
            return math.isnan(w) and math.isnan(v)
        if w == 0 and v == 0:
            return any_zero or math.copysign(1, w) == math.copysign(1, v)
        return w == v
    return w == v


def error(*codes, note=''):
    return Exp(None, None, codes=codes, note=note)


def _dec_result(q: Fraction, note=''):
    """xs:decimal result q: exact when it fits the 18 digits every processor keeps."""
    n = sig_digits(q)
    if n is not None and n <= DEC_DIGITS:
        return Exp('decimal', q, note=note)
    return Exp('decimal', q, rtol=DEC_RTOL, note=note + ' (beyond 18 digits: implementation-defined rounding)')


def _fp_result(typ: str, x: float, exact: Fraction | None = None, note=''):
    """float/double result with the overflow / underflow options of F&O 4.2."""
    if typ == 'float':
        x = f32(x)
    if math.isnan(x):
        return Exp(typ, x, note=note)
    if math.isinf(x):
        if exact is not None:      # finite operands: overflow -> INF or FOAR0002
            return Exp(typ, x, or_codes=('FOAR0002',), note=note + ' overflow')
        return Exp(typ, x, note=note)
    tiny = F32_MIN_NORMAL if typ == 'float' else F64_MIN_NORMAL
    if exact is not None and exact != 0 and abs(exact) < tiny:
        # underflow: 0.0E0, +-2**Emin, a denormalized value, or FOAR0002
        s = -1.0 if exact < 0 else 1.0
        # ... each of them with the sign of the exact result (IEEE 754: a rounded result keeps its sign)
        return Exp(typ, x, alts=(s * 0.0, s * tiny), or_codes=('FOAR0002',), note=note + ' underflow')
    return Exp(typ, x, note=note)


# --------------------------------------------------------------------------
# binary operators (F&O 3.1 4.2)
# --------------------------------------------------------------------------

def _trunc(q: Fraction) -> int:
    return int(q)     # Fraction.__trunc__: toward zero


def binop(op: str, a, b) -> Exp:
    """op in + - * div idiv mod on two (type, value) operands."""
    t, x, y = promote(a, b)
    if t in ('integer', 'decimal'):
        qx, qy = Fraction(x), Fraction(y)
        if op in ('+', '-', '*'):
            r = qx + qy if op == '+' else qx - qy if op == '-' else qx * qy
            if t == 'integer':
                return Exp('integer', int(r), note='exact integer')
            return _dec_result(r, 'exact decimal')
        if qy == 0:
            return error('FOAR0001', note='integer/decimal zero divisor')
        if op == 'div':
            return _dec_result(qx / qy, 'decimal division')
        n = _trunc(qx / qy)
        # xs:decimal operands: a processor may hit its digit limit on the integer quotient (FOAR0002)
        lim = ('FOAR0002',) if t == 'decimal' and len(str(abs(n))) > DEC_DIGITS else ()
        if op == 'idiv':
            return Exp('integer', n, or_codes=lim, note='idiv truncates toward zero')
        if op == 'mod':
            r = qx - qy * n
            if t == 'integer':
                return Exp('integer', int(r), note='mod has the sign of the dividend')
            e = _dec_result(r, 'mod has the sign of the dividend')
            e.or_codes = lim
            return e
        raise ValueError(op)

    # float / double: IEEE 754
    nan = math.isnan(x) or math.isnan(y)
    fin = not nan and not math.isinf(x) and not math.isinf(y)
    if op in ('+', '-', '*'):
        r = x + y if op == '+' else x - y if op == '-' else x * y
        exact = None
        if fin:
            qx, qy = Fraction(x), Fraction(y)
            exact = qx + qy if op == '+' else qx - qy if op == '-' else qx * qy
        return _fp_result(t, r, exact, 'IEEE ' + op)
    if op == 'div':
        if nan:
            return Exp(t, math.nan, note='NaN operand')
        if y == 0:
            if x == 0 or math.isnan(x):
                return Exp(t, math.nan, note='0 div 0')
            s = math.copysign(1, x) * math.copysign(1, y)
            return Exp(t, s * math.inf, note='x div +-0')
        if math.isinf(x) and math.isinf(y):
            return Exp(t, math.nan, note='INF div INF')
        r = x / y
        exact = Fraction(x) / Fraction(y) if fin else None
        return _fp_result(t, r, exact, 'IEEE div')
    if op == 'idiv':
        if y == 0:
            codes = ('FOAR0001', 'FOAR0002') if (nan or math.isinf(x)) else ('FOAR0001',)
            return error(*codes, note='idiv by zero')
        if nan or math.isinf(x):
            return error('FOAR0002', note='idiv of NaN / INF dividend')
        if math.isinf(y):
            return Exp('integer', 0, note='finite idiv INF')
        n = _trunc(Fraction(x) / Fraction(y))
        alts = []
        d = f32(x / y) if t == 'float' else x / y      # (a div b) cast as xs:integer
        if not math.isinf(d) and int(d) != n:
            alts.append(int(d))
        lim = 2 ** 24 if t == 'float' else 2 ** 53
        if abs(n) >= lim:
            return Exp('integer', n, alts=alts, rtol=Fraction(1, lim // 2), or_codes=('FOAR0002',),
                       note='idiv beyond the precision of the operand type')
        return Exp('integer', n, alts=alts, note='idiv truncates toward zero')
    if op == 'mod':
        if nan or math.isinf(x) or y == 0:
            return Exp(t, math.nan, note='mod: NaN operand, infinite dividend or zero divisor')
        if math.isinf(y):
            return Exp(t, x, note='finite mod INF = dividend')
        if x == 0:
            return Exp(t, x, note='+-0 mod finite = dividend')
        r = math.fmod(x, y)            # exact: truncating remainder, sign of the dividend
        assert Fraction(r) == Fraction(x) - Fraction(y) * _trunc(Fraction(x) / Fraction(y))
        return Exp(t, r, any_zero=(r == 0), note='truncating remainder')
    raise ValueError(op)


# --------------------------------------------------------------------------
# unary operators and rounding functions (F&O 3.1 4.2.7-8, 4.4)
# --------------------------------------------------------------------------

def _round_rational(q: Fraction, p: int, mode: str) -> Fraction:
    """q rounded to a multiple of 10**-p; mode 'up' = ties toward +INF, 'even' = ties to even."""
    scale = Fraction(10) ** p
    z = q * scale
    if mode == 'up':
        n = math.floor(z + Fraction(1, 2))
    else:
        n = round(z)             # ties to even
    return Fraction(n) / scale


def unop(fn: str, a, p: int = 0) -> Exp:
    """fn in neg plus abs floor ceiling round rhe (round-half-to-even); p = precision."""
    t, x = a
    if t in ('float', 'double'):
        if fn == 'plus':
            return Exp(t, x, note='unary plus')
        if fn == 'neg':
            return Exp(t, x if math.isnan(x) else -x, note='unary minus')
        if fn == 'abs':
            return Exp(t, x if math.isnan(x) else abs(x), note='abs')
        if math.isnan(x) or math.isinf(x) or x == 0:
            return Exp(t, x, note=fn + ' of NaN/INF/zero is the argument')
        q = Fraction(x)
        if fn == 'floor':
            r = Fraction(math.floor(q))
        elif fn == 'ceiling':
            r = Fraction(math.ceil(q))
        elif fn == 'round':
            r = _round_rational(q, p, 'up')
        elif fn == 'rhe':
            r = _round_rational(q, p, 'even')
        else:
            raise ValueError(fn)
        if r == 0:
            return Exp(t, -0.0 if x < 0 else 0.0, note=fn + ': zero result takes the sign of the argument')
        v = f32_of_rational(r) if t == 'float' else f64_of_rational(r)
        if math.isinf(v):
            # 10**-p rounding cannot overflow for p>=0; for p<0 it can (round(1.7e308,-308))
            return Exp(t, v, or_codes=('FOAR0002',), note=fn + ' overflow')
        return Exp(t, v, note=fn)
    q = Fraction(x)
    if fn == 'plus':
        r = q
    elif fn == 'neg':
        r = -q
    elif fn == 'abs':
        r = abs(q)
    elif fn == 'floor':
        r = Fraction(math.floor(q))
    elif fn == 'ceiling':
        r = Fraction(math.ceil(q))
    elif fn == 'round':
        r = _round_rational(q, p, 'up')
    elif fn == 'rhe':
        r = _round_rational(q, p, 'even')
    else:
        raise ValueError(fn)
    if t == 'integer':
        assert r.denominator == 1
        return Exp('integer', int(r), note=fn)
    # decimal: the result never has more digits than the argument (+1 for a carry)
    return Exp('decimal', r, note=fn)


# --------------------------------------------------------------------------
# XPath 1.0: every number is a double
# --------------------------------------------------------------------------

def as_number(val):
    """fn:number of a numeric value: the nearest double."""
    t, v = val
    if t in ('float', 'double'):
        return ('double', v)
    return ('double', f64_of_rational(Fraction(v)))


def binop10(op: str, a, b) -> Exp:
    return binop(op, as_number(a), as_number(b))


def unop10(fn: str, a) -> Exp:
    return unop(fn, as_number(a))


# --------------------------------------------------------------------------
# self test: worked examples of the specifications (never elementpath)
# --------------------------------------------------------------------------

def self_test():
    I = lambda n: ('integer', n)
    D = lambda s: ('decimal', Fraction(s))
    F = lambda x: ('float', f32(x))
    B = lambda x: ('double', float(x))

    def chk(e: Exp, typ, val):
        assert e.type == typ and e.accepts_value(val), (e, typ, val)

    # F&O 3.1 4.2.5 op:numeric-integer-divide examples
    chk(binop('idiv', I(10), I(3)), 'integer', 3)
    chk(binop('idiv', I(3), I(-2)), 'integer', -1)
    chk(binop('idiv', I(-3), I(2)), 'integer', -1)
    chk(binop('idiv', I(-3), I(-2)), 'integer', 1)
    chk(binop('idiv', D('9.0'), I(3)), 'integer', 3)
    chk(binop('idiv', D('-3.5'), I(3)), 'integer', -1)
    chk(binop('idiv', D('3.0'), I(4)), 'integer', 0)
    chk(binop('idiv', B(3.1E1), I(6)), 'integer', 5)
    chk(binop('idiv', B(3.1E1), I(7)), 'integer', 4)
    # 4.2.6 op:numeric-mod examples
    chk(binop('mod', I(10), I(3)), 'integer', 1)
    chk(binop('mod', I(6), I(-2)), 'integer', 0)
    chk(binop('mod', D('4.5'), D('1.2')), 'decimal', Fraction('0.9'))
    chk(binop('mod', B(1.23E2), B(0.6E1)), 'double', 3.0)
    # 4.2.4 divide: integer div integer is decimal
    chk(binop('div', I(1), I(4)), 'decimal', Fraction(1, 4))
    assert binop('div', I(1), I(0)).codes == ('FOAR0001',)
    assert binop('div', D('1.0'), I(0)).codes == ('FOAR0001',)
    chk(binop('div', B(1), I(0)), 'double', math.inf)
    chk(binop('div', B(-1), I(0)), 'double', -math.inf)
    chk(binop('div', B(1), B(-0.0)), 'double', -math.inf)
    chk(binop('div', B(0), I(0)), 'double', math.nan)
    chk(binop('mod', B(5), I(0)), 'double', math.nan)
    chk(binop('mod', I(3), B(math.inf)), 'double', 3.0)
    chk(binop('mod', B(-0.0), I(3)), 'double', -0.0)
    assert not binop('mod', B(-0.0), I(3)).accepts_value(0.0)
    assert binop('mod', B(-6), I(3)).accepts_value(0.0) and binop('mod', B(-6), I(3)).accepts_value(-0.0)
    chk(binop('mod', B(-6.5), I(4)), 'double', -2.5)
    chk(binop('mod', I(5), I(-3)), 'integer', 2)
    chk(binop('idiv', I(-6), I(2)), 'integer', -3)
    assert binop('idiv', B(math.inf), I(1)).codes == ('FOAR0002',)
    assert binop('idiv', B(1), I(0)).codes == ('FOAR0001',)
    chk(binop('idiv', I(1), B(math.inf)), 'integer', 0)
    # promotion
    assert binop('+', I(1), D('0.5')).type == 'decimal'
    assert binop('+', D('0.5'), F(0.5)).type == 'float'
    assert binop('+', F(0.5), B(0.5)).type == 'double'
    assert binop('*', I(2), F(0.5)).type == 'float'
    chk(binop('div', F(1), I(3)), 'float', f32(1 / 3))
    assert not binop('div', F(1), I(3)).accepts_value(1 / 3)
    chk(binop('+', D('0.1'), D('0.2')), 'decimal', Fraction('0.3'))
    chk(binop('*', B(0.0), I(-1)), 'double', -0.0)
    e = binop('*', F(-2.0 ** -100), F(2.0 ** -100))        # negative underflow: -0, never +0
    assert e.type == 'float' and e.accepts_value(-0.0) and not e.accepts_value(0.0) and 'underflow' in e.note
    e = binop('div', B(5e-324), I(-4))
    assert e.accepts_value(-0.0) and not e.accepts_value(0.0)
    # 4.4 fn:abs / ceiling / floor / round / round-half-to-even examples
    chk(unop('abs', D('10.5')), 'decimal', Fraction('10.5'))
    chk(unop('abs', D('-10.5')), 'decimal', Fraction('10.5'))
    chk(unop('ceiling', D('10.5')), 'decimal', 11)
    chk(unop('ceiling', D('-10.5')), 'decimal', -10)
    chk(unop('floor', D('10.5')), 'decimal', 10)
    chk(unop('floor', D('-10.5')), 'decimal', -11)
    chk(unop('round', D('2.5')), 'decimal', 3)
    chk(unop('round', D('2.4999')), 'decimal', 2)
    chk(unop('round', D('-2.5')), 'decimal', -2)
    chk(unop('round', D('1.125'), 2), 'decimal', Fraction('1.13'))
    chk(unop('round', I(8452), -2), 'integer', 8500)
    chk(unop('round', B(3.1415e0), 2), 'double', 3.14)
    chk(unop('rhe', D('0.5')), 'decimal', 0)
    chk(unop('rhe', D('1.5')), 'decimal', 2)
    chk(unop('rhe', D('2.5')), 'decimal', 2)
    chk(unop('rhe', B(3.567812e+3), 2), 'double', 3567.81e0)
    chk(unop('rhe', B(4.7564e-3), 2), 'double', 0.0e0)
    chk(unop('rhe', D('35612.25'), -2), 'decimal', 35600)
    chk(unop('ceiling', B(-0.5)), 'double', -0.0)
    assert not unop('ceiling', B(-0.5)).accepts_value(0.0)
    chk(unop('round', B(-0.5)), 'double', -0.0)
    chk(unop('round', B(-0.0)), 'double', -0.0)
    chk(unop('round', B(0.49999999999999994)), 'double', 0.0)
    chk(unop('round', B(4503599627370497.0)), 'double', 4503599627370497.0)
    chk(unop('round', B(-2.5)), 'double', -2.0)
    chk(unop('round', B(2.5)), 'double', 3.0)
    chk(unop('neg', B(0.0)), 'double', -0.0)
    chk(unop('neg', F(1.5)), 'float', -1.5)
    chk(unop('floor', F(1.5)), 'float', 1.0)
    chk(unop('abs', B(-0.0)), 'double', 0.0)
    # lexical mapping / rounding helpers
    assert parse('float', '0.1') == f32(0.1) and parse('double', '0.1') == 0.1
    assert parse('float', '16777217') == 16777216.0
    assert parse('float', '3.4028235E38') == struct.unpack('<f', b'\xff\xff\x7f\x7f')[0]
    assert parse('float', '1E-45') == 2.0 ** -149
    assert parse('double', '5E-324') == 5e-324 and parse('double', '1E400') == math.inf
    assert is_neg_zero(parse('double', '-0')) and is_neg_zero(parse('double', '-1E-400'))
    for s in ('0.1', '1e21', '123456789.123456789', '2.2250738585072014E-308', '1.7976931348623157E308', '4.9e-324',
              '2.4703282292062327e-324', '2.4703282292062328e-324', '1.7976931348623158E308', '1.797693134862315807E308',
              '9007199254740993', '0.30000000000000004', '1e-400', '1e400', '-1e400'):
        assert f64_of_rational(rational_of_lexical(s)) == float(s) == round_to_binary(rational_of_lexical(s), 53, -1022, 1023), s
    assert sig_digits(Fraction(1, 3)) is None and sig_digits(Fraction('12.50')) == 3 and sig_digits(Fraction(1200)) == 2
    assert dec_str(Fraction('-0.0625')) == '-0.0625' and dec_str(Fraction(120)) == '120'
    # XPath 1.0 (section 3.5): 5 mod 2 = 1, 5 mod -2 = 1, -5 mod 2 = -1, -5 mod -2 = -1
    for (x, y, r) in ((5, 2, 1.0), (5, -2, 1.0), (-5, 2, -1.0), (-5, -2, -1.0)):
        chk(binop10('mod', I(x), I(y)), 'double', r)
    chk(binop10('div', I(1), I(0)), 'double', math.inf)
    chk(binop10('+', D('0.1'), D('0.2')), 'double', 0.1 + 0.2)


def self_test_libxml2(values):
    """Second opinion for the XPath 1.0 semantics: libxml2 (through lxml) on a grid of doubles."""
    from lxml import etree
    doc = etree.XML('<a/>')
    xp = {op: etree.XPath(f'$a {op} $b') for op in ('+', '-', '*', 'div', 'mod')}
    fns = {fn: etree.XPath(f'{fn}($a)') for fn in ('floor', 'ceiling', 'round')}
    bad = []
    for x in values:
        for fn, f in fns.items():
            e = unop(fn, ('double', x))
            got = f(doc, a=x)
            if not e.accepts_value(got):
                bad.append((fn, x, e, got))
        for y in values:
            for op, f in xp.items():
                e = binop(op, ('double', x), ('double', y))
                got = f(doc, a=x, b=y)
                if not e.accepts_value(got):
                    bad.append((op, x, y, e, got))
    assert not bad, bad[:5]
