"""Reference proleptic Gregorian calendar for C11 (independent of elementpath and of python's datetime).

* day numbers from the *astronomical* year (year 0 = 1 BCE), valid for every integer year
* instants as exact Fractions of seconds from 0001-01-01T00:00:00 (local) / Z (UTC)
* XSD 1.1 Part 2 Appendix E.3.3 dateTimePlusDuration (year-month addition with day clamping,
  day-time addition with normalisation)
* F&O 3.1 section 9.6 adjust-*-to-timezone, section 9.4 comparison reference points
* lexical <-> astronomical year for both XSD versions:
      XSD 1.1  lexical year N  == astronomical year N            ('0000' is 1 BCE)
      XSD 1.0  lexical year -N == astronomical year -(N-1), no '0000'

A value is a dict {'y','mo','d','h','mi','s','us','tz'} in *astronomical* year, tz = minutes or None.
"""
from __future__ import annotations

from fractions import Fraction

DAY = 86400


def is_leap(y: int) -> bool:
    """astronomical year y (0 = 1 BCE) is leap in the proleptic Gregorian calendar"""
    return y % 4 == 0 and (y % 100 != 0 or y % 400 == 0)


def days_in_month(y: int, m: int) -> int:
    """XSD 1.1 E.3.2 daysInMonth"""
    if m in (4, 6, 9, 11):
        return 30
    if m == 2:
        return 29 if is_leap(y) else 28
    return 31


def days_from_civil(y: int, m: int, d: int) -> int:
    """days from 0001-01-01 (= 0) to astronomical y-m-d; floor arithmetic, any integer year.

    March-based year so the leap day is the last day of the computational year."""
    y2 = y - (1 if m <= 2 else 0)
    era = y2 // 400                      # floor
    yoe = y2 - era * 400                 # [0, 399]
    mp = (m + 9) % 12                    # Mar = 0 ... Feb = 11
    doy = (153 * mp + 2) // 5 + d - 1    # [0, 365]
    doe = yoe * 365 + yoe // 4 - yoe // 100 + doy
    return era * 146097 + doe - 306      # 0000-03-01 is day -306 relative to 0001-01-01


def civil_from_days(n: int) -> tuple[int, int, int]:
    """inverse of days_from_civil"""
    z = n + 306
    era = z // 146097
    doe = z - era * 146097
    yoe = (doe - doe // 1460 + doe // 36524 - doe // 146096) // 365
    y = yoe + era * 400
    doy = doe - (365 * yoe + yoe // 4 - yoe // 100)
    mp = (5 * doy + 2) // 153
    d = doy - (153 * mp + 2) // 5 + 1
    m = mp + 3 if mp < 10 else mp - 9
    return (y + (1 if m <= 2 else 0), m, d)


def _slow_days_from_civil(y: int, m: int, d: int) -> int:
    """definitional count (sum of year and month lengths) used only by the self-test"""
    n = 0
    if y >= 1:
        for yy in range(1, y):
            n += 366 if is_leap(yy) else 365
    else:
        for yy in range(y, 1):
            n -= 366 if is_leap(yy) else 365
    for mm in range(1, m):
        n += days_in_month(y, mm)
    return n + d - 1


# ---------------------------------------------------------------------------
# lexical year <-> astronomical year
# ---------------------------------------------------------------------------

def astro_year(lex_year: int, xsd: str) -> int:
    if xsd == '1.0':
        if lex_year == 0:
            raise ValueError('no year 0000 in XSD 1.0')
        return lex_year if lex_year > 0 else lex_year + 1
    return lex_year


def lex_year(astro: int, xsd: str) -> int:
    if xsd == '1.0':
        return astro if astro > 0 else astro - 1
    return astro


def fmt_year(lex: int) -> str:
    """XSD yearFrag: at least four digits, '-' sign, no leading zeros beyond four digits"""
    return ('-' if lex < 0 else '') + '%04d' % abs(lex)


def fmt_tz(tz) -> str:
    if tz is None:
        return ''
    if tz == 0:
        return 'Z'
    a = abs(tz)
    return '%s%02d:%02d' % ('-' if tz < 0 else '+', a // 60, a % 60)


def fmt_seconds(s: int, us: int) -> str:
    if us:
        return '%02d.%s' % (s, ('%06d' % us).rstrip('0'))
    return '%02d' % s


# ---------------------------------------------------------------------------
# values
# ---------------------------------------------------------------------------

def V(y, mo=1, d=1, h=0, mi=0, s=0, us=0, tz=None) -> dict:
    return {'y': y, 'mo': mo, 'd': d, 'h': h, 'mi': mi, 's': s, 'us': us, 'tz': tz}


def local_seconds(v: dict) -> Fraction:
    """timeOnTimeline of the local fields (XSD 1.1 E.3.4 without the timezone term); 24:00:00 allowed"""
    days = days_from_civil(v['y'], v['mo'], v['d'])
    return Fraction(days * DAY + v['h'] * 3600 + v['mi'] * 60 + v['s']) + Fraction(v['us'], 10 ** 6)


def instant(v: dict, implicit_tz: int = 0) -> Fraction:
    """exact seconds from 0001-01-01T00:00:00Z; values without timezone take implicit_tz (minutes)"""
    tz = v['tz'] if v['tz'] is not None else implicit_tz
    return local_seconds(v) - tz * 60


def from_local_seconds(sec: Fraction, tz) -> dict:
    """normalised value (hour < 24) whose local fields are `sec` seconds from 0001-01-01T00:00:00"""
    us_total = sec * 10 ** 6
    if us_total.denominator != 1:
        raise ValueError('finer than a microsecond')
    us_total = int(us_total)
    days, rem = divmod(us_total, DAY * 10 ** 6)
    y, mo, d = civil_from_days(days)
    s_total, us = divmod(rem, 10 ** 6)
    h, r = divmod(s_total, 3600)
    mi, s = divmod(r, 60)
    return V(y, mo, d, h, mi, s, us, tz)


def normalize(v: dict) -> dict:
    """24:00:00 -> 00:00:00 of the next day (XSD 1.1 E.3.1 normalizeSecond chain)"""
    if v['h'] == 24:
        return from_local_seconds(local_seconds(v), v['tz'])
    return dict(v)


def add_months(v: dict, months: int) -> dict:
    """XSD 1.1 E.3.3 dateTimePlusDuration, year-month part: add, normalise month, clamp the day."""
    v = normalize(v)
    t = (v['mo'] - 1) + months
    y = v['y'] + t // 12
    mo = t % 12 + 1
    d = min(v['d'], days_in_month(y, mo))
    r = dict(v)
    r.update(y=y, mo=mo, d=d)
    return r


def add_seconds(v: dict, sec: Fraction) -> dict:
    """E.3.3 day-time part: the local fields move by `sec`, the timezone is kept."""
    return from_local_seconds(local_seconds(v) + sec, v['tz'])


def add_duration(v: dict, months: int, sec: Fraction) -> dict:
    return add_seconds(add_months(v, months), sec)


def adjust_to_timezone(v: dict, tz, kind: str = 'dateTime') -> dict:
    """F&O 9.6: tz None removes the timezone keeping the local fields; value without timezone gets tz with the
    same local fields; else the same instant expressed in tz.  kind 'date': the dateTime at 00:00:00 is adjusted
    and the date part of the result taken; kind 'time': the date is dropped (wraps modulo 24h)."""
    v = normalize(v)
    if tz is None or v['tz'] is None:
        r = dict(v)
        r['tz'] = tz
        return r
    if kind == 'date':
        base = dict(v, h=0, mi=0, s=0, us=0)
        r = from_local_seconds(local_seconds(base) + (tz - v['tz']) * 60, tz)
        return dict(r, h=0, mi=0, s=0, us=0)
    r = from_local_seconds(local_seconds(v) + (tz - v['tz']) * 60, tz)
    if kind == 'time':
        r.update(y=v['y'], mo=v['mo'], d=v['d'])
    return r


# ---------------------------------------------------------------------------
# durations (months, exact seconds)
# ---------------------------------------------------------------------------

_DUR_REFS = [V(1696, 9, 1), V(1697, 2, 1), V(1903, 3, 1), V(1903, 7, 1)]


def duration_order(m1: int, s1: Fraction, m2: int, s2: Fraction):
    """XSD 3.3.6.2 order relation on durations: '<', '>', '=' or None (incomparable), from the four reference
    dateTimes 1696-09-01, 1697-02-01, 1903-03-01, 1903-07-01."""
    rel = set()
    for r in _DUR_REFS:
        a = local_seconds(add_duration(r, m1, Fraction(0))) + s1
        b = local_seconds(add_duration(r, m2, Fraction(0))) + s2
        rel.add('<' if a < b else '>' if a > b else '=')
    return rel.pop() if len(rel) == 1 else None


def fmt_duration(months: int, sec: Fraction, kind: str = 'duration') -> str:
    """canonical xs:duration lexical form of F&O 19.1.2 casting to xs:string (months and seconds share the
    sign); zero is PT0S, P0M for xs:yearMonthDuration"""
    if not months and not sec:
        return 'P0M' if kind == 'yearMonthDuration' else 'PT0S'
    neg = months < 0 or sec < 0
    m, s = abs(months), abs(sec)
    out = '-P' if neg else 'P'
    if m // 12:
        out += '%dY' % (m // 12)
    if m % 12:
        out += '%dM' % (m % 12)
    days, rem = divmod(s, DAY)
    if days:
        out += '%dD' % days
    if rem:
        out += 'T'
        h, rem = divmod(rem, 3600)
        mi, sec_ = divmod(rem, 60)
        if h:
            out += '%dH' % h
        if mi:
            out += '%dM' % mi
        if sec_:
            whole = int(sec_)
            frac = sec_ - whole
            if frac:
                us = frac * 10 ** 6
                assert us.denominator == 1
                out += '%d.%sS' % (whole, ('%06d' % int(us)).rstrip('0'))
            else:
                out += '%dS' % whole
    return out


# ---------------------------------------------------------------------------
# self-test: W3C worked examples and independent cross-checks (never elementpath)
# ---------------------------------------------------------------------------

def self_test() -> None:
    import datetime as _dt
    # against the definitional count, both sides of year 0 (astronomical -1203..1203 sampled, all month starts)
    for y in list(range(-410, 411)) + [-1203, -1200, -801, -800, 800, 1200, 1203]:
        for m in (1, 2, 3, 12):
            for d in (1, days_in_month(y, m)):
                n = days_from_civil(y, m, d)
                assert n == _slow_days_from_civil(y, m, d), (y, m, d)
                assert civil_from_days(n) == (y, m, d), (y, m, d, n)
    # against python's proleptic Gregorian ordinal for the common era
    for y in (1, 4, 100, 400, 1582, 1900, 2000, 2024, 9999):
        for m, d in ((1, 1), (2, 28), (3, 1), (12, 31)):
            assert days_from_civil(y, m, d) == _dt.date(y, m, d).toordinal() - 1
    # Julian day numbers: JDN 0 starts at noon of -4713-11-24 (proleptic Gregorian, astronomical year);
    # 0001-01-01 is JDN 1721426; 2000-01-01 is JDN 2451545
    assert days_from_civil(1, 1, 1) == 0
    assert days_from_civil(2000, 1, 1) == 2451545 - 1721426
    assert days_from_civil(-4713, 11, 24) == -1721426
    assert civil_from_days(-1) == (0, 12, 31) and civil_from_days(-366) == (0, 1, 1) and civil_from_days(-367) == (-1, 12, 31)
    assert is_leap(0) and is_leap(-4) and not is_leap(-100) and is_leap(-400) and not is_leap(-1)
    # 400-year period, huge years
    big = 2 ** 31
    assert days_from_civil(big, 1, 1) - days_from_civil(big - 400, 1, 1) == 146097
    assert civil_from_days(days_from_civil(-big, 2, 28) + 1) == (-big, 2, 29)      # -2^31 is divisible by 400
    # F&O 3.1 examples
    # op:add-yearMonthDuration-to-dateTime(2000-10-30T11:12:00, P1Y2M) = 2001-12-30T11:12:00
    assert add_months(V(2000, 10, 30, 11, 12), 14) == V(2001, 12, 30, 11, 12)
    # op:add-yearMonthDuration-to-date(2000-10-30, P1Y2M) = 2001-12-30 ; XSD Appendix E clamp: 2000-01-31 + P1M
    assert add_months(V(2000, 1, 31), 1) == V(2000, 2, 29)
    assert add_months(V(2000, 3, 31), -1) == V(2000, 2, 29) and add_months(V(2001, 3, 31), -1) == V(2001, 2, 28)
    # op:subtract-yearMonthDuration-from-date(2000-02-29Z, P1Y) = 1999-02-28Z
    assert add_months(V(2000, 2, 29, tz=0), -12) == V(1999, 2, 28, tz=0)
    # op:add-dayTimeDuration-to-dateTime(2000-10-30T11:12:00, P3DT1H15M) = 2000-11-02T12:27:00
    assert add_seconds(V(2000, 10, 30, 11, 12), Fraction(3 * DAY + 3600 + 900)) == V(2000, 11, 2, 12, 27)
    # op:subtract-dateTimes(2000-10-30T06:12:00-05:00, 1999-11-28T09:00:00Z) = P337DT2H12M
    d = instant(V(2000, 10, 30, 6, 12, tz=-300)) - instant(V(1999, 11, 28, 9, 0, tz=0))
    assert d == 337 * DAY + 2 * 3600 + 12 * 60 and fmt_duration(0, d) == 'P337DT2H12M'
    # op:subtract-dates(2000-10-30, 1999-11-28) = P337D (implicit Z)
    assert instant(V(2000, 10, 30)) - instant(V(1999, 11, 28)) == 337 * DAY
    # op:dateTime-equal(2002-04-02T12:00:00-01:00, 2002-04-02T17:00:00+04:00) ; 24:00:00 example
    assert instant(V(2002, 4, 2, 12, tz=-60)) == instant(V(2002, 4, 2, 17, tz=240))
    assert instant(V(1999, 12, 31, 24)) == instant(V(2000, 1, 1, 0)) and normalize(V(1999, 12, 31, 24)) == V(2000, 1, 1)
    # op:date-less-than(2004-12-25Z, 2004-12-25-05:00) true ; (2004-12-25-12:00, 2004-12-26+12:00) false
    assert instant(V(2004, 12, 25, tz=0)) < instant(V(2004, 12, 25, tz=-300))
    assert not instant(V(2004, 12, 25, tz=-720)) < instant(V(2004, 12, 26, tz=720))
    # fn:adjust-dateTime-to-timezone(2002-03-07T10:00:00-07:00, -PT10H) = 2002-03-07T07:00:00-10:00
    assert adjust_to_timezone(V(2002, 3, 7, 10, tz=-420), -600) == V(2002, 3, 7, 7, tz=-600)
    # (2002-03-07T10:00:00-07:00, PT10H) = 2002-03-08T03:00:00+10:00 ; (2002-03-07T00:00:00+01:00, -PT8H) = 2002-03-06T15:00:00-08:00
    assert adjust_to_timezone(V(2002, 3, 7, 10, tz=-420), 600) == V(2002, 3, 8, 3, tz=600)
    assert adjust_to_timezone(V(2002, 3, 7, 0, tz=60), -480) == V(2002, 3, 6, 15, tz=-480)
    # (2002-03-07T10:00:00, -PT10H) = 2002-03-07T10:00:00-10:00 ; ((..-07:00), ()) = 2002-03-07T10:00:00
    assert adjust_to_timezone(V(2002, 3, 7, 10), -600) == V(2002, 3, 7, 10, tz=-600)
    assert adjust_to_timezone(V(2002, 3, 7, 10, tz=-420), None) == V(2002, 3, 7, 10)
    # fn:adjust-date-to-timezone(2002-03-07-07:00, -PT10H) = 2002-03-06-10:00 ; (2002-03-07-07:00, -PT5H) = 2002-03-07-05:00
    assert adjust_to_timezone(V(2002, 3, 7, tz=-420), -600, 'date') == V(2002, 3, 6, tz=-600)
    assert adjust_to_timezone(V(2002, 3, 7, tz=-420), -300, 'date') == V(2002, 3, 7, tz=-300)
    # fn:adjust-time-to-timezone(10:00:00-07:00, PT10H) = 03:00:00+10:00
    r = adjust_to_timezone(V(1972, 12, 31, 10, tz=-420), 600, 'time')
    assert (r['h'], r['mi'], r['tz']) == (3, 0, 600)
    # XSD duration order: P1M vs P30D incomparable... P1Y > P364D, P1Y <> P365D, P1Y < P367D, P1M < P32D, P1M > P27D
    D = lambda n: Fraction(n * DAY)
    assert duration_order(12, 0, 0, D(364)) == '>' and duration_order(12, 0, 0, D(365)) is None
    assert duration_order(12, 0, 0, D(366)) is None and duration_order(12, 0, 0, D(367)) == '<'
    assert duration_order(1, 0, 0, D(27)) == '>' and duration_order(1, 0, 0, D(30)) is None and duration_order(1, 0, 0, D(32)) == '<'
    assert fmt_duration(14, Fraction(0)) == 'P1Y2M' and fmt_duration(0, Fraction(0)) == 'PT0S' and fmt_duration(0, Fraction(-3, 2)) == '-PT1.5S'
    assert fmt_year(-1) == '-0001' and fmt_year(12345) == '12345' and fmt_year(0) == '0000'
    assert astro_year(-1, '1.0') == 0 and astro_year(-1, '1.1') == -1 and lex_year(0, '1.0') == -1 and lex_year(-4, '1.0') == -5
    assert fmt_tz(-330) == '-05:30' and fmt_tz(0) == 'Z' and fmt_tz(None) == '' and fmt_seconds(5, 120000) == '05.12'
