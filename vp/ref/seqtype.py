"""Reference model for sequence types (property C18).  Independent of elementpath.

* XSD built-in type derivation tree as a literal table (XSD Part 2 §3, XDM 3.1 §2.7.2 figure).
* own recursive-descent parser + renderer for the SequenceType grammar (XPath 3.1 §2.5.4, productions
  [79]-[113]) restricted to what the generators emit (no schema-element/schema-attribute, no EQName
  `Q{uri}local`).
* SequenceType matching (XPath 3.1 §2.5.5) on *described* values.
* the subtype judgement (XPath 3.1 §2.5.6.1 subtype(A,B), §2.5.6.2 subtype-itemtype(Ai,Bi)).

AST (plain lists, JSON-able)
    seqtype  := ['empty'] | [item, occ]                     occ in '', '?', '*', '+'
    item     := ['item'] | ['atomic', 'xs:int'] | ['node'] | ['text'] | ['comment'] | ['nsnode']
              | ['pi', name|None] | ['doc', element-item|None]
              | ['element', name|None, type|None, nillable]     name None = absent or '*'
              | ['attribute', name|None, type|None]
              | ['function', None] | ['function', [seqtype...], seqtype]
              | ['map', None] | ['map', atomic-item, seqtype]
              | ['array', None] | ['array', seqtype]
              | ['paren', item]
    names are lexical QNames ('b', 'p:c'); they are expanded with the prefix map given to `matches`.

Described values (what the matcher sees)
    a sequence is a python list of items; an item is one of
    ('atom', 'xs:int')                                       dynamic (most specific) type name
    ('node', kind, expanded-name|None, type-annotation, nilled, doc-children)
          kind in document element attribute text comment processing-instruction namespace
          doc-children (documents only): list of child node descriptions
    ('func', [seqtype...], seqtype)                          declared signature
    ('map', [(key-item, value-sequence), ...])
    ('array', [member-sequence, ...])
"""
from __future__ import annotations

import re

XS = 'http://www.w3.org/2001/XMLSchema'

# --------------------------------------------------------------------------
# type hierarchy (child -> base), XSD 1.1 Part 2 "built-in datatypes" diagram + XDM 3.1 §2.7.2
# --------------------------------------------------------------------------
BASE = {
    'xs:anySimpleType': 'xs:anyType',
    'xs:untyped': 'xs:anyType',
    'xs:anyAtomicType': 'xs:anySimpleType',
    # primitive types
    'xs:untypedAtomic': 'xs:anyAtomicType',
    'xs:string': 'xs:anyAtomicType',
    'xs:boolean': 'xs:anyAtomicType',
    'xs:decimal': 'xs:anyAtomicType',
    'xs:float': 'xs:anyAtomicType',
    'xs:double': 'xs:anyAtomicType',
    'xs:duration': 'xs:anyAtomicType',
    'xs:dateTime': 'xs:anyAtomicType',
    'xs:time': 'xs:anyAtomicType',
    'xs:date': 'xs:anyAtomicType',
    'xs:gYearMonth': 'xs:anyAtomicType',
    'xs:gYear': 'xs:anyAtomicType',
    'xs:gMonthDay': 'xs:anyAtomicType',
    'xs:gDay': 'xs:anyAtomicType',
    'xs:gMonth': 'xs:anyAtomicType',
    'xs:hexBinary': 'xs:anyAtomicType',
    'xs:base64Binary': 'xs:anyAtomicType',
    'xs:anyURI': 'xs:anyAtomicType',
    'xs:QName': 'xs:anyAtomicType',
    'xs:NOTATION': 'xs:anyAtomicType',
    # derived
    'xs:dateTimeStamp': 'xs:dateTime',
    'xs:yearMonthDuration': 'xs:duration',
    'xs:dayTimeDuration': 'xs:duration',
    'xs:integer': 'xs:decimal',
    'xs:nonPositiveInteger': 'xs:integer',
    'xs:negativeInteger': 'xs:nonPositiveInteger',
    'xs:long': 'xs:integer',
    'xs:int': 'xs:long',
    'xs:short': 'xs:int',
    'xs:byte': 'xs:short',
    'xs:nonNegativeInteger': 'xs:integer',
    'xs:unsignedLong': 'xs:nonNegativeInteger',
    'xs:unsignedInt': 'xs:unsignedLong',
    'xs:unsignedShort': 'xs:unsignedInt',
    'xs:unsignedByte': 'xs:unsignedShort',
    'xs:positiveInteger': 'xs:nonNegativeInteger',
    'xs:normalizedString': 'xs:string',
    'xs:token': 'xs:normalizedString',
    'xs:language': 'xs:token',
    'xs:NMTOKEN': 'xs:token',
    'xs:Name': 'xs:token',
    'xs:NCName': 'xs:Name',
    'xs:ID': 'xs:NCName',
    'xs:IDREF': 'xs:NCName',
    'xs:ENTITY': 'xs:NCName',
    # list types (not atomic): base is xs:anySimpleType
    'xs:NMTOKENS': 'xs:anySimpleType',
    'xs:IDREFS': 'xs:anySimpleType',
    'xs:ENTITIES': 'xs:anySimpleType',
}
# pure union types with their member types (XPath 3.1 §2.5.1: xs:numeric; XSD 1.1: xs:error has no members)
UNIONS = {'xs:numeric': ('xs:double', 'xs:float', 'xs:decimal'), 'xs:error': ()}
LIST_TYPES = frozenset(('xs:NMTOKENS', 'xs:IDREFS', 'xs:ENTITIES'))
NON_ATOMIC = frozenset(('xs:anyType', 'xs:anySimpleType', 'xs:untyped')) | LIST_TYPES
XSD11_ONLY = frozenset(('xs:dateTimeStamp', 'xs:error'))
ATOMIC_TYPES = tuple(t for t in BASE if t not in NON_ATOMIC)     # incl. xs:anyAtomicType
ALL_SCHEMA_TYPES = frozenset(BASE) | {'xs:anyType'} | frozenset(UNIONS)


class SeqTypeError(Exception):
    """static error the spec demands for a sequence type (code = XPST0051 / XPST0008 / XPST0003)"""

    def __init__(self, code, msg=''):
        super().__init__(f'{code} {msg}')
        self.code = code


def ancestors(t: str):
    """t and its chain of base types."""
    out = [t]
    while t in BASE:
        t = BASE[t]
        out.append(t)
    return out


def derives_from(at: str, et: str) -> bool:
    """XPath 3.1 §2.5.5.? derives-from(AT, ET): AT is ET, ET is a base type of AT (transitively),
    or ET is a pure union type and AT derives from one of its member types."""
    if at == et:
        return True
    if et in UNIONS:
        return any(derives_from(at, m) for m in UNIONS[et])
    if at in UNIONS:
        # a union type itself derives from xs:anySimpleType only
        return et in ('xs:anySimpleType', 'xs:anyType')
    return et in ancestors(at)


def is_generalized_atomic(t: str, xsd11: bool = True) -> bool:
    if t in XSD11_ONLY and not xsd11:
        return False
    return t in UNIONS or (t in BASE and t not in NON_ATOMIC)


# --------------------------------------------------------------------------
# parser
# --------------------------------------------------------------------------
_NCNAME = r'[A-Za-z_][A-Za-z0-9_.\-]*'
_TOKEN = re.compile(r'\s*(?:(?P<name>%s(?::%s)?)|(?P<str>"[^"]*"|\'[^\']*\')|(?P<p>[(),*?+]))' % (_NCNAME, _NCNAME))
_KINDS = ('item', 'node', 'text', 'comment', 'namespace-node', 'processing-instruction', 'document-node',
          'element', 'attribute', 'function', 'map', 'array', 'empty-sequence', 'schema-element',
          'schema-attribute')


class _P:
    def __init__(self, s: str):
        self.toks = []
        pos = 0
        s = s.rstrip()
        while pos < len(s):
            m = _TOKEN.match(s, pos)
            if m is None:
                raise SeqTypeError('XPST0003', f'cannot tokenize {s[pos:]!r}')
            kind = m.lastgroup
            self.toks.append((kind, m.group(kind)))
            pos = m.end()
        self.i = 0

    def peek(self, k=0):
        return self.toks[self.i + k] if self.i + k < len(self.toks) else (None, None)

    def next(self):
        t = self.peek()
        self.i += 1
        return t

    def expect(self, val):
        t = self.next()
        if t[1] != val:
            raise SeqTypeError('XPST0003', f'expected {val!r}, found {t[1]!r}')

    def is_p(self, val, k=0):
        return self.peek(k) == ('p', val)

    # SequenceType ::= "empty-sequence" "(" ")" | ItemType OccurrenceIndicator?
    def seqtype(self):
        if self.peek() == ('name', 'empty-sequence') and self.is_p('(', 1):
            self.next()
            self.expect('(')
            self.expect(')')
            return ['empty']
        it = self.itemtype()
        occ = ''
        if it[0] == 'function' and it[1] is not None:
            # occurrence-indicators constraint: an indicator after a typed function test belongs to its
            # return type; an outer one needs a parenthesized item type
            return [it, occ]
        if self.peek()[0] == 'p' and self.peek()[1] in '?*+':
            occ = self.next()[1]
        return [it, occ]

    def itemtype(self):
        kind, val = self.peek()
        if kind == 'p' and val == '(':
            self.next()
            it = self.itemtype()
            self.expect(')')
            return ['paren', it]
        if kind != 'name':
            raise SeqTypeError('XPST0003', f'item type expected, found {val!r}')
        if val in _KINDS and self.is_p('(', 1):
            self.next()
            self.expect('(')
            return getattr(self, '_' + val.replace('-', '_'))()
        self.next()
        return ['atomic', val]

    def _close(self, node):
        self.expect(')')
        return node

    def _item(self):
        return self._close(['item'])

    def _node(self):
        return self._close(['node'])

    def _text(self):
        return self._close(['text'])

    def _comment(self):
        return self._close(['comment'])

    def _namespace_node(self):
        return self._close(['nsnode'])

    def _empty_sequence(self):
        raise SeqTypeError('XPST0003', 'empty-sequence() is not an item type')

    def _schema_element(self):
        raise SeqTypeError('XPST0003', 'schema-element not supported by the reference')

    _schema_attribute = _schema_element

    def _processing_instruction(self):
        kind, val = self.peek()
        if kind == 'name':
            self.next()
            return self._close(['pi', val])
        if kind == 'str':
            self.next()
            return self._close(['pi', ' '.join(val[1:-1].split())])   # StringLiteral: normalized as xs:NCName cast
        return self._close(['pi', None])

    def _document_node(self):
        if self.is_p(')'):
            return self._close(['doc', None])
        it = self.itemtype()
        if it[0] != 'element':
            raise SeqTypeError('XPST0003', 'document-node() takes an element test')
        return self._close(['doc', it])

    def _name_or_wildcard(self):
        kind, val = self.next()
        if kind == 'p' and val == '*':
            return None
        if kind == 'name':
            return val
        raise SeqTypeError('XPST0003', f'name or * expected, found {val!r}')

    def _element(self):
        if self.is_p(')'):
            return self._close(['element', None, None, False])
        name = self._name_or_wildcard()
        tname, nillable = None, False
        if self.is_p(','):
            self.next()
            kind, tname = self.next()
            if kind != 'name':
                raise SeqTypeError('XPST0003', 'type name expected')
            if self.is_p('?'):
                self.next()
                nillable = True
        return self._close(['element', name, tname, nillable])

    def _attribute(self):
        if self.is_p(')'):
            return self._close(['attribute', None, None])
        name = self._name_or_wildcard()
        tname = None
        if self.is_p(','):
            self.next()
            kind, tname = self.next()
            if kind != 'name':
                raise SeqTypeError('XPST0003', 'type name expected')
        return self._close(['attribute', name, tname])

    def _function(self):
        if self.is_p('*') and self.is_p(')', 1):
            self.next()
            return self._close(['function', None])
        args = []
        if not self.is_p(')'):
            while True:
                args.append(self.seqtype())
                if self.is_p(','):
                    self.next()
                    continue
                break
        self.expect(')')
        self.expect('as')
        return ['function', args, self.seqtype()]

    def _map(self):
        if self.is_p('*') and self.is_p(')', 1):
            self.next()
            return self._close(['map', None])
        key = self.itemtype()
        if key[0] != 'atomic':
            raise SeqTypeError('XPST0003', 'map key type must be an AtomicOrUnionType')
        self.expect(',')
        return self._close(['map', key, self.seqtype()])

    def _array(self):
        if self.is_p('*') and self.is_p(')', 1):
            self.next()
            return self._close(['array', None])
        return self._close(['array', self.seqtype()])


def parse(s: str):
    """sequence type string -> AST; raises SeqTypeError('XPST0003') on what the grammar does not allow."""
    p = _P(s)
    ast = p.seqtype()
    if p.i != len(p.toks):
        raise SeqTypeError('XPST0003', f'trailing tokens {p.toks[p.i:]!r}')
    return ast


# --------------------------------------------------------------------------
# renderer: ws is a callable returning the whitespace for the next optional position
# --------------------------------------------------------------------------

def render(ast, ws=lambda: '') -> str:
    if ast[0] == 'empty':
        return 'empty-sequence' + ws() + '(' + ws() + ')'
    it, occ = ast
    if occ and it[0] == 'function' and it[1] is not None:
        it = ['paren', it]          # (function(...) as T)* : see the occurrence-indicators constraint
    return render_item(it, ws) + (ws() + occ if occ else '')


def _sp(ws):
    """whitespace where at least one blank is mandatory"""
    return ws() or ' '


def render_item(it, ws=lambda: '') -> str:
    k = it[0]
    o, c, cm = (lambda: ws() + '(' + ws()), (lambda: ws() + ')'), (lambda: ws() + ',' + (ws() or ' '))
    if k == 'atomic':
        return it[1]
    if k == 'paren':
        return '(' + ws() + render_item(it[1], ws) + ws() + ')'
    simple = {'item': 'item', 'node': 'node', 'text': 'text', 'comment': 'comment', 'nsnode': 'namespace-node'}
    if k in simple:
        return simple[k] + o() + ')'
    if k == 'pi':
        # ['pi', name] renders the NCName form, ['pi', name, literal] a StringLiteral spelling (quotes included, blanks
        # around / inside allowed: the literal is whitespace-normalised like an NCName cast, XPath 3.1 2.5.5.3)
        return 'processing-instruction' + o() + ((it[2] if len(it) > 2 else it[1]) + c() if it[1] else ')')
    if k == 'doc':
        return 'document-node' + o() + (render_item(it[1], ws) + c() if it[1] else ')')
    if k == 'element':
        _, name, tname, nill = it
        if name is None and tname is None:
            return 'element' + o() + ')'
        s = 'element' + o() + (name or '*')
        if tname is not None:
            s += cm() + tname + (ws() + '?' if nill else '')
        return s + c()
    if k == 'attribute':
        _, name, tname = it
        if name is None and tname is None:
            return 'attribute' + o() + ')'
        s = 'attribute' + o() + (name or '*')
        if tname is not None:
            s += cm() + tname
        return s + c()
    if k == 'function':
        if it[1] is None:
            return 'function' + o() + '*' + c()
        s = 'function' + o() + cm().join(render(a, ws) for a in it[1]) + c()
        return s + _sp(ws) + 'as' + _sp(ws) + render(it[2], ws)
    if k == 'map':
        if it[1] is None:
            return 'map' + o() + '*' + c()
        return 'map' + o() + render_item(it[1], ws) + cm() + render(it[2], ws) + c()
    if k == 'array':
        if it[1] is None:
            return 'array' + o() + '*' + c()
        return 'array' + o() + render(it[1], ws) + c()
    raise ValueError(f'unknown item type {it!r}')


def render_element_star(it, ws=lambda: ''):
    """element(*) / attribute(*) spelling of the name-less tests"""
    return it[0] + ws() + '(' + ws() + '*' + ws() + ')'


def strip_paren(it):
    while it[0] == 'paren':
        it = it[1]
    return it


# --------------------------------------------------------------------------
# static validity: unknown / non-atomic type names
# --------------------------------------------------------------------------

def check_static(ast, xsd11=True) -> None:
    """raise SeqTypeError with the static error the spec prescribes, if any (XPath 3.1 §2.5.4, §2.5.5.3/5)."""
    if ast[0] == 'empty':
        return
    _check_item(ast[0], xsd11)


def _check_item(it, xsd11):
    it = strip_paren(it)
    k = it[0]
    if k == 'atomic':
        if not is_generalized_atomic(it[1], xsd11):
            raise SeqTypeError('XPST0051', it[1])
    elif k == 'doc' and it[1] is not None:
        _check_item(it[1], xsd11)
    elif k in ('element', 'attribute'):
        t = it[2]
        if t is not None and (t not in ALL_SCHEMA_TYPES or (t in XSD11_ONLY and not xsd11)):
            raise SeqTypeError('XPST0008', t)
    elif k == 'function' and it[1] is not None:
        for a in it[1]:
            check_static(a, xsd11)
        check_static(it[2], xsd11)
    elif k == 'map' and it[1] is not None:
        _check_item(it[1], xsd11)
        check_static(it[2], xsd11)
    elif k == 'array' and it[1] is not None:
        check_static(it[1], xsd11)


# --------------------------------------------------------------------------
# matching (XPath 3.1 §2.5.5)
# --------------------------------------------------------------------------
MAP_SIG = ([[['atomic', 'xs:anyAtomicType'], '']], [['item'], '*'])
ARRAY_SIG = ([[['atomic', 'xs:integer'], '']], [['item'], '*'])


def expand(qname, nsmap, default_ns=''):
    if qname is None:
        return None
    if ':' in qname:
        pfx, local = qname.split(':', 1)
        if pfx not in nsmap:
            raise SeqTypeError('XPST0081', pfx)
        return '{%s}%s' % (nsmap[pfx], local)
    return '{%s}%s' % (default_ns, qname) if default_ns else qname


def matches(seq, ast, nsmap=None, xsd11=True) -> bool:
    """does the described sequence match the sequence type? (static errors raise SeqTypeError first)"""
    check_static(ast, xsd11)
    return _matches(seq, ast, nsmap or {})


def _matches(seq, ast, nsmap):
    n = len(seq)
    if ast[0] == 'empty':
        return n == 0
    it, occ = ast
    # §2.5.5.1: occurrence indicator constrains the number of items
    if occ == '' and n != 1 or occ == '?' and n > 1 or occ == '+' and n < 1:
        return False
    return all(item_matches(x, it, nsmap) for x in seq)


def item_matches(x, it, nsmap) -> bool:
    it = strip_paren(it)
    k, xk = it[0], x[0]
    if k == 'item':
        return True
    if k == 'atomic':
        return xk == 'atom' and derives_from(x[1], it[1])
    if k == 'function':
        if xk == 'func':
            sig = (x[1], x[2])
        elif xk == 'map':
            sig = MAP_SIG
        elif xk == 'array':
            sig = ARRAY_SIG
        else:
            return False
        if it[1] is None:
            return True
        # §2.5.5.7: the function's type signature is a subtype of the TypedFunctionTest
        return subtype_itemtype(['function', sig[0], sig[1]], it)
    if k == 'map':
        if xk != 'map':
            return False
        if it[1] is None:
            return True
        return all(item_matches(key, it[1], nsmap) and _matches(val, it[2], nsmap) for key, val in x[1])
    if k == 'array':
        if xk != 'array':
            return False
        if it[1] is None:
            return True
        return all(_matches(m, it[1], nsmap) for m in x[1])
    # kind tests
    if xk != 'node':
        return False
    _, kind, name, annot, nilled, children = x
    if k == 'node':
        return True
    if k == 'text':
        return kind == 'text'
    if k == 'comment':
        return kind == 'comment'
    if k == 'nsnode':
        return kind == 'namespace'
    if k == 'pi':
        return kind == 'processing-instruction' and (it[1] is None or name == it[1])
    if k == 'doc':
        if kind != 'document':
            return False
        if it[1] is None:
            return True
        # §2.5.5.2: exactly one element child, optionally accompanied by comments and PIs, that matches E
        els = [c for c in children if c[1] == 'element']
        if len(els) != 1 or any(c[1] == 'text' for c in children):
            return False
        return item_matches(els[0], it[1], nsmap)
    if k == 'element':
        if kind != 'element':
            return False
        _, tn, tt, nill = it
        if tn is not None and expand(tn, nsmap, nsmap.get('', '')) != name:
            return False
        if tt is not None:
            if not derives_from(annot, tt):
                return False
            if nilled and not nill:
                return False
        return True
    if k == 'attribute':
        if kind != 'attribute':
            return False
        _, tn, tt = it
        if tn is not None and expand(tn, nsmap) != name:
            return False
        return tt is None or derives_from(annot, tt)
    raise ValueError(f'unknown item type {it!r}')


# --------------------------------------------------------------------------
# subtype (XPath 3.1 §2.5.6)
# --------------------------------------------------------------------------

def subtype(a, b) -> bool:
    """§2.5.6.1 subtype(A, B) - the table on occurrence indicators."""
    if a[0] == 'empty':
        return b[0] == 'empty' or b[1] in ('?', '*')
    if b[0] == 'empty':
        # xs:error* / xs:error? are not special-cased here (never generated on this side)
        return False
    (ai, ao), (bi, bo) = a, b
    ok = {'': ('', '?', '*', '+'), '?': ('?', '*'), '*': ('*',), '+': ('*', '+')}[ao]
    return bo in ok and subtype_itemtype(ai, bi)


def subtype_itemtype(ai, bi) -> bool:
    """§2.5.6.2 subtype-itemtype(Ai, Bi), rules in the order of the specification."""
    ai, bi = strip_paren(ai), strip_paren(bi)
    ak, bk = ai[0], bi[0]
    if bk == 'item':                                                    # rule 4
        return True
    if ak == 'atomic' and bk == 'atomic':                               # rules 1-3
        if ai[1] in UNIONS and ai[1] != bi[1]:
            return all(subtype_itemtype(['atomic', m], bi) for m in UNIONS[ai[1]])   # xs:error: vacuous
        return derives_from(ai[1], bi[1])
    kindtests = ('node', 'text', 'comment', 'nsnode', 'pi', 'doc', 'element', 'attribute')
    if bk == 'node':                                                    # rule 5
        return ak in kindtests
    if bk in ('text', 'comment', 'nsnode'):                             # rules 6-8
        return ak == bk
    if bk == 'pi':                                                      # rules 9-10
        return ak == 'pi' and (bi[1] is None or ai[1] == bi[1])
    if bk == 'doc':                                                     # rules 11-12
        if ak != 'doc':
            return False
        if bi[1] is None:
            return True
        return ai[1] is not None and subtype_itemtype(ai[1], bi[1])
    if bk == 'element':                                                 # rules 13-18
        if ak != 'element':
            return False
        _, bn, bt, bnill = bi
        _, an, at, anill = ai
        if bn is not None and an != bn:
            return False
        if bt is None or (bt == 'xs:anyType' and bnill):
            return True
        # Bi has a type: Ai needs a type deriving from it; a nillable Ai needs a nillable Bi
        if at is None:
            return False
        return derives_from(at, bt) and (bnill or not anill)
    if bk == 'attribute':                                               # rules 22-26
        if ak != 'attribute':
            return False
        _, bn, bt = bi
        _, an, at = ai
        if bn is not None and an != bn:
            return False
        if bt is None or bt == 'xs:anyType':
            return True
        return at is not None and derives_from(at, bt)
    if bk == 'function':
        if ak == 'map':                                                 # rules 31-33 (+ transitivity through 28)
            if bi[1] is None:
                return True
            ret = [['item'], '*'] if ai[1] is None else _optional(ai[2])
            return _fn_subtype(MAP_SIG[0], ret, bi)
        if ak == 'array':                                               # rules 36-38
            if bi[1] is None:
                return True
            ret = [['item'], '*'] if ai[1] is None else ai[1]
            return _fn_subtype(ARRAY_SIG[0], ret, bi)
        if ak != 'function':
            return False
        if bi[1] is None:                                               # rule 27
            return True
        if ai[1] is None:
            return False
        return _fn_subtype(ai[1], ai[2], bi)                            # rule 28
    if bk == 'map':                                                     # rules 29-30
        if ak != 'map':
            return False
        if bi[1] is None:
            return True
        if ai[1] is None:
            # map(*) is map(xs:anyAtomicType, item()*)
            return subtype_itemtype(['atomic', 'xs:anyAtomicType'], bi[1]) and subtype([['item'], '*'], bi[2])
        return subtype_itemtype(ai[1], bi[1]) and subtype(ai[2], bi[2])
    if bk == 'array':                                                   # rules 34-35
        if ak != 'array':
            return False
        if bi[1] is None:
            return True
        if ai[1] is None:
            return subtype([['item'], '*'], bi[1])
        return subtype(ai[1], bi[1])
    if bk == 'atomic':
        return False
    raise ValueError(f'unknown item type {bi!r}')


def _optional(st):
    """V? for a sequence type V (the result type of a map lookup)"""
    if st[0] == 'empty':
        return st
    it, occ = st
    return [it, {'': '?', '?': '?', '*': '*', '+': '*'}[occ]]


def _fn_subtype(a_args, a_ret, bi) -> bool:
    b_args, b_ret = bi[1], bi[2]
    if len(a_args) != len(b_args):
        return False
    return subtype(a_ret, b_ret) and all(subtype(b, a) for a, b in zip(a_args, b_args))


# --------------------------------------------------------------------------
# self test: worked examples of XPath 3.1 §2.5.4-2.5.6 and XDM 3.1 §2.7.2
# --------------------------------------------------------------------------

def self_test():
    A = lambda t: ('atom', t)
    m = lambda seq, t, ns=None: matches(seq, parse(t), ns)
    # §2.5.5.1 / §2.5.4 examples
    assert m([A('xs:integer')], 'xs:decimal') and not m([A('xs:decimal')], 'xs:integer')
    assert m([A('xs:int'), A('xs:byte')], 'xs:long+') and not m([A('xs:int'), A('xs:byte')], 'xs:long?')
    assert m([], 'xs:date?') and m([], 'empty-sequence()') and not m([], 'xs:date') and not m([], 'item()+')
    assert m([A('xs:NCName')], 'xs:string') and not m([A('xs:string')], 'xs:token')
    assert m([A('xs:float')], 'xs:numeric') and not m([A('xs:string')], 'xs:numeric')
    assert m([A('xs:dayTimeDuration')], 'xs:duration') and not m([A('xs:duration')], 'xs:dayTimeDuration')
    assert m([A('xs:untypedAtomic')], 'xs:anyAtomicType') and not m([A('xs:untypedAtomic')], 'xs:string')
    assert m([A('xs:unsignedByte')], 'xs:nonNegativeInteger') and not m([A('xs:unsignedByte')], 'xs:positiveInteger')
    assert not m([A('xs:positiveInteger')], 'xs:unsignedLong')
    assert not m([], 'xs:error') and m([], 'xs:error?') and not m([A('xs:string')], 'xs:error*')
    for bad in ('xs:anyType', 'xs:untyped', 'xs:anySimpleType', 'xs:NMTOKENS', 'xs:foo'):
        try:
            m([A('xs:string')], bad)
        except SeqTypeError as e:
            assert e.code == 'XPST0051'
        else:
            raise AssertionError(bad)
    # kind tests (§2.5.5.2-2.5.5.5)
    el = lambda name, annot='xs:untyped', nilled=False: ('node', 'element', name, annot, nilled, None)
    at = lambda name, annot='xs:untypedAtomic': ('node', 'attribute', name, annot, False, None)
    pi = ('node', 'processing-instruction', 'xml-stylesheet', None, False, None)
    cm = ('node', 'comment', None, None, False, None)
    tx = ('node', 'text', None, None, False, None)
    doc = lambda *ch: ('node', 'document', None, None, False, list(ch))
    ns = {'p': 'urn:p'}
    assert m([el('person')], 'element()') and m([el('person')], 'element(*)') and m([el('person')], 'element(person)')
    assert not m([el('person')], 'element(p:person)', ns) and m([el('{urn:p}person')], 'element(p:person)', ns)
    assert m([el('person', 'xs:int')], 'element(person, xs:integer)') and not m([el('person')], 'element(person, xs:integer)')
    assert m([el('person')], 'element(*, xs:untyped)') and m([el('person')], 'element(person, xs:anyType)')
    assert not m([el('person', 'xs:int', True)], 'element(person, xs:integer)')
    assert m([el('person', 'xs:int', True)], 'element(person, xs:integer?)')
    assert m([at('price')], 'attribute()') and m([at('price')], 'attribute(price)') and not m([at('price')], 'attribute(cost)')
    assert m([at('price', 'xs:decimal')], 'attribute(*, xs:decimal)') and not m([at('price')], 'attribute(*, xs:decimal)')
    assert m([at('price')], 'attribute(price, xs:anyAtomicType)') and m([at('price')], 'attribute(price, xs:untypedAtomic)')
    assert m([pi], 'processing-instruction()') and m([pi], 'processing-instruction(xml-stylesheet)')
    assert m([pi], 'processing-instruction("xml-stylesheet")') and not m([pi], 'processing-instruction(x)')
    assert m([pi], 'processing-instruction(" xml-stylesheet  ")') and m([pi], "processing-instruction( ' xml-stylesheet' )")
    assert not m([pi], 'processing-instruction(" xml-stylesheets ")')
    assert render_item(['pi', 'p', '" p "']) == 'processing-instruction(" p ")' and parse('processing-instruction(" p ")') == [['pi', 'p'], '']
    assert m([cm], 'comment()') and m([tx], 'text()') and m([tx], 'node()') and not m([tx], 'comment()')
    assert m([doc(cm, el('book'), pi)], 'document-node(element(book))') and m([doc(el('book'))], 'document-node()')
    assert not m([doc(el('book'), el('book'))], 'document-node(element(book))')
    assert not m([doc(el('x'))], 'document-node(element(book))') and not m([el('book')], 'document-node()')
    assert not m([A('xs:string')], 'node()') and m([A('xs:string'), tx], 'item()+')
    try:
        m([el('a')], 'element(a, xs:nosuch)')
    except SeqTypeError as e:
        assert e.code == 'XPST0008'
    else:
        raise AssertionError('XPST0008')
    # §2.5.5.7 function tests: examples of the specification
    fn = lambda args, ret: ('func', [parse(a) for a in args], parse(ret))
    f_int_str = fn(['xs:int'], 'xs:string')
    assert m([f_int_str], 'function(*)') and m([f_int_str], 'function(xs:int) as xs:string')
    assert m([f_int_str], 'function(xs:short) as xs:anyAtomicType?') and m([f_int_str], 'function(xs:int) as item()*')
    assert not m([f_int_str], 'function(xs:long) as xs:string') and not m([f_int_str], 'function(xs:int) as xs:token')
    assert not m([f_int_str], 'function(xs:int, xs:int) as xs:string') and not m([A('xs:string')], 'function(*)')
    # §2.5.5.8 map tests: $M := map{0:"no", 1:"yes"}
    M = ('map', [(A('xs:integer'), [A('xs:string')]), (A('xs:integer'), [A('xs:string')])])
    assert m([M], 'map(*)') and m([M], 'map(xs:integer, xs:string)') and m([M], 'map(xs:decimal, xs:anyAtomicType)')
    assert not m([M], 'map(xs:int, xs:string)') and not m([M], 'map(xs:integer, xs:token)')
    assert m([M], 'function(*)') and m([M], 'function(xs:anyAtomicType) as item()*')
    assert m([M], 'function(xs:integer) as item()*') and m([M], 'function(xs:int) as item()*')
    assert m([M], 'function(xs:string) as item()*') and not m([M], 'function(xs:integer) as xs:string')
    assert m([('map', [])], 'map(xs:date, element())') and not m([M], 'array(*)')
    # §2.5.5.9 array tests
    Arr = ('array', [[A('xs:integer'), A('xs:integer')], [A('xs:integer'), A('xs:integer')]])
    assert m([Arr], 'array(*)') and m([Arr], 'array(xs:integer+)') and not m([Arr], 'array(xs:integer)')
    assert m([('array', [])], 'array(xs:string)') and m([('array', [[A('xs:string')], [A('xs:string')]])], 'array(xs:string)')
    assert m([Arr], 'function(*)') and m([Arr], 'function(xs:integer) as item()*')
    assert not m([Arr], 'function(xs:integer) as xs:integer+') and not m([Arr], 'function(xs:string) as item()*')
    assert not m([Arr], 'map(*)')
    # §2.5.6 subtype judgement
    s = lambda a, b: subtype(parse(a), parse(b))
    assert s('xs:integer', 'xs:decimal?') and s('xs:integer+', 'xs:integer*') and not s('xs:integer*', 'xs:integer+')
    assert not s('xs:integer?', 'xs:integer') and s('empty-sequence()', 'xs:integer?') and not s('empty-sequence()', 'xs:integer')
    assert not s('xs:integer?', 'empty-sequence()') and s('xs:integer', 'item()') and not s('item()', 'xs:integer')
    assert s('xs:decimal', 'xs:numeric') and s('xs:numeric', 'xs:anyAtomicType') and not s('xs:numeric', 'xs:double')
    assert s('xs:integer', 'xs:numeric') and not s('xs:numeric', 'xs:decimal')
    assert s('element(a)', 'element()') and s('element(a, xs:int)', 'element(a)') and s('element(a, xs:int)', 'element(*, xs:integer)')
    assert not s('element()', 'element(a)') and not s('element(a)', 'element(a, xs:untyped)')
    assert s('element(a, xs:int)', 'element(a, xs:int?)') and not s('element(a, xs:int?)', 'element(a, xs:int)')
    assert s('element(a, xs:int?)', 'element(a)') and s('element(a)', 'element(a, xs:anyType?)')
    assert s('attribute(a, xs:int)', 'attribute(*, xs:integer)') and s('attribute(a)', 'attribute(a, xs:anyType)')
    assert s('document-node(element(a))', 'document-node()') and s('document-node(element(a))', 'document-node(element(*))')
    assert not s('document-node()', 'document-node(element(*))') and s('document-node()', 'node()')
    assert s('processing-instruction(p)', 'processing-instruction()') and not s('processing-instruction()', 'processing-instruction(p)')
    assert s('comment()', 'node()') and not s('node()', 'comment()') and not s('text()', 'comment()')
    assert s('function(xs:decimal) as xs:int', 'function(xs:integer) as xs:long') and s('function(item()*) as xs:int', 'function(*)')
    assert not s('function(xs:integer) as xs:long', 'function(xs:decimal) as xs:int') and not s('function(*)', 'function(item()*) as item()*')
    assert s('map(xs:integer, xs:string)', 'map(*)') and s('map(xs:integer, xs:string)', 'map(xs:decimal, item()*)')
    assert s('map(xs:integer, xs:string)', 'function(*)') and s('map(*)', 'function(xs:anyAtomicType) as item()*')
    assert s('map(xs:integer, xs:string)', 'function(xs:anyAtomicType) as xs:string?')
    assert not s('map(xs:integer, xs:string)', 'function(xs:anyAtomicType) as xs:string')
    assert s('array(xs:int)', 'array(*)') and s('array(xs:int)', 'array(xs:long?)') and s('array(xs:int)', 'function(xs:integer) as xs:int')
    assert s('array(*)', 'function(xs:integer) as item()*') and not s('array(*)', 'function(xs:integer) as xs:int')
    assert not s('array(*)', 'map(*)') and s('map(*)', 'item()') and not s('xs:integer', 'node()')
    # parser / renderer round trip, with blanks at every optional position
    samples = ['empty-sequence()', 'xs:integer?', 'item()*', 'element(p:c, xs:untyped?)+', 'attribute(*, xs:string)',
               'document-node(element(a))?', 'function(xs:int, item()*) as map(xs:string, array(xs:integer?)*)+',
               'function(*)', 'function() as xs:string', 'map(*)?', 'array(function(*))', 'processing-instruction(pi)',
               '(xs:integer)*', 'namespace-node()', 'function(function(xs:int) as item()) as function(*)?',
               'element(*)', 'attribute()']
    for smp in samples:
        ast = parse(smp)
        assert parse(render(ast)) == ast, smp
        assert parse(render(ast, lambda: ' \n ')) == ast, smp
    assert render(parse(' function ( xs:int ,item ( ) * )  as  xs:string ? ')) == 'function(xs:int, item()*) as xs:string?'
    assert parse('(function() as xs:int*)?') == [['paren', ['function', [], [['atomic', 'xs:int'], '*']]], '?']
    assert render([['function', [], [['atomic', 'xs:int'], '*']], '?']) == '(function() as xs:int*)?'
    for bad in ('function() as xs:int* ?', 'xs:integer??', 'element(a,)', 'function(xs:int)', 'map(item(), xs:int)', 'empty-sequence()?', 'xs:int xs:int', ''):
        try:
            parse(bad)
        except SeqTypeError:
            pass
        else:
            raise AssertionError(f'{bad!r} accepted')
    # hierarchy table sanity: every chain ends in xs:anyType, 20 primitive types + untypedAtomic under anyAtomicType
    assert all(ancestors(t)[-1] == 'xs:anyType' for t in BASE)
    assert sum(1 for t, b in BASE.items() if b == 'xs:anyAtomicType') == 20
    assert len(ATOMIC_TYPES) == 46     # 19 primitive + 25 derived atomic + xs:untypedAtomic + xs:anyAtomicType
