"""Reference implementation of XSD / XPath regular expressions (independent of elementpath).

Transcribed from
  * XSD 1.1 Part 2 Appendix G (and XSD 1.0 Part 2 Appendix F) "Regular Expressions":
      regExp ::= branch ('|' branch)* ; branch ::= piece* ; piece ::= atom quantifier?
      quantifier ::= [?*+] | '{' (n | n, | n,m) '}' ; atom ::= NormalChar | charClass | '(' regExp ')'
      charClassExpr ::= '[' '^'? charGroupPart+ ('-' charClassExpr)? ']'
      SingleCharEsc ::= '\\' [nrt\\|.?*+(){}\\-\\[\\]^] ; MultiCharEsc ::= '\\' [sSiIcCdDwW] ; \\p{..} \\P{..}
  * XPath F&O 3.1 section 5.6.1 (additions: ^ $ anchors, reluctant quantifiers X??, X*?, X+?, X{..}?,
    back-references \\N, non-capturing groups (?:..), '\\$' single-char escape) and 5.6.1.1 (flags s m i x q).

Two matchers over code points:
  * `ends()`      - set based (all end positions of matches starting at i): decides the *language*
                    (no back-references), independent of any preference order;
  * `bt_search()` - backtracking with Perl-like preference (first alternative, greedy / reluctant),
                    supports back-references and captures; used for match spans.

`parse()` also collects *doubts*: constructs whose validity/meaning the specifications leave debatable
(then callers give no verdict).
"""
from __future__ import annotations

import unicodedata

from . import uniclass


class RefRegexError(Exception):
    """the pattern is invalid under the grammar"""


class Undecided(Exception):
    """the reference declines a verdict (spec editions disagree, budget exceeded, ...)"""


WS = '\t\n\r '
XSD_CATEGORIES = ('L', 'Lu', 'Ll', 'Lt', 'Lm', 'Lo', 'M', 'Mn', 'Mc', 'Me', 'N', 'Nd', 'Nl', 'No',
                  'P', 'Pc', 'Pd', 'Ps', 'Pe', 'Pi', 'Pf', 'Po', 'Z', 'Zs', 'Zl', 'Zp',
                  'S', 'Sm', 'Sc', 'Sk', 'So', 'C', 'Cc', 'Cf', 'Co', 'Cn')
_SINGLE_ESC = {'n': '\n', 'r': '\r', 't': '\t'}
_SINGLE_ESC_SELF = '\\|.?*+(){}-[]^'
MCE = 'sSdDwWiIcC'


# --------------------------------------------------------------------------
# parser
# --------------------------------------------------------------------------
# nodes (tuples):
#   ('alt', (n, ...)) ('seq', (n, ...)) ('rep', n, min, max|None, lazy) ('chr', cp) ('any',)
#   ('set', setexpr) ('grp', idx, n) ('ncg', n) ('ref', idx) ('bol',) ('eol',)
# setexpr:
#   ('esc', letter) ('cat', name, neg) ('blk', name, neg)
#   ('cls', neg, (part, ...), sub|None)   part: ('chr', cp) ('rng', lo, hi) or esc/cat/blk

def strip_x(text: str) -> str:
    """flag x: remove #x9 #xA #xD #x20 except inside character class expressions."""
    out = []
    i, n, depth = 0, len(text), 0
    while i < n:
        c = text[i]
        if depth == 0:
            if c in WS:
                i += 1
                continue
            if c == '\\':
                out.append(c)
                i += 1
                while i < n and text[i] in WS:
                    i += 1
                if i < n:
                    out.append(text[i])
                    i += 1
                continue
            if c == '[':
                depth = 1
            out.append(c)
            i += 1
        else:
            if c == '\\':
                out.append(text[i:i + 2])
                i += 2
                continue
            if c == '[':
                depth += 1
            elif c == ']':
                depth -= 1
            out.append(c)
            i += 1
    return ''.join(out)


class Parsed:
    __slots__ = ('node', 'ngroups', 'doubts', 'text')

    def __init__(self, node, ngroups, doubts, text):
        self.node, self.ngroups, self.doubts, self.text = node, ngroups, doubts, text


class _Parser:
    def __init__(self, text, xpath, xsd_version):
        self.s = text
        self.n = len(text)
        self.i = 0
        self.xpath = xpath
        self.ver = xsd_version
        self.opened = 0
        self.closed = set()
        self.doubts = []

    def err(self, msg):
        raise RefRegexError(f'{msg} at {self.i} in {self.s!r}')

    def peek(self, k=0):
        j = self.i + k
        return self.s[j] if j < self.n else ''

    # regExp ::= branch ( '|' branch )*
    def regexp(self):
        branches = [self.branch()]
        while self.peek() == '|':
            self.i += 1
            branches.append(self.branch())
        return branches[0] if len(branches) == 1 else ('alt', tuple(branches))

    def branch(self):
        items = []
        while self.i < self.n and self.peek() not in '|)':
            items.append(self.piece())
        return items[0] if len(items) == 1 else ('seq', tuple(items))

    def piece(self):
        atom = self.atom()
        c = self.peek()
        if c in ('?', '*', '+'):
            self.i += 1
            lo, hi = {'?': (0, 1), '*': (0, None), '+': (1, None)}[c]
        elif c == '{':
            lo, hi = self.quantity()
        else:
            return atom
        lazy = False
        if self.xpath and self.peek() == '?':
            self.i += 1
            lazy = True
        if self.peek() in ('?', '*', '+', '{') and self.peek() != '':
            self.err('a piece has at most one quantifier')
        if atom[0] in ('bol', 'eol'):
            self.doubts.append('quantified-anchor')
        return ('rep', atom, lo, hi, lazy)

    def quantity(self):
        # '{' QuantExact (',' QuantExact?)? '}'
        self.i += 1
        j = self.i
        while self.peek().isascii() and self.peek().isdigit():
            self.i += 1
        if self.i == j:
            self.err('quantity must start with a digit')
        lo = int(self.s[j:self.i])
        hi = lo
        if self.peek() == ',':
            self.i += 1
            j = self.i
            while self.peek().isascii() and self.peek().isdigit():
                self.i += 1
            hi = int(self.s[j:self.i]) if self.i > j else None
        if self.peek() != '}':
            self.err('malformed quantity')
        self.i += 1
        if hi is not None and hi < lo:
            self.doubts.append('quantity-max-less-than-min')
        return lo, hi

    def atom(self):
        c = self.peek()
        if c == '(':
            self.i += 1
            if self.peek() == '?':
                if self.xpath and self.peek(1) == ':':
                    self.i += 2
                    inner = self.regexp()
                    if self.peek() != ')':
                        self.err('unterminated group')
                    self.i += 1
                    return ('ncg', inner)
                self.err("'?' without an atom after '('")
            self.opened += 1
            idx = self.opened
            inner = self.regexp()
            if self.peek() != ')':
                self.err('unterminated group')
            self.i += 1
            self.closed.add(idx)
            return ('grp', idx, inner)
        if c == '[':
            return ('set', self.charclass())
        if c == '.':
            self.i += 1
            return ('any',)
        if c == '\\':
            return self.escape_outside()
        if c in ('?', '*', '+'):
            self.err('quantifier without atom')
        if c in ('{', '}'):
            if not self.xpath and self.ver == '1.0':
                # the XSD 1.0 Char production forgot to exclude the braces
                self.doubts.append('brace-as-char-xsd10')
            self.err('brace is not a normal character')
        if c == ']':
            self.err("']' is not a normal character")
        if c == '':
            self.err('atom expected')
        self.i += 1
        if self.xpath and c == '^':
            return ('bol',)
        if self.xpath and c == '$':
            return ('eol',)
        return ('chr', ord(c))

    def cat_escape(self):
        """at 'p'/'P' (after the backslash) -> ('cat'|'blk', name, neg)"""
        neg = self.peek() == 'P'
        self.i += 1
        if self.peek() != '{':
            self.err("'{' expected after \\p")
        j = self.s.find('}', self.i)
        if j < 0:
            self.err('unterminated \\p{')
        name = self.s[self.i + 1:j]
        self.i = j + 1
        if name.startswith('Is'):
            blk = name[2:]
            if blk not in uniclass.BLOCKS:
                self.doubts.append('block-not-in-reference-table')
                if not blk or not all(ch.isascii() and (ch.isalnum() or ch == '-') for ch in blk):
                    self.err('malformed block name')
                return ('blk', blk, neg)
            return ('blk', blk, neg)
        if name not in XSD_CATEGORIES:
            if name == 'Cs':
                self.doubts.append('category-Cs')
                return ('cat', name, neg)
            self.err(f'unknown category {name!r}')
        return ('cat', name, neg)

    def escape_outside(self):
        self.i += 1
        c = self.peek()
        if c == '':
            self.err('pattern ends with a backslash')
        if c in _SINGLE_ESC:
            self.i += 1
            return ('chr', ord(_SINGLE_ESC[c]))
        if c in _SINGLE_ESC_SELF:
            self.i += 1
            return ('chr', ord(c))
        if c == '$':
            if not self.xpath:
                self.doubts.append('escaped-dollar-xsd')
            self.i += 1
            return ('chr', ord(c))
        if c in MCE:
            self.i += 1
            return ('set', ('esc', c))
        if c in 'pP':
            return ('set', self.cat_escape())
        if c.isascii() and c.isdigit():
            if not self.xpath:
                self.err('back-references are not part of XSD regular expressions')
            if c == '0':
                self.err('\\0 is not a back-reference')
            num = int(c)
            self.i += 1
            # further digits belong to the reference iff that many groups were opened before it
            while self.peek().isascii() and self.peek().isdigit() and num * 10 + int(self.peek()) <= self.opened:
                num = num * 10 + int(self.peek())
                self.i += 1
            if num not in self.closed:
                self.err(f'back-reference to a group that is not closed before it: {num}')
            return ('ref', num)
        self.err(f'invalid escape \\{c}')

    def class_single(self):
        """one singleChar or class escape inside [...]: returns part"""
        c = self.peek()
        if c == '':
            self.err('unterminated character class')
        if c == '\\':
            self.i += 1
            e = self.peek()
            if e == '':
                self.err('unterminated character class')
            if e in _SINGLE_ESC:
                self.i += 1
                return ('chr', ord(_SINGLE_ESC[e]))
            if e in _SINGLE_ESC_SELF:
                self.i += 1
                return ('chr', ord(e))
            if e == '$':
                if not self.xpath:
                    self.doubts.append('escaped-dollar-xsd')
                self.i += 1
                return ('chr', ord(e))
            if e in MCE:
                self.i += 1
                return ('esc', e)
            if e in 'pP':
                return self.cat_escape()
            self.err(f'invalid escape \\{e} in character class')
        if c in '[]':
            self.err(f'unescaped {c!r} in character class')
        self.i += 1
        return ('chr', ord(c))

    def charclass(self):
        assert self.peek() == '['
        self.i += 1
        neg = False
        if self.peek() == '^':
            neg = True
            self.i += 1
        parts = []
        first = True
        while True:
            c = self.peek()
            if c == '':
                self.err('unterminated character class')
            if c == ']':
                if not parts:
                    self.err('empty character class')
                self.i += 1
                return ('cls', neg, tuple(parts), None)
            if c == '-' and self.peek(1) == '[':
                if not parts:
                    self.err('subtraction from nothing')
                self.i += 1
                sub = self.charclass()
                if self.peek() != ']':
                    self.err("']' expected after class subtraction")
                self.i += 1
                return ('cls', neg, tuple(parts), sub)
            if c == '-':
                # a hyphen that is not a range operator: clearly fine only first or last
                self.i += 1
                if not (first or self.peek() == ']' or (self.peek() == '-' and self.peek(1) == '[')):
                    self.doubts.append('hyphen-in-the-middle')
                if self.peek() == '-' and self.peek(1) != '[' and self.peek(1) != ']':
                    self.doubts.append('hyphen-as-range-start')
                parts.append(('chr', 0x2D))
                first = False
                continue
            if c == '^' and first and not neg:
                self.err("'^' alone at the start")   # unreachable: consumed as negation
            if c == '^' and first and neg:
                self.doubts.append('caret-first-in-negated-group')
            part = self.class_single()
            first = False
            if part[0] == 'chr' and self.peek() == '-' and self.peek(1) not in ('[', ']', ''):
                # charRange ::= singleChar '-' singleChar
                self.i += 1
                if self.peek() == '-':
                    self.doubts.append('hyphen-as-range-end')
                end = self.class_single()
                if end[0] != 'chr':
                    self.err('a range must end with a single character')
                if end[1] < part[1]:
                    self.err('reversed range')
                parts.append(('rng', part[1], end[1]))
                continue
            parts.append(part)


def parse(pattern: str, xpath: bool = True, xsd_version: str = '1.0', flags: str = '') -> Parsed:
    """Parse; raises RefRegexError for an invalid pattern.  flags: subset of 'smixq' (xpath only)."""
    if 'q' in flags:
        items = tuple(('chr', ord(c)) for c in pattern)
        return Parsed(items[0] if len(items) == 1 else ('seq', items), 0, [], pattern)
    text = strip_x(pattern) if 'x' in flags else pattern
    p = _Parser(text, xpath, xsd_version)
    node = p.regexp()
    if p.i < p.n:
        p.err("unbalanced ')'")
    return Parsed(node, p.opened, p.doubts, text)


# --------------------------------------------------------------------------
# character sets
# --------------------------------------------------------------------------
_by_lower: dict | None = None
_by_upper: dict | None = None


def _build_case_maps():
    global _by_lower, _by_upper
    bl: dict = {}
    bu: dict = {}
    for cp in range(0x110000):
        if 0xD800 <= cp <= 0xDFFF:
            continue
        ch = chr(cp)
        lo, up = ch.lower(), ch.upper()
        if lo != ch or up != ch:
            bl.setdefault(lo, set()).add(cp)
            bu.setdefault(up, set()).add(cp)
    for d in (bl, bu):
        for key in list(d):
            if len(key) == 1:
                k = ord(key)
                bl.setdefault(key.lower(), set()).add(k)
                bu.setdefault(key.upper(), set()).add(k)
    _by_lower, _by_upper = bl, bu


_variants_cache: dict = {}


def case_variants(cp: int) -> frozenset:
    """F&O 5.6.1.1: C2 is a case-variant of C1 iff lower-case(C1) eq lower-case(C2) or
    upper-case(C1) eq upper-case(C2) (full Unicode mappings, compared as strings)."""
    r = _variants_cache.get(cp)
    if r is None:
        if _by_lower is None:
            _build_case_maps()
        ch = chr(cp)
        r = frozenset({cp} | _by_lower.get(ch.lower(), set()) | _by_upper.get(ch.upper(), set()))
        _variants_cache[cp] = r
    return r


def esc_contains(letter: str, cp: int) -> bool:
    v = uniclass.in_escape(letter.lower(), cp)
    if v is None:
        raise Undecided(f'\\{letter} membership of U+{cp:04X} differs between XML editions')
    return v != letter.isupper()


class XPathFold:
    """case-insensitive comparison of the primitives by the F&O definition of case-variants"""
    name = 'xpath'

    @staticmethod
    def chr(a: int, cp: int) -> bool:
        return a == cp or a in case_variants(cp)

    @staticmethod
    def rng(lo: int, hi: int, cp: int) -> bool:
        return lo <= cp <= hi or any(lo <= v <= hi for v in case_variants(cp))


class PythonFold:
    """DEFECT MODEL (not the specification): the primitives compared the way python's re.IGNORECASE does
    (simple case folding); used only to attribute a discrepancy to that root cause."""
    name = 'python'
    _cache: dict = {}

    @classmethod
    def chr(cls, a: int, cp: int) -> bool:
        return cls.rng(a, a, cp)

    @classmethod
    def rng(cls, lo: int, hi: int, cp: int) -> bool:
        import re
        key = (lo, hi, cp)
        r = cls._cache.get(key)
        if r is None:
            pat = '[%s-%s]' % (re.escape(chr(lo)), re.escape(chr(hi)))
            r = cls._cache[key] = re.fullmatch(pat, chr(cp), re.I) is not None
        return r


def set_contains(sx, cp: int, fold=None) -> bool:
    """fold: None (case-sensitive) | XPathFold | PythonFold; `True` is accepted for XPathFold"""
    if fold is True:
        fold = XPathFold
    elif fold is False:
        fold = None
    t = sx[0]
    if t == 'esc':
        return esc_contains(sx[1], cp)
    if t == 'cat':
        name = sx[1]
        c = unicodedata.category(chr(cp))
        inside = (c == name) if len(name) == 2 else (c[0] == name)
        return inside != sx[2]
    if t == 'blk':
        rng = uniclass.BLOCKS.get(sx[1])
        if rng is None:
            raise Undecided('block not in the reference table')
        return (rng[0] <= cp <= rng[1]) != sx[2]
    if t == 'chr':
        return sx[1] == cp if fold is None else fold.chr(sx[1], cp)
    if t == 'rng':
        return sx[1] <= cp <= sx[2] if fold is None else fold.rng(sx[1], sx[2], cp)
    if t == 'cls':
        inside = any(set_contains(p, cp, fold) for p in sx[2])
        if sx[1]:
            inside = not inside
        if inside and sx[3] is not None:
            inside = not set_contains(sx[3], cp, fold)
        return inside
    raise ValueError(sx)


_PY_SW: dict = {}


def _py_sw(letter: str, ch: str) -> bool:
    """DEFECT MODEL: python's own definitions of the s, S, w, W escapes"""
    import re
    key = (letter, ch)
    r = _PY_SW.get(key)
    if r is None:
        r = _PY_SW[key] = re.fullmatch('\\' + letter, ch) is not None
    return r


# --------------------------------------------------------------------------
# matching
# --------------------------------------------------------------------------
class Matcher:
    """One parsed pattern + flags, applied to subjects.

    strict_m_eol: in multi-line mode '$' does not match at the very end of a string that ends with a
    newline (F&O: "... and the end of the entire string if there is no newline character at the end of
    the string").  Callers that doubt this reading evaluate both settings.
    """
    STEP_BUDGET = 400_000

    def __init__(self, parsed: Parsed, flags: str = '', strict_m_eol: bool = True,
                 py_sw: bool = False, py_fold: bool = False):
        """py_sw / py_fold select DEFECT MODELS (see _py_sw, PythonFold), never used as the oracle"""
        self.py_sw = py_sw
        self.node = parsed.node
        self.ngroups = parsed.ngroups
        q = 'q' in flags
        self.dotall = 's' in flags and not q
        self.multi = 'm' in flags and not q
        self.icase = 'i' in flags
        self.fold = (PythonFold if py_fold else XPathFold) if self.icase else None
        self.strict_m_eol = strict_m_eol
        self.has_ref = _has(self.node, 'ref')

    # -- single positions
    def _bol(self, s, i):
        if i == 0:
            return True
        return self.multi and s[i - 1] == '\n' and i != len(s)

    def _eol(self, s, i):
        n = len(s)
        if i == n:
            if self.multi and self.strict_m_eol and n and s[n - 1] == '\n':
                return False
            return True
        return self.multi and s[i] == '\n'

    def _one(self, node, ch):
        """does the single-character atom `node` match character ch"""
        t = node[0]
        cp = ord(ch)
        if t == 'chr':
            if node[1] == cp:
                return True
            return self.fold is not None and self.fold.chr(node[1], cp)
        if t == 'any':
            return self.dotall or ch not in '\n\r'
        if self.py_sw and node[1][0] == 'esc' and node[1][1] in 'sSwW':
            return _py_sw(node[1][1], ch)
        return set_contains(node[1], cp, self.fold)

    # -- set based: all ends of matches of node starting at i
    def ends(self, s: str, i: int, node=None, memo=None) -> frozenset:
        if node is None:
            node = self.node
        if memo is None:
            memo = {}
        key = (id(node), i)
        r = memo.get(key)
        if r is not None:
            return r
        t = node[0]
        if t in ('chr', 'any', 'set'):
            r = frozenset((i + 1,)) if i < len(s) and self._one(node, s[i]) else frozenset()
        elif t == 'seq':
            cur = {i}
            for it in node[1]:
                nxt = set()
                for p in cur:
                    nxt |= self.ends(s, p, it, memo)
                cur = nxt
                if not cur:
                    break
            r = frozenset(cur)
        elif t == 'alt':
            acc = set()
            for b in node[1]:
                acc |= self.ends(s, i, b, memo)
            r = frozenset(acc)
        elif t == 'grp':
            r = self.ends(s, i, node[2], memo)
        elif t == 'ncg':
            r = self.ends(s, i, node[1], memo)
        elif t == 'bol':
            r = frozenset((i,)) if self._bol(s, i) else frozenset()
        elif t == 'eol':
            r = frozenset((i,)) if self._eol(s, i) else frozenset()
        elif t == 'rep':
            body, lo, hi = node[1], node[2], node[3]

            def step(ps):
                out = set()
                for p in ps:
                    out |= self.ends(s, p, body, memo)
                return out
            cur = {i}
            for _ in range(lo):
                cur = step(cur)
                if not cur:
                    break
            acc = set(cur)
            if cur:
                if hi is None:
                    frontier = set(cur)
                    while frontier:
                        new = step(frontier) - acc
                        acc |= new
                        frontier = new
                else:
                    for _ in range(hi - lo):
                        cur = step(cur)
                        new = cur - acc
                        acc |= cur
                        if not new:
                            break
            r = frozenset(acc)
        elif t == 'ref':
            raise Undecided('back-reference in the set-based matcher')
        else:
            raise ValueError(node)
        memo[key] = r
        return r

    def lang_fullmatch(self, s: str) -> bool:
        return len(s) in self.ends(s, 0)

    def lang_search(self, s: str):
        """(leftmost start, frozenset of possible ends) or None"""
        memo = {}
        for st in range(len(s) + 1):
            e = self.ends(s, st, self.node, memo)
            if e:
                return st, e
        return None

    # -- backtracking
    def bt_match_at(self, s: str, start: int, full: bool = False):
        """(end, caps) of the preferred match starting at `start`, or None"""
        n = len(s)
        steps = [0]
        fold = self.fold
        budget = self.STEP_BUDGET

        def m(node, i, caps, k):
            steps[0] += 1
            if steps[0] > budget:
                raise Undecided('step budget')
            t = node[0]
            if t in ('chr', 'any', 'set'):
                if i < n and self._one(node, s[i]):
                    return k(i + 1, caps)
                return None
            if t == 'seq':
                items = node[1]

                def run(j, i2, c2):
                    if j == len(items):
                        return k(i2, c2)
                    return m(items[j], i2, c2, lambda i3, c3: run(j + 1, i3, c3))
                return run(0, i, caps)
            if t == 'alt':
                for b in node[1]:
                    r = m(b, i, caps, k)
                    if r is not None:
                        return r
                return None
            if t == 'grp':
                idx = node[1]

                def close(i2, c2):
                    c3 = list(c2)
                    c3[idx] = (i, i2)
                    return k(i2, tuple(c3))
                return m(node[2], i, caps, close)
            if t == 'ncg':
                return m(node[1], i, caps, k)
            if t == 'bol':
                return k(i, caps) if self._bol(s, i) else None
            if t == 'eol':
                return k(i, caps) if self._eol(s, i) else None
            if t == 'ref':
                sp = caps[node[1]]
                if sp is None:
                    # F&O lets a reference to a group that did not participate match the empty string;
                    # most engines fail instead: no verdict on such paths
                    raise Undecided('back-reference to a non-participating group')
                sub = s[sp[0]:sp[1]]
                j = i + len(sub)
                if j > n:
                    return None
                cand = s[i:j]
                if cand == sub or (fold is not None and all(fold.chr(ord(b), ord(a)) for a, b in zip(cand, sub))):
                    return k(j, caps)
                return None
            if t == 'rep':
                body, lo, hi, lazy = node[1], node[2], node[3], node[4]

                def loop(count, i2, c2):
                    def more():
                        def after(i3, c3):
                            if i3 == i2 and count >= lo:
                                return None     # an optional iteration must consume something
                            return loop(count + 1, i3, c3)
                        return m(body, i2, c2, after)
                    if count < lo:
                        return more()
                    can_more = hi is None or count < hi
                    if lazy:
                        r = k(i2, c2)
                        if r is not None:
                            return r
                        return more() if can_more else None
                    if can_more:
                        r = more()
                        if r is not None:
                            return r
                    return k(i2, c2)
                if lo > 64:
                    raise Undecided('large minimum count')
                return loop(0, i, caps)
            raise ValueError(node)

        def final(i, caps):
            if full and i != n:
                return None
            return (i, caps)

        return m(self.node, start, (None,) * (self.ngroups + 1), final)

    def bt_search(self, s: str, pos: int = 0):
        """(start, end, caps) of the leftmost preferred match at or after pos, or None"""
        for st in range(pos, len(s) + 1):
            r = self.bt_match_at(s, st)
            if r is not None:
                return st, r[0], r[1]
        return None

    def bt_fullmatch(self, s: str) -> bool:
        return self.bt_match_at(s, 0, full=True) is not None

    def partition(self, s: str):
        """[(is_match, start, end)] by successive leftmost preferred matches; empty matches are an error here."""
        out, k = [], 0
        n = len(s)
        while k < n:
            r = self.bt_search(s, k)
            if r is None:
                break
            st, en, _ = r
            if en == st:
                raise Undecided('zero-length match inside a non-empty string')
            if st > k:
                out.append((False, k, st))
            out.append((True, st, en))
            k = en
        if k < n:
            out.append((False, k, n))
        return out


def _has(node, tag) -> bool:
    if node[0] == tag:
        return True
    t = node[0]
    if t in ('seq', 'alt'):
        return any(_has(x, tag) for x in node[1])
    if t == 'rep' or t == 'ncg':
        return _has(node[1], tag)
    if t == 'grp':
        return _has(node[2], tag)
    return False


def nullable(node) -> bool:
    """can the node match the empty string (anchors count as nullable; back-references too)"""
    t = node[0]
    if t in ('chr', 'any', 'set'):
        return False
    if t == 'seq':
        return all(nullable(x) for x in node[1])
    if t == 'alt':
        return any(nullable(x) for x in node[1])
    if t == 'rep':
        return node[2] == 0 or nullable(node[1])
    if t == 'ncg':
        return nullable(node[1])
    if t == 'grp':
        return nullable(node[2])
    return True


def preference_ambiguous(node) -> bool:
    """True when engines legitimately differ on the *span* chosen (never on the language):
    a quantified body that can match the empty string, or a back-reference to a group
    that sits inside a repeated or alternative part (its capture at reference time is engine lore)."""
    amb = [False]
    risky_groups = set()

    def walk(n, in_rep_or_alt):
        t = n[0]
        if t in ('seq', 'alt'):
            for x in n[1]:
                walk(x, in_rep_or_alt or t == 'alt')
        elif t == 'rep':
            if n[3] != 0 and nullable(n[1]):
                # also X? : ECMAScript-style engines reject an empty optional iteration, Perl-style ones accept it
                amb[0] = True
            walk(n[1], True)
        elif t == 'ncg':
            walk(n[1], in_rep_or_alt)
        elif t == 'grp':
            if in_rep_or_alt:
                risky_groups.add(n[1])
            walk(n[2], in_rep_or_alt)
        elif t == 'ref':
            if n[1] in risky_groups:
                amb[0] = True
    walk(node, False)
    return amb[0]


def backref_engine_dependent(node) -> bool:
    """a back-reference to a group that sits inside a quantified body which can match the empty string:
    whether a last, empty iteration may overwrite the capture is engine lore (Perl/Python: yes, ECMAScript: no),
    and it changes even the language; the specifications are silent -> no verdict at all"""
    risky = set()
    refs = set()

    def groups_in(n, acc):
        t = n[0]
        if t == 'grp':
            acc.add(n[1])
            groups_in(n[2], acc)
        elif t in ('seq', 'alt'):
            for x in n[1]:
                groups_in(x, acc)
        elif t in ('rep', 'ncg'):
            groups_in(n[1], acc)

    def walk(n):
        t = n[0]
        if t in ('seq', 'alt'):
            for x in n[1]:
                walk(x)
        elif t == 'rep':
            if n[3] != 0 and nullable(n[1]):
                groups_in(n[1], risky)
            walk(n[1])
        elif t == 'ncg':
            walk(n[1])
        elif t == 'grp':
            walk(n[2])
        elif t == 'ref':
            refs.add(n[1])
    walk(node)
    return bool(risky & refs)


# --------------------------------------------------------------------------
# self test (worked examples of XSD Part 2 App. G and F&O 5.6)
# --------------------------------------------------------------------------
def _full(p, s, ver='1.0'):
    return Matcher(parse(p, xpath=False, xsd_version=ver)).lang_fullmatch(s)


def _search(p, s, flags=''):
    mt = Matcher(parse(p, xpath=True, flags=flags), flags)
    r = mt.bt_search(s)
    if not mt.has_ref:
        lr = mt.lang_search(s)
        assert (r is None) == (lr is None), (p, s)
        if r is not None:
            assert r[0] == lr[0] and r[1] in lr[1], (p, s, r, lr)
    return None if r is None else (r[0], r[1])


def self_test():
    import re
    uniclass.self_test()
    # XSD Part 2: "Chapter \d" ; a*x ; (a|b)+x ; {n,m} table
    assert _full(r'Chapter \d', 'Chapter 7') and not _full(r'Chapter \d', 'Chapter x')
    assert _full('a*x', 'x') and _full('a*x', 'aaax') and not _full('a*x', 'aab')
    assert _full('a?x', 'ax') and _full('a?x', 'x') and not _full('a?x', 'aax')
    assert _full('a+x', 'aax') and not _full('a+x', 'x')
    assert _full('(a|b)+x', 'abbax') and not _full('(a|b)+x', 'x')
    assert _full('[abcde]x', 'cx') and _full('[a-e]x', 'ex') and not _full('[a-e]x', 'fx')
    assert _full('[\\-ae]x', '-x') and _full('[ae\\-]x', '-x') and _full('[-ae]x', '-x') and _full('[ae-]x', '-x')
    assert _full('[^0-9]x', 'ax') and not _full('[^0-9]x', '5x')
    assert _full('\\Dx', 'ax') and not _full('\\Dx', '5x')
    assert _full('.x', '$x') and not _full('.x', '\nx') and not _full('.x', '\rx')
    assert _full('.*abc.*', '1x2abc') and _full('ab{2}x', 'abbx') and not _full('ab{2}x', 'abx')
    assert _full('ab{2,3}x', 'abbbx') and not _full('ab{2,3}x', 'abbbbx') and _full('ab{2,}x', 'abbbbbx')
    assert _full('(ab){2}x', 'ababx')
    assert _full('ab{0,0}x', 'ax') and not _full('ab{0,0}x', 'abx')
    # class subtraction and negation (App. G: [a-z-[aeiuo]], [^a-z-[aeiuo]])
    assert _full('[a-z-[aeiuo]]', 'b') and not _full('[a-z-[aeiuo]]', 'e')
    assert _full('[^a-z-[A]]', 'B') and not _full('[^a-z-[A]]', 'A') and not _full('[^a-z-[A]]', 'c')
    assert _full('[\\p{Ll}-[ae-z]]', 'b') and not _full('[\\p{Ll}-[ae-z]]', 'a')
    # F&O 5.6.3 "[^a\D]" style: a negated group containing a negated escape
    assert _full('[^a\\D]', '5') and not _full('[^a\\D]', 'b') and not _full('[^a\\D]', 'a')
    assert _full('[^5\\D]', '4') and not _full('[^5\\D]', '5')
    # multi-character escapes
    assert _full('\\s', ' ') and not _full('\\s', '\xa0') and not _full('\\s', '\x0b')
    assert _full('\\w', '$') and not _full('\\w', '_') and _full('\\W', '_') and _full('\\w', '١')
    assert _full('\\i\\c*', 'a-1') and not _full('\\i\\c*', '1a') and _full('\\c+', '-.9')
    assert _full('\\p{Lu}', 'A') and not _full('\\p{Lu}', 'a') and _full('\\P{Lu}', 'a')
    assert _full('\\p{IsBasicLatin}', 'a') and not _full('\\p{IsBasicLatin}', '\xe9')
    assert _full('\\p{L}', 'ǅ') and _full('\\p{Lt}', 'ǅ')
    # anchors are ordinary characters in XSD
    assert _full('^a$', '^a$') and not _full('^a$', 'a')
    # invalid patterns
    for bad, kw in [('(a', {}), ('a)', {}), ('[a', {}), ('a]', {}), ('[]', {}), ('[^]', {}), ('a**', {}), ('a{2}{3}', {}),
                    ('*a', {}), ('(*a)', {}), ('a|*', {}), ('\\e', {}), ('\\_', {}), ('\\', {}), ('a{,2}', {}),
                    ('(?i)a', {}), ('(?=a)', {}), ('(a)\\2', {}), ('(a\\1)', {}), ('[\\1]', {}), ('[z-a]', {}),
                    ('\\p{Xx}', {}), ('\\pL', {}), ('\\p{L', {}), ('[a[b]', {}), ('[a-\\d]', {}), ('[a-[b]c]', {}),
                    ('\\1', {'xpath': False}), ('a??', {'xpath': False}), ('(?:a)', {'xpath': False}), ('\\0', {}),
                    ('a{1', {}), ('a{1,2', {}), ('a{x}', {}), ('a+?*', {}), ('a???', {})]:
        try:
            parse(bad, **kw)
        except RefRegexError:
            pass
        else:
            raise AssertionError(f'reference accepted invalid pattern {bad!r}')
    for good in ['', 'a|', '|a', '()', '(|a)', 'a??', 'a{2}?', '(?:a)+', '(a)\\1', '[a-]', '[-a]', '[^-a]', '[a^]',
                 '[\\^a]', '\\$', '\\-', '[\\[\\]]', 'a{0}', '\\p{Nd}+', '[\\s\\S]', '[\\d-[5]]', '[a-c-[b-[b]]]']:
        parse(good)
    # F&O 5.6: anchors, flags (examples of fn:matches / fn:replace / fn:tokenize)
    poem = 'Kaum hat dies der Hahn gesehen,\nFängt er auch schon an zu krähen:\nKikeriki! Kikikerikih!!\nTak, tak, tak! - da kommen sie.'
    assert _search('Kaum.*krähen', poem) is None
    assert _search('Kaum.*krähen', poem, 's') is not None
    assert _search('^Kaum.*gesehen,$', poem, 'm') is not None
    assert _search('^Kaum.*gesehen,$', poem) is None
    assert _search('kiki', poem, 'i') is not None
    assert _search('bra', 'abracadabra') == (1, 4) and _search('^a.*a$', 'abracadabra') == (0, 11)
    assert _search('^bra', 'abracadabra') is None
    assert _search('hello world', 'helloworld', 'x') is not None
    assert _search('hello[ ]world', 'helloworld', 'x') is None
    assert _search('hello\\ sworld', 'hello world', 'x') is not None
    assert _search('a.c', 'A.C', 'q') is None and _search('a.c', 'xa.cx', 'q') == (1, 4) and _search('a.c', 'A.C', 'qi') == (0, 3)
    # replace examples: "a*?" not usable; "(ab)|(a)" picks the first alternative; reluctant quantifier
    assert _search('(ab)|(a)', 'abcd') == (0, 2)
    assert _search('A+', 'AAAA') == (0, 4) and _search('A+?', 'AAAA') == (0, 1)
    assert _search('a(.)', 'abracadabra') == (0, 2)
    assert _search('([md])[aeiou]\\1', 'Mum', 'i') == (0, 3) and _search('([md])[aeiou]\\1', 'DUD', 'i') == (0, 3)
    assert _search('([md])[aeiou]\\1', 'Mud', 'i') is None
    assert _search('[A-Z]', 'K', 'i') is not None and _search('[A-Z-[IO]]', 'i', 'i') is None
    assert _search('[^Q]', 'q', 'i') is None and _search('\\p{Lu}', 'a', 'i') is None and _search('z', 'Z', 'i') == (0, 1)
    # multi-line rules
    assert _search('^', 'a\n', 'm') == (0, 0)
    mt = Matcher(parse('^b', flags='m'), 'm')
    assert mt.bt_search('a\nb') is not None and Matcher(parse('a^', flags='m'), 'm').bt_search('a\n') is None
    assert Matcher(parse('a$', flags='m'), 'm').bt_search('a\nb') is not None
    assert Matcher(parse('a$'), '').bt_search('a\n') is None
    # back-reference digits: \11 is group 11 only when 11 groups were opened
    p10 = ''.join(f'({c})' for c in 'abcdefghij')
    assert _search(p10 + '\\10', 'abcdefghijj') == (0, 11) and _search(p10 + '\\11', 'abcdefghija1') == (0, 12)
    # tokenise-like partition
    mt = Matcher(parse('\\s+'), '')
    assert mt.partition('The cat  sat') == [(False, 0, 3), (True, 3, 4), (False, 4, 7), (True, 7, 9), (False, 9, 12)]
    # cross-check both matchers and python's re on ASCII patterns whose syntax and meaning coincide
    for p in ['a(b|c)*d', '(a|ab)(c|bcd)(d*)', 'x*', '(a+)+b', 'a{1,2}b{0,1}', '(a|b|)c', 'a.?b', '[a-c]+[^a]', '(ab|a)(bc|c)?']:
        for s in ['', 'a', 'ab', 'abcd', 'abd', 'acbd', 'aab', 'xxa', 'c', 'abcbcd', 'ab\n', 'bca']:
            want = re.search(p, s)
            got = _search(p, s)
            assert (None if want is None else want.span()) == got, (p, s, got)
            assert (re.fullmatch(p, s) is not None) == Matcher(parse(p)).lang_fullmatch(s) == Matcher(parse(p)).bt_fullmatch(s)
    assert strip_x('a b [ c ]\\ d \\p{ L u}') == 'ab[ c ]\\d\\p{Lu}'
    assert case_variants(ord('k')) >= {ord('K'), 0x212A} and ord('i') not in case_variants(0x130)
    assert preference_ambiguous(parse('(a*)*').node) and not preference_ambiguous(parse('(a*)b+').node)
    assert preference_ambiguous(parse('(?:a??)?').node) and not preference_ambiguous(parse('(?:a|b)?').node)
    assert preference_ambiguous(parse('(?:(a)|b)\\1').node) and not preference_ambiguous(parse('(a)\\1').node)
    assert backref_engine_dependent(parse('(a*)+b\\1').node) and not backref_engine_dependent(parse('(a+)+b\\1').node)
