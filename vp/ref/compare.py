"""Reference tables for value comparison, general comparison and effective boolean value (DESIGN C07).

Independent of elementpath.  Transcribed from XPath 3.1 section 3.7 (comparison expressions), the
operator mapping of XPath 3.1 appendix B.2, F&O 3.1 sections 4.3 (numeric comparison), 5.3 (fn:compare
with the codepoint collation), 7 (boolean), 8.2 / 9.4 (durations, dates and times: comparison on the
timeline with the implicit timezone), 10.2 (QName), 12.1 (binary), 7.3.1 / XPath 3.1 2.4.3 (EBV) and
XPath 1.0 section 3.4 for the 1.0 rules.

An *atom* is ``[type, lexical]`` (see vp.gen.atoms).  Results are ``('bool', b)``, ``('error', code)``
or ``None`` (= no verdict: the text leaves it implementation-defined or this model does not cover it).
"""
from __future__ import annotations

import base64
import math
import re
from fractions import Fraction

from vp.ref import numeric as N

OPS = ('eq', 'ne', 'lt', 'le', 'gt', 'ge')
GENERAL = {'=': 'eq', '!=': 'ne', '<': 'lt', '<=': 'le', '>': 'gt', '>=': 'ge'}

NUMERIC = ('integer', 'decimal', 'float', 'double')
STRINGY = ('string', 'anyURI')
DATETIMES = ('dateTime', 'date', 'time')
GREGORIAN = ('gYear', 'gYearMonth', 'gMonth', 'gMonthDay', 'gDay')
DURATIONS = ('duration', 'yearMonthDuration', 'dayTimeDuration')
BINARY = ('hexBinary', 'base64Binary')
ALL_TYPES = NUMERIC + STRINGY + ('untypedAtomic', 'boolean', 'QName') + DATETIMES + GREGORIAN + DURATIONS + BINARY

NS = {'p': 'urn:p', 'q': 'urn:q', 'p2': 'urn:p'}     # prefixes usable in xs:QName lexicals (p and p2: same URI)


class CastError(Exception):
    pass


# --------------------------------------------------------------------------
# lexical -> value
# --------------------------------------------------------------------------
_TZ = r'(Z|[+-](?:0[0-9]|1[0-4]):[0-5][0-9])?'
_DATE = r'(-?[0-9]{4,})-([0-9]{2})-([0-9]{2})'
_TIME = r'([0-9]{2}):([0-9]{2}):([0-9]{2})(\.[0-9]+)?'
_RE = {
    'dateTime': re.compile('^' + _DATE + 'T' + _TIME + _TZ + '$'),
    'date': re.compile('^' + _DATE + _TZ + '$'),
    'time': re.compile('^' + _TIME + _TZ + '$'),
    'gYear': re.compile(r'^(-?[0-9]{4,})' + _TZ + '$'),
    'gYearMonth': re.compile(r'^(-?[0-9]{4,})-([0-9]{2})' + _TZ + '$'),
    'gMonth': re.compile(r'^--([0-9]{2})' + _TZ + '$'),
    'gMonthDay': re.compile(r'^--([0-9]{2})-([0-9]{2})' + _TZ + '$'),
    'gDay': re.compile(r'^---([0-9]{2})' + _TZ + '$'),
}
_DUR = re.compile(r'^(-)?P(?:([0-9]+)Y)?(?:([0-9]+)M)?(?:([0-9]+)D)?(?:T(?:([0-9]+)H)?(?:([0-9]+)M)?(?:([0-9]+(?:\.[0-9]+)?)S)?)?$')


def days_from_civil(y: int, m: int, d: int) -> int:
    """Days since 1970-01-01 in the proleptic Gregorian calendar (astronomical year numbering)."""
    y -= m <= 2
    era = y // 400
    yoe = y - era * 400
    doy = (153 * (m + (-3 if m > 2 else 9)) + 2) // 5 + d - 1
    doe = yoe * 365 + yoe // 4 - yoe // 100 + doy
    return era * 146097 + doe - 719468


def _mdays(y, m):
    if m == 2:
        return 29 if (y % 4 == 0 and (y % 100 != 0 or y % 400 == 0)) else 28
    return 30 if m in (4, 6, 9, 11) else 31


def _tz_minutes(tz):
    if tz is None or tz == '':
        return None
    if tz == 'Z':
        return 0
    sign = -1 if tz[0] == '-' else 1
    h, m = int(tz[1:3]), int(tz[4:6])
    if h == 14 and m != 0:
        raise CastError(tz)
    return sign * (h * 60 + m)


def _instant(y, mo, d, h, mi, s, tzm):
    """(seconds since epoch as Fraction in local/UTC time, tz minutes or None)"""
    if not (1 <= mo <= 12 and 1 <= d <= _mdays(y, mo)):
        raise CastError('date')
    if h == 24:
        if mi or s:
            raise CastError('time')
    elif not (h < 24 and mi < 60 and s < 60):
        raise CastError('time')
    secs = Fraction(days_from_civil(y, mo, d)) * 86400 + h * 3600 + mi * 60 + s
    return secs, tzm


def _astro_year(lexical_year: int, xsd: str) -> int:
    """XSD 1.1: the lexical year is the astronomical year (0000 = 1 BCE); XSD 1.0: no year 0000, -0001 = 1 BCE = astronomical 0"""
    if xsd == '1.1':
        return lexical_year
    if lexical_year == 0:
        raise CastError('year 0000')
    return lexical_year + 1 if lexical_year < 0 else lexical_year


def parse_temporal(typ: str, lex: str, xsd: str = '1.0'):
    """-> (local seconds since epoch, tz minutes | None); the reference points of F&O 9.4 for the partial types"""
    s = lex.strip(' \t\n\r')
    m = _RE[typ].match(s)
    if not m:
        raise CastError(lex)
    g = m.groups()
    tzm = _tz_minutes(g[-1])
    if typ == 'dateTime':
        y = _astro_year(int(g[0]), xsd)
        sec = Fraction(int(g[5])) + (Fraction(g[6][1:]) / 10 ** len(g[6][1:]) if g[6] else 0)
        return _instant(y, int(g[1]), int(g[2]), int(g[3]), int(g[4]), sec, tzm)
    if typ == 'date':
        return _instant(_astro_year(int(g[0]), xsd), int(g[1]), int(g[2]), 0, 0, 0, tzm)
    if typ == 'time':
        sec = Fraction(int(g[2])) + (Fraction(g[3][1:]) / 10 ** len(g[3][1:]) if g[3] else 0)
        h = int(g[0])
        secs, tzm = _instant(1972, 12, 31, h, int(g[1]), sec, tzm)
        if h == 24:
            secs -= 86400          # 24:00:00 is 00:00:00 of the same (reference) day for xs:time
        return secs, tzm
    if typ == 'gYear':
        return _instant(_astro_year(int(g[0]), xsd), 1, 1, 0, 0, 0, tzm)
    if typ == 'gYearMonth':
        return _instant(_astro_year(int(g[0]), xsd), int(g[1]), 1, 0, 0, 0, tzm)
    if typ == 'gMonth':
        return _instant(1972, int(g[0]), 1, 0, 0, 0, tzm)
    if typ == 'gMonthDay':
        return _instant(1972, int(g[0]), int(g[1]), 0, 0, 0, tzm)
    if typ == 'gDay':
        return _instant(1972, 12, int(g[0]), 0, 0, 0, tzm)
    raise ValueError(typ)


def parse_duration(typ: str, lex: str):
    """-> (months, seconds as Fraction)"""
    s = lex.strip(' \t\n\r')
    m = _DUR.match(s)
    if not m or s.endswith('T') or s in ('P', '-P'):
        raise CastError(lex)
    neg, y, mo, d, h, mi, sec = m.groups()
    if typ == 'yearMonthDuration' and (d or h or mi or sec):
        raise CastError(lex)
    if typ == 'dayTimeDuration' and (y or mo):
        raise CastError(lex)
    months = int(y or 0) * 12 + int(mo or 0)
    seconds = Fraction(int(d or 0)) * 86400 + int(h or 0) * 3600 + int(mi or 0) * 60 + (Fraction(sec) if sec else 0)
    if neg:
        months, seconds = -months, -seconds
    return months, seconds


def parse_binary(typ: str, lex: str) -> bytes:
    s = lex.strip(' \t\n\r')
    if typ == 'hexBinary':
        if len(s) % 2 or not re.match(r'^[0-9a-fA-F]*$', s):
            raise CastError(lex)
        return bytes.fromhex(s)
    s = re.sub(r'[ \t\n\r]', '', s)
    if not re.match(r'^[A-Za-z0-9+/]*={0,2}$', s) or len(s) % 4:
        raise CastError(lex)
    try:
        return base64.b64decode(s, validate=True)
    except Exception:
        raise CastError(lex)


def parse_boolean(lex: str) -> bool:
    s = lex.strip(' \t\n\r')
    if s in ('true', '1'):
        return True
    if s in ('false', '0'):
        return False
    raise CastError(lex)


def parse_qname(lex: str):
    s = lex.strip(' \t\n\r')
    m = re.match(r'^(?:([A-Za-z_][\w.-]*):)?([A-Za-z_][\w.-]*)$', s)
    if not m:
        raise CastError(lex)
    pfx, local = m.groups()
    if pfx and pfx not in NS:
        raise CastError('prefix')
    return (NS[pfx] if pfx else '', local)


def kind_of(typ: str) -> str:
    if typ in NUMERIC:
        return 'numeric'
    if typ in STRINGY:
        return 'string'
    if typ in DURATIONS:
        return 'duration'
    return typ


def value(atom, xsd: str = '1.0'):
    """(kind, payload) of a typed atom; CastError when the lexical is not in the lexical space."""
    t, lex = atom
    try:
        if t in NUMERIC:
            return ('numeric', (t, N.parse(t, lex)))
        if t in STRINGY or t == 'untypedAtomic':
            return (kind_of(t), lex)
        if t == 'boolean':
            return ('boolean', parse_boolean(lex))
        if t == 'QName':
            return ('QName', parse_qname(lex))
        if t in DATETIMES or t in GREGORIAN:
            return (t, parse_temporal(t, lex, xsd))
        if t in DURATIONS:
            return ('duration', (t,) + parse_duration(t, lex))
        if t in BINARY:
            return (t, parse_binary(t, lex))
    except ValueError as e:
        raise CastError(str(e))
    raise ValueError(t)


# --------------------------------------------------------------------------
# value comparison
# --------------------------------------------------------------------------

def _cmp_to(op, c):
    return {'eq': c == 0, 'ne': c != 0, 'lt': c < 0, 'le': c <= 0, 'gt': c > 0, 'ge': c >= 0}[op]


def _num_compare(op, a, b):
    t, x, y = N.promote(a, b)
    if isinstance(x, float):
        if math.isnan(x) or math.isnan(y):
            return op == 'ne'
        c = (x > y) - (x < y)          # +0 = -0, INF = INF
    else:
        c = (x > y) - (x < y)
    return _cmp_to(op, c)


def _timeline(payload, implicit_tz):
    secs, tzm = payload
    if tzm is None:
        if implicit_tz is None:
            return None
        tzm = implicit_tz
    return secs - tzm * 60


def value_compare(op: str, a, b, version: str = '3.1', implicit_tz=None, xsd: str = '1.0'):
    """`a op b` for two typed atoms (value comparison, XPath 3.1 3.7.1). xs:untypedAtomic operands are
    cast to xs:string.  Returns ('bool', b) | ('error', 'XPTY0004') | None (needs the implicit timezone)."""
    ka, va = value(a, xsd)
    kb, vb = value(b, xsd)
    if ka == 'untypedAtomic':
        ka = 'string'
    if kb == 'untypedAtomic':
        kb = 'string'
    if ka != kb:
        return ('error', 'XPTY0004')
    k = ka
    if k == 'numeric':
        return ('bool', _num_compare(op, va, vb))
    if k == 'string':
        c = (va > vb) - (va < vb)        # python str order = code point order
        return ('bool', _cmp_to(op, c))
    if k == 'boolean':
        return ('bool', _cmp_to(op, int(va) - int(vb)))
    if k in DATETIMES:
        x, y = _timeline(va, implicit_tz), _timeline(vb, implicit_tz)
        if x is None or y is None:
            if va[1] is None and vb[1] is None:      # both without timezone: the same implicit timezone cancels
                x, y = va[0], vb[0]
            else:
                return None
        return ('bool', _cmp_to(op, (x > y) - (x < y)))
    if k in GREGORIAN:
        if op not in ('eq', 'ne'):
            return ('error', 'XPTY0004')
        x, y = _timeline(va, implicit_tz), _timeline(vb, implicit_tz)
        if x is None or y is None:
            if va[1] is None and vb[1] is None:
                x, y = va[0], vb[0]
            else:
                return None
        return ('bool', _cmp_to(op, (x > y) - (x < y)))
    if k == 'duration':
        (ta, ma, sa), (tb, mb, sb) = va, vb
        if op in ('eq', 'ne'):
            return ('bool', ((ma, sa) == (mb, sb)) == (op == 'eq'))
        if ta == tb == 'yearMonthDuration':
            return ('bool', _cmp_to(op, (ma > mb) - (ma < mb)))
        if ta == tb == 'dayTimeDuration':
            return ('bool', _cmp_to(op, (sa > sb) - (sa < sb)))
        return ('error', 'XPTY0004')
    if k in BINARY:
        if op in ('eq', 'ne'):
            return ('bool', (va == vb) == (op == 'eq'))
        if version == '3.1':             # op:hexBinary-less-than etc. are new in 3.1
            return ('bool', _cmp_to(op, (va > vb) - (va < vb)))
        return ('error', 'XPTY0004')
    if k == 'QName':
        if op in ('eq', 'ne'):
            return ('bool', (va == vb) == (op == 'eq'))
        return ('error', 'XPTY0004')
    raise ValueError(k)


# --------------------------------------------------------------------------
# general comparison (XPath 2.0+ without compatibility mode)
# --------------------------------------------------------------------------

def _general_pair(op, a, b, version, implicit_tz, xsd='1.0'):
    ta, tb = a[0], b[0]
    if ta == 'untypedAtomic' and tb == 'untypedAtomic':
        a, b = ['string', a[1]], ['string', b[1]]
    elif ta == 'untypedAtomic' or tb == 'untypedAtomic':
        u, o = (a, b) if ta == 'untypedAtomic' else (b, a)
        if o[0] in NUMERIC:
            target = 'double'
        elif o[0] == 'string':
            target = 'string'
        elif o[0] == 'anyURI':
            # cast to xs:anyURI: whitespace is collapsed (whiteSpace facet of xs:anyURI)
            u = [u[0], re.sub(r'[ \t\n\r]+', ' ', u[1]).strip(' ')]
            target = 'anyURI'
        elif o[0] == 'QName':
            return None                # cast untypedAtomic -> QName: version dependent, not modelled
        else:
            target = o[0] if o[0] in ('dayTimeDuration', 'yearMonthDuration') else o[0]
        cast = [target, u[1]]
        try:
            value(cast, xsd)
        except CastError:
            return ('error', 'FORG0001')
        a, b = (cast, b) if ta == 'untypedAtomic' else (a, cast)
    return value_compare(op, a, b, version, implicit_tz, xsd)


def general_compare(sym: str, A, B, version: str = '3.1', implicit_tz=None, xsd: str = '1.0'):
    """A sym B for two sequences of atoms -> set of acceptable outcomes: subset of
    {True, False, 'XPTY0004', 'FORG0001'}; None when some pair has no verdict."""
    op = GENERAL[sym]
    any_true, errors = False, set()
    for a in A:
        for b in B:
            r = _general_pair(op, a, b, version, implicit_tz, xsd)
            if r is None:
                return None
            if r[0] == 'error':
                errors.add(r[1])
            elif r[1]:
                any_true = True
    out = set()
    if any_true:
        out.add(True)
    elif not errors:
        out.add(False)
    out |= errors            # an implementation may raise for any pair it looks at
    return out


# --------------------------------------------------------------------------
# XPath 1.0 comparison of two non-node-set values (XPath 1.0 3.4)
# --------------------------------------------------------------------------
_NUM10 = re.compile(r'^[ \t\n\r]*-?(?:[0-9]+(?:\.[0-9]*)?|\.[0-9]+)[ \t\n\r]*$')


def number10(v):
    """XPath 1.0 number() of ('boolean', b) | ('number', float) | ('string', s)"""
    k, x = v
    if k == 'number':
        return x
    if k == 'boolean':
        return 1.0 if x else 0.0
    return float(x.strip(' \t\n\r')) if _NUM10.match(x) else math.nan


def boolean10(v):
    k, x = v
    if k == 'boolean':
        return x
    if k == 'number':
        return not (x == 0 or math.isnan(x))
    return len(x) > 0


def compare10(sym: str, a, b) -> bool:
    if sym in ('=', '!='):
        if a[0] == 'boolean' or b[0] == 'boolean':
            x, y = boolean10(a), boolean10(b)
        elif a[0] == 'number' or b[0] == 'number':
            x, y = number10(a), number10(b)
        else:
            x, y = a[1], b[1]
        return (x == y) if sym == '=' else (x != y)
    x, y = number10(a), number10(b)
    return {'<': x < y, '<=': x <= y, '>': x > y, '>=': x >= y}[sym]


# --------------------------------------------------------------------------
# general comparison with XPath 1.0 compatibility mode = true (XPath 2.0 section 3.5.2)
# --------------------------------------------------------------------------

def _number20(item) -> float:
    """fn:number (F&O 14.4.? / 4.5.1): cast to xs:double, NaN when the cast fails"""
    t, x = item
    if t == 'boolean':
        return 1.0 if parse_boolean(x) else 0.0
    if t in NUMERIC:
        return N.convert(N.make(t, x), 'double')[1] if t != 'double' else N.parse('double', x)
    try:
        return N.parse('double', x)          # string / untypedAtomic (node): xs:double lexical space
    except ValueError:
        return math.nan


def compat_general(sym: str, A, B):
    """Items: ['boolean', lex] | [numeric type, lex] | ['string', s] | ['node', text] (a node whose typed value is
    xs:untypedAtomic(text)).  Rules of XPath 2.0 3.5.2 in order: (1) a single xs:boolean operand converts the other
    operand to its effective boolean value; (2) atomization; (3) < <= > >= convert every item with fn:number;
    (4) = != : a numeric item converts the pair with fn:number, otherwise strings / untypedAtomic compare as strings.
    Returns the set of acceptable outcomes."""
    def single_bool(S):
        return len(S) == 1 and S[0][0] == 'boolean'

    def ebv_of(S):
        return ebv(['node' if it[0] == 'node' else it for it in S])

    if single_bool(A) or single_bool(B):
        if single_bool(A):
            e = ebv_of(B)
            if not isinstance(e, bool):
                return {e}
            B = [['boolean', 'true' if e else 'false']]
        if single_bool(B):
            e = ebv_of(A)
            if not isinstance(e, bool):
                return {e}
            A = [['boolean', 'true' if e else 'false']]
    A = [['untypedAtomic', x[1]] if x[0] == 'node' else x for x in A]
    B = [['untypedAtomic', x[1]] if x[0] == 'node' else x for x in B]
    op = GENERAL[sym]
    any_true, errors = False, set()
    for a in A:
        for b in B:
            if sym in ('<', '<=', '>', '>=') or a[0] in NUMERIC or b[0] in NUMERIC:
                x, y = _number20(a), _number20(b)
                r = _num_compare(op, ('double', x), ('double', y))
            elif a[0] == 'boolean' or b[0] == 'boolean':
                if a[0] == b[0]:
                    r = _cmp_to(op, int(parse_boolean(a[1])) - int(parse_boolean(b[1])))
                else:
                    return None            # boolean inside a longer sequence against a string: not modelled
            else:
                r = _cmp_to(op, (a[1] > b[1]) - (a[1] < b[1]))
            any_true = any_true or r
    return ({True} if any_true else {False}) | errors


# --------------------------------------------------------------------------
# effective boolean value (XPath 3.1 2.4.3)
# --------------------------------------------------------------------------

def ebv(items):
    """items: list of atoms or the marker 'node'. -> True | False | 'FORG0006'"""
    if not items:
        return False
    if items[0] == 'node':
        return True
    if len(items) > 1:
        return 'FORG0006'
    t, lex = items[0]
    if t == 'boolean':
        return parse_boolean(lex)
    if t in ('string', 'anyURI', 'untypedAtomic'):
        return len(lex) > 0
    if t in NUMERIC:
        v = N.parse(t, lex)
        return not (v == 0 or (isinstance(v, float) and math.isnan(v)))
    return 'FORG0006'


def formula_outcomes(f, atom_outcome):
    """Acceptable outcomes of a Boolean formula under the evaluation-order freedom of XPath 2.0+ (3.6):
    f = ['atom', i] | ['not', f] | ['and', f, g] | ['or', f, g] | ['if', c, f, g];
    atom_outcome(i) -> True | False | error code. Returns a set of True/False/error codes."""
    k = f[0]
    if k == 'atom':
        return {atom_outcome(f[1])}
    if k == 'not':
        return {(not x) if isinstance(x, bool) else x for x in formula_outcomes(f[1], atom_outcome)}
    if k in ('and', 'or'):
        p, q = formula_outcomes(f[1], atom_outcome), formula_outcomes(f[2], atom_outcome)
        dom = (k == 'or')                  # the dominating value: true for or, false for and
        out = {x for x in p | q if not isinstance(x, bool)}
        if dom in p or dom in q:
            out.add(dom)
        if (not dom) in p and (not dom) in q:
            out.add(not dom)
        return out
    if k == 'if':
        out = set()
        for c in formula_outcomes(f[1], atom_outcome):
            if c is True:
                out |= formula_outcomes(f[2], atom_outcome)
            elif c is False:
                out |= formula_outcomes(f[3], atom_outcome)
            else:
                out.add(c)
        return out
    raise ValueError(k)


# --------------------------------------------------------------------------
# self test (examples of the specifications)
# --------------------------------------------------------------------------

def self_test():
    vc = value_compare
    T, F, X = ('bool', True), ('bool', False), ('error', 'XPTY0004')
    # F&O 9.4 examples (implicit timezone -05:00)
    tz = -300
    assert vc('eq', ['dateTime', '2002-04-02T12:00:00-01:00'], ['dateTime', '2002-04-02T17:00:00+04:00'], '3.1', tz) == T
    assert vc('eq', ['dateTime', '2002-04-02T12:00:00'], ['dateTime', '2002-04-02T23:00:00+06:00'], '3.1', tz) == T
    assert vc('eq', ['dateTime', '2002-04-02T12:00:00'], ['dateTime', '2002-04-02T17:00:00'], '3.1', tz) == F
    assert vc('eq', ['dateTime', '2002-04-02T12:00:00'], ['dateTime', '2002-04-02T12:00:00'], '3.1', tz) == T
    assert vc('eq', ['dateTime', '2002-04-02T23:00:00-04:00'], ['dateTime', '2002-04-03T02:00:00-01:00'], '3.1', tz) == T
    assert vc('eq', ['dateTime', '1999-12-31T24:00:00'], ['dateTime', '2000-01-01T00:00:00'], '3.1', tz) == T
    assert vc('eq', ['dateTime', '2005-04-04T24:00:00'], ['dateTime', '2005-04-04T00:00:00'], '3.1', tz) == F
    assert vc('eq', ['date', '2004-12-25Z'], ['date', '2004-12-25+07:00'], '3.1', tz) == F
    assert vc('eq', ['date', '2004-12-25-12:00'], ['date', '2004-12-26+12:00'], '3.1', tz) == T
    assert vc('lt', ['date', '2004-12-25Z'], ['date', '2004-12-25-05:00'], '3.1', tz) == T
    assert vc('lt', ['date', '2004-12-25-12:00'], ['date', '2004-12-26+12:00'], '3.1', tz) == F
    assert vc('gt', ['date', '2004-12-25Z'], ['date', '2004-12-25+07:00'], '3.1', tz) == T
    assert vc('eq', ['time', '08:00:00+09:00'], ['time', '17:00:00-06:00'], '3.1', tz) == F
    assert vc('eq', ['time', '21:30:00+10:30'], ['time', '06:00:00-05:00'], '3.1', tz) == T
    assert vc('eq', ['time', '24:00:00+01:00'], ['time', '00:00:00+01:00'], '3.1', tz) == T
    assert vc('lt', ['time', '12:00:00'], ['time', '23:00:00+06:00'], '3.1', tz) == F
    assert vc('lt', ['time', '11:00:00'], ['time', '17:00:00Z'], '3.1', tz) == T
    assert vc('lt', ['time', '23:59:59'], ['time', '24:00:00'], '3.1', tz) == F
    assert vc('gt', ['time', '08:00:00+09:00'], ['time', '17:00:00-06:00'], '3.1', tz) == F
    assert vc('eq', ['gYearMonth', '1986-02'], ['gYearMonth', '1986-03'], '3.1', tz) == F
    assert vc('eq', ['gYearMonth', '1978-03'], ['gYearMonth', '1986-03Z'], '3.1', tz) == F
    assert vc('eq', ['gYear', '2005-12:00'], ['gYear', '2005+12:00'], '3.1', tz) == F
    assert vc('eq', ['gYear', '1976-05:00'], ['gYear', '1976'], '3.1', tz) == T
    assert vc('eq', ['gMonthDay', '--12-25-14:00'], ['gMonthDay', '--12-26+10:00'], '3.1', tz) == T
    assert vc('eq', ['gMonthDay', '--12-25'], ['gMonthDay', '--12-26Z'], '3.1', tz) == F
    assert vc('eq', ['gMonth', '--12-14:00'], ['gMonth', '--12+10:00'], '3.1', tz) == F
    assert vc('eq', ['gMonth', '--12'], ['gMonth', '--12Z'], '3.1', tz) == F
    assert vc('eq', ['gDay', '---25-14:00'], ['gDay', '---25+10:00'], '3.1', tz) == F
    assert vc('eq', ['gDay', '---12'], ['gDay', '---12Z'], '3.1', tz) == F
    assert vc('lt', ['gYear', '2000'], ['gYear', '2001']) == X
    # era boundary: 1 BCE is -0001 in XSD 1.0 and 0000 in XSD 1.1; 0001-01-01T00:00:00+14:00 = 1 BCE-12-31T10:00:00Z
    assert vc('eq', ['dateTime', '0001-01-01T00:00:00+14:00'], ['dateTime', '-0001-12-31T10:00:00Z']) == T
    assert vc('eq', ['dateTime', '0001-01-01T00:00:00+14:00'], ['dateTime', '0000-12-31T10:00:00Z'], '3.1', None, '1.1') == T
    assert vc('eq', ['dateTime', '0001-01-01T00:00:00+14:00'], ['dateTime', '-0001-12-31T10:00:00Z'], '3.1', None, '1.1') == F
    assert vc('lt', ['dateTime', '0001-01-01T00:00:00+14:00'], ['dateTime', '-0001-12-31T23:00:00Z']) == T
    assert vc('gt', ['date', '-0001-12-31-14:00'], ['date', '0001-01-01+14:00']) == T
    assert vc('eq', ['dateTime', '9999-12-31T24:00:00Z'], ['dateTime', '10000-01-01T00:00:00Z']) == T
    assert vc('lt', ['dateTime', '10000-01-01T00:00:00+05:00'], ['dateTime', '9999-12-31T23:00:00-05:00']) == T
    try:
        value(['dateTime', '0000-01-01T00:00:00Z'])
        assert False
    except CastError:
        pass
    assert days_from_civil(0, 12, 31) == days_from_civil(1, 1, 1) - 1 and days_from_civil(0, 3, 1) - days_from_civil(0, 2, 1) == 29
    # durations (F&O 8.2)
    assert vc('eq', ['duration', 'P1Y'], ['duration', 'P12M']) == T
    assert vc('eq', ['duration', 'PT24H'], ['duration', 'P1D']) == T
    assert vc('eq', ['duration', 'P1Y'], ['duration', 'P365D']) == F
    assert vc('eq', ['yearMonthDuration', 'P0Y'], ['dayTimeDuration', 'P0D']) == T
    assert vc('eq', ['yearMonthDuration', 'P1Y'], ['dayTimeDuration', 'P365D']) == F
    assert vc('eq', ['dayTimeDuration', 'P10D'], ['dayTimeDuration', 'PT240H']) == T
    assert vc('lt', ['duration', 'P1Y'], ['duration', 'P2Y']) == X
    assert vc('lt', ['yearMonthDuration', 'P1Y'], ['yearMonthDuration', 'P13M']) == T
    assert vc('gt', ['dayTimeDuration', 'PT25H'], ['dayTimeDuration', 'P1D']) == T
    assert vc('lt', ['yearMonthDuration', 'P1Y'], ['dayTimeDuration', 'P1D']) == X
    # numeric (F&O 4.3) and strings
    assert vc('eq', ['double', 'NaN'], ['double', 'NaN']) == F and vc('ne', ['double', 'NaN'], ['double', 'NaN']) == T
    assert vc('lt', ['double', 'NaN'], ['integer', '1']) == F and vc('ge', ['double', 'NaN'], ['integer', '1']) == F
    assert vc('eq', ['double', '-0'], ['double', '0']) == T
    assert vc('eq', ['integer', '9007199254740993'], ['double', '9007199254740992']) == T
    assert vc('eq', ['decimal', '0.1'], ['double', '0.1']) == T and vc('eq', ['float', '0.1'], ['double', '0.1']) == F
    assert vc('eq', ['integer', '1'], ['decimal', '1.0']) == T and vc('lt', ['integer', '1'], ['float', '1.5']) == T
    assert vc('eq', ['string', 'a'], ['anyURI', 'a']) == T and vc('lt', ['string', 'B'], ['string', 'a']) == T
    assert vc('eq', ['untypedAtomic', '1'], ['string', '1']) == T and vc('eq', ['untypedAtomic', '1'], ['integer', '1']) == X
    assert vc('eq', ['string', '1'], ['integer', '1']) == X and vc('eq', ['boolean', 'true'], ['integer', '1']) == X
    assert vc('lt', ['boolean', 'false'], ['boolean', '1']) == T
    assert vc('eq', ['hexBinary', '0aFF'], ['hexBinary', '0AfF']) == T and vc('eq', ['hexBinary', '0a'], ['base64Binary', 'Cg==']) == X
    assert vc('lt', ['hexBinary', '0a'], ['hexBinary', '0aFF'], '3.1') == T and vc('lt', ['hexBinary', '0a'], ['hexBinary', '0b'], '2.0') == X
    assert vc('eq', ['QName', 'p:a'], ['QName', 'p2:a']) == T and vc('eq', ['QName', 'p:a'], ['QName', 'a']) == F
    assert vc('lt', ['QName', 'p:a'], ['QName', 'p:b']) == X
    # general comparisons: XPath 3.1 3.7.2 examples
    I = lambda *xs: [['integer', str(x)] for x in xs]
    assert general_compare('=', I(1, 2), I(2, 3)) == {True}
    assert general_compare('!=', I(2, 3), I(3, 4)) == {True}
    assert general_compare('=', I(1, 2), I(3, 4)) == {False}
    assert general_compare('=', [], I(1)) == {False}
    u = lambda s: ['untypedAtomic', s]
    assert general_compare('=', [u('1')], I(1)) == {True}                       # untyped vs numeric: as double
    assert general_compare('=', [u('1.0')], [u('1')]) == {False}                 # both untyped: as strings
    assert general_compare('=', [u('abc')], I(1)) == {'FORG0001'}
    assert general_compare('=', [u('abc'), u('1')], I(1)) == {True, 'FORG0001'}
    assert general_compare('=', [u('2002-04-02')], [['date', '2002-04-02']]) == {True}
    assert general_compare('=', [u('1')], [['boolean', 'true']]) == {True}
    assert general_compare('=', [['string', '1']], I(1)) == {'XPTY0004'}
    assert general_compare('<', [u('10')], [['string', '9']]) == {True}          # untyped vs string: string order
    assert general_compare('<', [u('10')], I(9)) == {False}
    assert general_compare('=', [u(' 1 ')], [['anyURI', '1']]) == {True} and general_compare('=', [u(' 1 ')], [['string', '1']]) == {False}
    # XPath 1.0 3.4
    assert compare10('=', ('string', '1.0'), ('number', 1.0)) and not compare10('=', ('string', '1.0'), ('string', '1'))
    assert compare10('=', ('boolean', True), ('string', 'false')) and compare10('<', ('string', '2'), ('string', '10'))
    assert not compare10('<', ('string', 'a'), ('string', 'b')) and compare10('!=', ('number', math.nan), ('number', math.nan))
    assert compare10('=', ('boolean', False), ('number', math.nan)) and math.isnan(number10(('string', '1e2')))
    # compatibility mode (XPath 2.0 3.5.2): boolean rule first and for all six operators, then number, then string
    cg = compat_general
    Bt, Bf = [['boolean', 'true']], [['boolean', 'false']]
    assert cg('<', Bt, I(2)) == {False} and cg('<=', Bt, I(2)) == {True} and cg('>', Bt, I(0)) == {True}
    assert cg('=', Bt, I(2)) == {True} and cg('<', Bf, [['double', 'NaN']]) == {False} and cg('>=', Bf, [['double', 'NaN']]) == {True}
    assert cg('<', Bf, [['string', 'abc']]) == {True} and cg('=', Bt, []) == {False} and cg('>', Bt, []) == {True}
    assert cg('=', Bt, I(1, 2)) == {'FORG0006'} and cg('=', Bt, [['node', '0'], ['integer', '7']]) == {True}
    assert cg('=', [['string', '1.0']], I(1)) == {True} and cg('=', [['string', '1.0']], [['string', '1']]) == {False}
    assert cg('<', [['string', '2']], [['string', '10']]) == {True} and cg('<', [['string', 'a']], [['string', 'b']]) == {False}
    assert cg('=', [['node', '1.0']], I(1)) == {True} and cg('=', [['node', 'a']], [['string', 'a']]) == {True}
    assert cg('!=', [['string', 'x']], I(1)) == {True} and cg('=', [['string', '1e2']], I(100)) == {True}
    assert cg('=', I(1, 2), [['string', 'b'], ['string', '2.0']]) == {True}
    # EBV (XPath 3.1 2.4.3)
    assert ebv([]) is False and ebv(['node', ['integer', '0']]) is True and ebv([['string', '']]) is False
    assert ebv([['string', 'false']]) is True and ebv([['double', 'NaN']]) is False and ebv([['decimal', '0.0']]) is False
    assert ebv([['integer', '1'], ['integer', '2']]) == 'FORG0006' and ebv([['date', '2000-01-01']]) == 'FORG0006'
    assert ebv([['untypedAtomic', '0']]) is True and ebv([['anyURI', '']]) is False and ebv([['boolean', '0']]) is False
    at = {0: True, 1: False, 2: 'FORG0006'}.get
    assert formula_outcomes(['and', ['atom', 1], ['atom', 2]], at) == {False, 'FORG0006'}
    assert formula_outcomes(['and', ['atom', 0], ['atom', 2]], at) == {'FORG0006'}
    assert formula_outcomes(['or', ['atom', 2], ['atom', 0]], at) == {True, 'FORG0006'}
    assert formula_outcomes(['if', ['atom', 0], ['atom', 1], ['atom', 2]], at) == {False}
    assert formula_outcomes(['not', ['or', ['atom', 1], ['atom', 1]]], at) == {True}
    assert days_from_civil(1970, 1, 1) == 0 and days_from_civil(2000, 3, 1) == 11017 and days_from_civil(1969, 12, 31) == -1
