"""Lexical spaces, whitespace facets, value mapping and canonical / F&O string forms of the built-in
atomic types.  Written from XML Schema Part 2 (1.0 second edition and 1.1) and from the casting rules
of XPath Functions and Operators 3.1 section 19.  Nothing in here imports elementpath.

Part 1 (this block): numeric -> string rules, used by C09 (fn:concat) and C10.
"""
from __future__ import annotations

import math
import re
from decimal import Decimal
from fractions import Fraction

# --------------------------------------------------------------------------
# numeric -> xs:string  (F&O 3.1 19.1.2.2 / 19.1.2.3 "Casting to xs:string")
# --------------------------------------------------------------------------


def integer_to_string(n: int) -> str:
    """canonical xs:integer: optional '-', no leading zeros, no '+'"""
    digits = []
    m = -n if n < 0 else n
    if m == 0:
        return '0'
    while m:
        m, r = divmod(m, 10)
        digits.append('0123456789'[r])
    return ('-' if n < 0 else '') + ''.join(reversed(digits))


def fraction_of_decimal(d: Decimal) -> Fraction:
    return Fraction(d)


def decimal_to_string(d: Decimal | Fraction) -> str:
    """F&O: integer valued -> integer form (no decimal point); else canonical xs:decimal: at least one digit each
    side of the point, no superfluous leading/trailing zeros, no '+'.  (-0 does not exist in xs:decimal: '0')"""
    fr = Fraction(d)
    if fr.denominator == 1:
        return integer_to_string(fr.numerator)
    neg = fr < 0
    fr = -fr if neg else fr
    ip = fr.numerator // fr.denominator
    rest = fr - ip
    digits = []
    # a decimal always has a terminating expansion
    guard = 0
    while rest:
        rest *= 10
        dg = rest.numerator // rest.denominator
        digits.append('0123456789'[dg])
        rest -= dg
        guard += 1
        if guard > 10000:
            raise ValueError('not a terminating decimal')
    return ('-' if neg else '') + integer_to_string(ip) + '.' + ''.join(digits)


def _shortest_digits(x: float) -> tuple[str, int]:
    """(digit string without trailing zeros, decimal exponent e) with |x| = 0.d1d2... * 10**e, shortest
    digit string that round-trips (python repr is David Gay's shortest repr)"""
    t = Decimal(repr(abs(x))).as_tuple()
    ds = ''.join(map(str, t.digits)).lstrip('0')
    exp = t.exponent + len(ds)
    ds = ds.rstrip('0') or '0'
    return ds, exp


def double_is_short_exact(x: float, float32: bool = False) -> bool:
    """True if the exact decimal expansion of x has <= 15 (float32: <= 6) significant digits: then every
    round-tripping digit string of minimal or 'exact' flavour coincides and the string form is forced."""
    if math.isnan(x) or math.isinf(x) or x == 0:
        return True
    fr = Fraction(abs(x))
    # exact expansion: numerator * 5**k / 10**k  with denominator = 2**k
    k = fr.denominator.bit_length() - 1
    n = fr.numerator * 5 ** k
    s = str(n).rstrip('0')
    return len(s) <= (6 if float32 else 15)


def double_to_string(x: float) -> str:
    """F&O 19.1.2.2 for xs:double/xs:float source (digits: shortest round-trip, the XSD 1.1 canonical mapping)"""
    if math.isnan(x):
        return 'NaN'
    if math.isinf(x):
        return 'INF' if x > 0 else '-INF'
    if x == 0:
        return '-0' if math.copysign(1.0, x) < 0 else '0'
    a = abs(x)
    sign = '-' if x < 0 else ''
    if 0.000001 <= a < 1000000:
        return sign + decimal_to_string(Fraction(Decimal(repr(a))))
    ds, exp = _shortest_digits(x)
    mant = ds[0] + '.' + (ds[1:] or '0')
    return sign + mant + 'E' + integer_to_string(exp - 1)


_SCI = re.compile(r'^-?([1-9])\.([0-9]+)E(-?[1-9][0-9]*|0)$')
_DEC = re.compile(r'^-?(0|[1-9][0-9]*)(\.[0-9]*[1-9])?$')


def double_string_problem(x: float, s: str, float32: bool = False):
    """None if s is an acceptable F&O string form of the double x, else a short tag.
    Exact equality with the shortest form is demanded only when the digits are forced
    (double_is_short_exact); otherwise shape + exact round trip of the value."""
    want = double_to_string(x)
    if s == want:
        return None
    if double_is_short_exact(x, float32) or math.isnan(x) or math.isinf(x) or x == 0:
        return 'form'
    a = abs(x)
    if 0.000001 <= a < 1000000:
        if not _DEC.match(s):
            return 'shape-decimal'
    else:
        m = _SCI.match(s)
        if not m or (m.group(2).endswith('0') and m.group(2) != '0'):
            return 'shape-scientific'
    try:
        back = float(s)
    except ValueError:
        return 'unparsable'
    if float32:
        import struct
        back = struct.unpack('f', struct.pack('f', back))[0]
    return None if back == x else 'value'


def xpath1_number_to_string(x: float) -> str:
    """XPath 1.0 section 4.2 string(): NaN, 0 for both zeros, Infinity / -Infinity, integers without point,
    otherwise decimal form (never an exponent) with as many digits as needed to distinguish the value."""
    if math.isnan(x):
        return 'NaN'
    if math.isinf(x):
        return 'Infinity' if x > 0 else '-Infinity'
    if x == 0:
        return '0'
    return ('-' if x < 0 else '') + decimal_to_string(Fraction(Decimal(repr(abs(x)))))


def self_test_numeric():
    D = Decimal
    assert integer_to_string(0) == '0' and integer_to_string(-120) == '-120'
    assert decimal_to_string(D('1.0')) == '1' and decimal_to_string(D('-0.50')) == '-0.5'
    assert decimal_to_string(D('0.000001')) == '0.000001' and decimal_to_string(D('1E+2')) == '100'
    assert decimal_to_string(D('-0')) == '0' and decimal_to_string(D('12.340')) == '12.34'
    assert double_to_string(1e-7) == '1.0E-7' and double_to_string(1e21) == '1.0E21'
    assert double_to_string(1e-6) == '0.000001' and double_to_string(-0.0) == '-0' and double_to_string(100.0) == '100'
    assert double_to_string(1e6) == '1.0E6' and double_to_string(999999.5) == '999999.5'
    assert double_to_string(1.5e300) == '1.5E300' and double_to_string(-12345678.0) == '-1.2345678E7'
    assert double_to_string(0.1) == '0.1' and double_to_string(5e-324) == '5.0E-324'
    assert double_to_string(math.inf) == 'INF' and double_to_string(math.nan) == 'NaN'
    assert double_is_short_exact(0.5) and double_is_short_exact(1e21) and not double_is_short_exact(0.1)
    assert double_string_problem(0.1, '0.1') is None and double_string_problem(0.1, '0.1000000000000000055511151231257827') is None
    assert double_string_problem(1e21, '1E21') == 'form' and double_string_problem(1e-7, '1E-07') == 'shape-scientific'
    assert double_string_problem(1.1e25, '1.1E+25') == 'shape-scientific' and double_string_problem(1.1e25, '1.1E25') is None
    assert xpath1_number_to_string(1e21) == '1000000000000000000000' and xpath1_number_to_string(-0.0) == '0'
    assert xpath1_number_to_string(1.5) == '1.5' and xpath1_number_to_string(1e-7) == '0.0000001'
    assert xpath1_number_to_string(-math.inf) == '-Infinity'
