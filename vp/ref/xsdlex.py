"""Lexical spaces, whitespace facets, value mapping and canonical / F&O string forms of the built-in
atomic types.  Written from XML Schema Part 2 (1.0 second edition and 1.1) and from the casting rules
of XPath Functions and Operators 3.1 section 19.  Nothing in here imports elementpath.

Part 1 (this block): numeric -> string rules, used by C09 (fn:concat) and C10.
"""
from __future__ import annotations

import math
import re
from decimal import Decimal
from fractions import Fraction

# --------------------------------------------------------------------------
# numeric -> xs:string  (F&O 3.1 19.1.2.2 / 19.1.2.3 "Casting to xs:string")
# --------------------------------------------------------------------------


def integer_to_string(n: int) -> str:
    """canonical xs:integer: optional '-', no leading zeros, no '+'"""
    digits = []
    m = -n if n < 0 else n
    if m == 0:
        return '0'
    while m:
        m, r = divmod(m, 10)
        digits.append('0123456789'[r])
    return ('-' if n < 0 else '') + ''.join(reversed(digits))


def fraction_of_decimal(d: Decimal) -> Fraction:
    return Fraction(d)


def decimal_to_string(d: Decimal | Fraction) -> str:
    """F&O: integer valued -> integer form (no decimal point); else canonical xs:decimal: at least one digit each
    side of the point, no superfluous leading/trailing zeros, no '+'.  (-0 does not exist in xs:decimal: '0')"""
    fr = Fraction(d)
    if fr.denominator == 1:
        return integer_to_string(fr.numerator)
    neg = fr < 0
    fr = -fr if neg else fr
    ip = fr.numerator // fr.denominator
    rest = fr - ip
    digits = []
    # a decimal always has a terminating expansion
    guard = 0
    while rest:
        rest *= 10
        dg = rest.numerator // rest.denominator
        digits.append('0123456789'[dg])
        rest -= dg
        guard += 1
        if guard > 10000:
            raise ValueError('not a terminating decimal')
    return ('-' if neg else '') + integer_to_string(ip) + '.' + ''.join(digits)


def _shortest_digits(x: float) -> tuple[str, int]:
    """(digit string without trailing zeros, decimal exponent e) with |x| = 0.d1d2... * 10**e, shortest
    digit string that round-trips (python repr is David Gay's shortest repr)"""
    t = Decimal(repr(abs(x))).as_tuple()
    ds = ''.join(map(str, t.digits)).lstrip('0')
    exp = t.exponent + len(ds)
    ds = ds.rstrip('0') or '0'
    return ds, exp


def double_is_short_exact(x: float, float32: bool = False) -> bool:
    """True if the exact decimal expansion of x has <= 15 (float32: <= 6) significant digits: then every
    round-tripping digit string of minimal or 'exact' flavour coincides and the string form is forced."""
    if math.isnan(x) or math.isinf(x) or x == 0:
        return True
    fr = Fraction(abs(x))
    # exact expansion: numerator * 5**k / 10**k  with denominator = 2**k
    k = fr.denominator.bit_length() - 1
    n = fr.numerator * 5 ** k
    s = str(n).rstrip('0')
    return len(s) <= (6 if float32 else 15)


def double_to_string(x: float) -> str:
    """F&O 19.1.2.2 for xs:double/xs:float source (digits: shortest round-trip, the XSD 1.1 canonical mapping)"""
    if math.isnan(x):
        return 'NaN'
    if math.isinf(x):
        return 'INF' if x > 0 else '-INF'
    if x == 0:
        return '-0' if math.copysign(1.0, x) < 0 else '0'
    a = abs(x)
    sign = '-' if x < 0 else ''
    if 0.000001 <= a < 1000000:
        return sign + decimal_to_string(Fraction(Decimal(repr(a))))
    ds, exp = _shortest_digits(x)
    mant = ds[0] + '.' + (ds[1:] or '0')
    return sign + mant + 'E' + integer_to_string(exp - 1)


_SCI = re.compile(r'^-?([1-9])\.([0-9]+)E(-?[1-9][0-9]*|0)$')
_DEC = re.compile(r'^-?(0|[1-9][0-9]*)(\.[0-9]*[1-9])?$')


def double_string_problem(x: float, s: str, float32: bool = False):
    """None if s is an acceptable F&O string form of the double x, else a short tag.
    Exact equality with the shortest form is demanded only when the digits are forced
    (double_is_short_exact); otherwise shape + exact round trip of the value."""
    want = double_to_string(x)
    if s == want:
        return None
    if double_is_short_exact(x, float32) or math.isnan(x) or math.isinf(x) or x == 0:
        return 'form'
    a = abs(x)
    if 0.000001 <= a < 1000000:
        if not _DEC.match(s):
            return 'shape-decimal'
    else:
        m = _SCI.match(s)
        if not m or (m.group(2).endswith('0') and m.group(2) != '0'):
            return 'shape-scientific'
    try:
        back = float(s)
    except ValueError:
        return 'unparsable'
    if float32:
        import struct
        back = struct.unpack('f', struct.pack('f', back))[0]
    return None if back == x else 'value'


def xpath1_number_to_string(x: float) -> str:
    """XPath 1.0 section 4.2 string(): NaN, 0 for both zeros, Infinity / -Infinity, integers without point,
    otherwise decimal form (never an exponent) with as many digits as needed to distinguish the value."""
    if math.isnan(x):
        return 'NaN'
    if math.isinf(x):
        return 'Infinity' if x > 0 else '-Infinity'
    if x == 0:
        return '0'
    return ('-' if x < 0 else '') + decimal_to_string(Fraction(Decimal(repr(abs(x)))))


def self_test_numeric():
    D = Decimal
    assert integer_to_string(0) == '0' and integer_to_string(-120) == '-120'
    assert decimal_to_string(D('1.0')) == '1' and decimal_to_string(D('-0.50')) == '-0.5'
    assert decimal_to_string(D('0.000001')) == '0.000001' and decimal_to_string(D('1E+2')) == '100'
    assert decimal_to_string(D('-0')) == '0' and decimal_to_string(D('12.340')) == '12.34'
    assert double_to_string(1e-7) == '1.0E-7' and double_to_string(1e21) == '1.0E21'
    assert double_to_string(1e-6) == '0.000001' and double_to_string(-0.0) == '-0' and double_to_string(100.0) == '100'
    assert double_to_string(1e6) == '1.0E6' and double_to_string(999999.5) == '999999.5'
    assert double_to_string(1.5e300) == '1.5E300' and double_to_string(-12345678.0) == '-1.2345678E7'
    assert double_to_string(0.1) == '0.1' and double_to_string(5e-324) == '5.0E-324'
    assert double_to_string(math.inf) == 'INF' and double_to_string(math.nan) == 'NaN'
    assert double_is_short_exact(0.5) and double_is_short_exact(1e21) and not double_is_short_exact(0.1)
    assert double_string_problem(0.1, '0.1') is None and double_string_problem(0.1, '0.1000000000000000055511151231257827') is None
    assert double_string_problem(1e21, '1E21') == 'form' and double_string_problem(1e-7, '1E-07') == 'shape-scientific'
    assert double_string_problem(1.1e25, '1.1E+25') == 'shape-scientific' and double_string_problem(1.1e25, '1.1E25') is None
    assert xpath1_number_to_string(1e21) == '1000000000000000000000' and xpath1_number_to_string(-0.0) == '0'
    assert xpath1_number_to_string(1.5) == '1.5' and xpath1_number_to_string(1e-7) == '0.0000001'
    assert xpath1_number_to_string(-math.inf) == '-Infinity'


# ==========================================================================
# Part 2: lexical spaces, whitespace facets, value mapping, canonical / F&O string forms
# ==========================================================================
#
# Sources: XML Schema Part 2 Datatypes, 1.0 second edition (3.2, 3.3) and 1.1 (3.3, 3.4, E), and
# XPath Functions and Operators 3.1 section 19.1.2 (casting to xs:string: the canonical form with the
# F&O exceptions: integer-valued decimals without point, double/float E-notation thresholds, timezone
# kept (not normalised to UTC) and written Z for a zero offset, durations normalised).
#
# Value mapping used here (python objects that compare by XSD value equality within one type):
#   string family, anyURI, untypedAtomic : str (after the whiteSpace facet)
#   boolean : bool        decimal and integer family : Fraction / int
#   double : float        float : float rounded to binary32 (struct 'f'), overflow -> INF
#   duration family : ('D', months, seconds as Fraction)
#   date/time family : ('T', type, year, month, day, hour, minute, second as Fraction, tz minutes or None)
#   hexBinary / base64Binary : bytes       QName : ('Q', prefix or '', local)
#
# `ver` is the XSD version, '1.0' or '1.1'.  Differences modelled: year 0000 (1.1 only), '+INF' (1.1 only),
# xs:dateTimeStamp (1.1 only).  Where XSD / F&O leave things open, `parse` raises NoVerdict:
#   years with more than 4 digits (implementation-defined range, FODT0001 allowed), seconds = 60,
#   29 February in years <= 0 (year numbering of BCE leap years differs between 1.0 and 1.1),
#   more than 6 fractional second digits, anyURI beyond the clearly valid / invalid classes,
#   Name / NCName / NMTOKEN characters on which XML 1.0 4th and 5th edition disagree.

XSD_WS = ' \t\n\r'


class LexError(ValueError):
    """the string is not in the lexical space (or, with .bounds, outside the value space) of the type"""

    def __init__(self, msg, bounds=False):
        super().__init__(msg)
        self.bounds = bounds


class NoVerdict(Exception):
    """the specifications leave the case open / implementation-defined"""


def ws_replace(s: str) -> str:
    return ''.join(' ' if c in '\t\n\r' else c for c in s)


def ws_collapse(s: str) -> str:
    out, pending, started = [], False, False
    for c in s:
        if c in XSD_WS:
            pending = started
        else:
            if pending:
                out.append(' ')
                pending = False
            out.append(c)
            started = True
    return ''.join(out)


_DIGITS = '0123456789'


def _all_digits(s: str) -> bool:
    return s != '' and all(c in _DIGITS for c in s)


def _int_of(s: str) -> int:
    n = 0
    for c in s:
        n = n * 10 + _DIGITS.index(c)
    return n


# -- numerics ---------------------------------------------------------------

def _split_sign(s: str):
    if s[:1] in ('+', '-'):
        return s[0], s[1:]
    return '', s


def _parse_decimal_body(body: str):
    """digits [ '.' digits* ] | '.' digits+  -> Fraction ; raises LexError"""
    if body.count('.') > 1:
        raise LexError('decimal')
    ip, dot, fp = body.partition('.')
    if not (all(c in _DIGITS for c in ip) and all(c in _DIGITS for c in fp)):
        raise LexError('decimal')
    if ip == '' and fp == '':
        raise LexError('decimal')
    return Fraction(_int_of(ip + fp) if (ip + fp) else 0, 10 ** len(fp))


def parse_decimal(s: str, ver='1.0') -> Fraction:
    sign, body = _split_sign(s)
    v = _parse_decimal_body(body)
    return -v if sign == '-' else v


_INT_BOUNDS = {
    'integer': (None, None), 'nonPositiveInteger': (None, 0), 'negativeInteger': (None, -1),
    'long': (-2 ** 63, 2 ** 63 - 1), 'int': (-2 ** 31, 2 ** 31 - 1), 'short': (-2 ** 15, 2 ** 15 - 1),
    'byte': (-2 ** 7, 2 ** 7 - 1), 'nonNegativeInteger': (0, None), 'positiveInteger': (1, None),
    'unsignedLong': (0, 2 ** 64 - 1), 'unsignedInt': (0, 2 ** 32 - 1), 'unsignedShort': (0, 2 ** 16 - 1),
    'unsignedByte': (0, 2 ** 8 - 1),
}
INTEGER_TYPES = tuple(_INT_BOUNDS)


def int_bounds(t: str):
    return _INT_BOUNDS[t]


def in_int_bounds(t: str, n: int) -> bool:
    lo, hi = _INT_BOUNDS[t]
    return (lo is None or n >= lo) and (hi is None or n <= hi)


def make_int_parser(t: str):
    def parse(s: str, ver='1.0') -> int:
        sign, body = _split_sign(s)
        if not _all_digits(body):
            raise LexError(t)
        n = _int_of(body)
        n = -n if sign == '-' else n
        if not in_int_bounds(t, n):
            raise LexError(t + ' bounds', bounds=True)
        return n
    return parse


def to_float32(x: float) -> float:
    import struct
    if math.isnan(x) or math.isinf(x):
        return x
    try:
        return struct.unpack('f', struct.pack('f', x))[0]
    except OverflowError:
        return math.inf if x > 0 else -math.inf


def _parse_double(s: str, ver: str) -> float:
    if s == 'NaN':
        return math.nan
    if s in ('INF', '-INF'):
        return math.inf if s == 'INF' else -math.inf
    if s == '+INF':
        if ver == '1.1':
            return math.inf
        raise LexError('+INF is not in the XSD 1.0 lexical space')
    sign, body = _split_sign(s)
    mant, e, exp = body.partition('e') if 'e' in body else body.partition('E')
    if e and exp == '':
        raise LexError('double')
    m = _parse_decimal_body(mant)
    x = 0
    if e:
        es, eb = _split_sign(exp)
        if not _all_digits(eb):
            raise LexError('double')
        x = -_int_of(eb) if es == '-' else _int_of(eb)
    # exact value -> nearest double; python float() of a decimal literal is correctly rounded
    if m == 0:
        v = 0.0
    elif x > 400:
        v = math.inf
    elif x < -800:
        v = 0.0
    else:
        fr = m * Fraction(10) ** x
        try:
            v = fr.numerator / fr.denominator      # int / int true division is correctly rounded
        except OverflowError:
            v = math.inf
    return -v if sign == '-' else v


def parse_double(s: str, ver='1.0') -> float:
    return _parse_double(s, ver)


def parse_float(s: str, ver='1.0') -> float:
    if s in ('NaN', 'INF', '-INF', '+INF'):
        return _parse_double(s, ver)
    # round the exact decimal value directly to binary32 (no double rounding): use the exact fraction
    sign, body = _split_sign(s)
    d = _parse_double(body, ver)           # validates the syntax
    mant, e, exp = body.partition('e') if 'e' in body else body.partition('E')
    m = _parse_decimal_body(mant)
    x = 0
    if e:
        es, eb = _split_sign(exp)
        x = -_int_of(eb) if es == '-' else _int_of(eb)
    if m == 0 or x < -800:
        v = 0.0
    elif x > 400:
        v = math.inf
    else:
        v = _fraction_to_float32(m * Fraction(10) ** x)
    return -v if sign == '-' else v


def _fraction_to_float32(fr: Fraction) -> float:
    """correctly rounded (nearest, ties to even) binary32 value of a positive fraction"""
    if fr <= 0:
        return 0.0
    # find e with 2**e <= fr < 2**(e+1)
    e = fr.numerator.bit_length() - fr.denominator.bit_length()
    if Fraction(2) ** e > fr:
        e -= 1
    elif Fraction(2) ** (e + 1) <= fr:
        e += 1
    e = max(e, -126)                      # subnormals share the exponent -126
    q = fr / Fraction(2) ** (e - 23)      # significand in units of 2**(e-23)
    n = q.numerator // q.denominator
    rem = q - n
    if rem > Fraction(1, 2) or (rem == Fraction(1, 2) and n % 2 == 1):
        n += 1
    v = Fraction(n) * Fraction(2) ** (e - 23)
    if v >= Fraction(2) ** 128:
        return math.inf
    return v.numerator / v.denominator


# -- boolean ----------------------------------------------------------------

def parse_boolean(s: str, ver='1.0') -> bool:
    if s in ('true', '1'):
        return True
    if s in ('false', '0'):
        return False
    raise LexError('boolean')


# -- strings and names ---------------------------------------------------------
_ASCII_LETTERS = 'abcdefghijklmnopqrstuvwxyzABCDEFGHIJKLMNOPQRSTUVWXYZ'
#: characters on which XML 1.0 4th and 5th edition agree (beyond ASCII): name start / name char
_AGREED_START = set(_ASCII_LETTERS + '_' + 'éÉ')
_AGREED_NAMECHAR = _AGREED_START | set(_DIGITS + '.-' + '·' + '́')
_AGREED_NOT_NAME = set(' !"#$%&\'()*+,/;<=>?@[\\]^`{|}~\t\n\r\xa0×÷')


def _name_class(c: str, first: bool, colon_ok: bool):
    """True / False / None (editions disagree or not tabulated)"""
    if c == ':':
        return colon_ok
    if c in (_AGREED_START if first else _AGREED_NAMECHAR):
        return True
    if first and c in _AGREED_NAMECHAR:
        return False          # digits . - middle dot, combining mark: never a start character
    if c in _AGREED_NOT_NAME:
        return False
    return None


def _parse_name(s: str, first_is_start: bool, colon_ok: bool, what: str) -> str:
    if s == '':
        raise LexError(what)
    undecided = False
    for i, c in enumerate(s):
        k = _name_class(c, first_is_start and i == 0, colon_ok)
        if k is False:
            raise LexError(what)
        if k is None:
            undecided = True
    if undecided:
        raise NoVerdict('name character outside the tabulated set')
    return s


def parse_Name(s, ver='1.0'):
    return _parse_name(s, True, True, 'Name')


def parse_NCName(s, ver='1.0'):
    return _parse_name(s, True, False, 'NCName')


def parse_NMTOKEN(s, ver='1.0'):
    return _parse_name(s, False, True, 'NMTOKEN')


def parse_language(s, ver='1.0'):
    parts = s.split('-')
    ok = len(parts[0]) in range(1, 9) and all(c in _ASCII_LETTERS for c in parts[0])
    for p in parts[1:]:
        ok = ok and len(p) in range(1, 9) and all(c in _ASCII_LETTERS + _DIGITS for c in p)
    if not ok:
        raise LexError('language')
    return s


def parse_string(s, ver='1.0'):
    return s


def parse_QName(s, ver='1.0'):
    if s.count(':') > 1:
        raise LexError('QName')
    prefix, colon, local = s.rpartition(':')
    if colon and prefix == '':
        raise LexError('QName')
    if prefix:
        parse_NCName(prefix)
    parse_NCName(local)
    return ('Q', prefix, local)


_URI_SAFE = set(_ASCII_LETTERS + _DIGITS + "-._~:/?#[]@!$&'()*+,;=%")


def parse_anyURI(s, ver='1.0'):
    """verdict only for the clearly valid (RFC 3986 characters, well-formed % escapes, at most one #, no
    '[' ']' , no scheme-less first segment with a colon) and the clearly invalid (broken % escape, two #)"""
    bad_escape = False
    for i, c in enumerate(s):
        if c == '%':
            h = s[i + 1:i + 3]
            if len(h) < 2 or any(x not in '0123456789abcdefABCDEF' for x in h):
                bad_escape = True
    if bad_escape or s.count('#') > 1:
        raise LexError('anyURI')
    if all(c in _URI_SAFE for c in s) and '[' not in s and ']' not in s and ':' not in s.split('/')[0].split('?')[0].split('#')[0]:
        return s
    if all(c in _URI_SAFE for c in s) and '[' not in s and ']' not in s and s[:1] in _ASCII_LETTERS and '://' in s and \
            all(c in _ASCII_LETTERS + _DIGITS + '+-.' for c in s.split('://', 1)[0]) and \
            ':' not in s.split('://', 1)[1]:
        return s
    raise NoVerdict('anyURI')


# -- binary -------------------------------------------------------------------
_B64 = 'ABCDEFGHIJKLMNOPQRSTUVWXYZabcdefghijklmnopqrstuvwxyz0123456789+/'
_HEXD = '0123456789ABCDEF'


def parse_hexBinary(s, ver='1.0') -> bytes:
    if len(s) % 2:
        raise LexError('hexBinary: odd length')
    out = []
    u = s.upper()
    for i in range(0, len(s), 2):
        if s[i] not in '0123456789abcdefABCDEF' or s[i + 1] not in '0123456789abcdefABCDEF':
            raise LexError('hexBinary')
        out.append(_HEXD.index(u[i]) * 16 + _HEXD.index(u[i + 1]))
    return bytes(out)


def parse_base64Binary(s, ver='1.0') -> bytes:
    """XSD 3.2.16 lexical grammar; after whiteSpace collapse only single #x20 between characters remain"""
    if s.startswith(' ') or s.endswith(' ') or '  ' in s:
        raise LexError('base64Binary')       # cannot occur after collapse
    chars = s.replace(' ', '')
    if len(chars) % 4:
        raise LexError('base64Binary: length')
    if any(c not in _B64 + '=' for c in chars):
        raise LexError('base64Binary: alphabet')
    body = chars.rstrip('=')
    pad = len(chars) - len(body)
    if '=' in body or pad > 2:
        raise LexError('base64Binary: padding')
    if pad == 1 and body[-1] not in 'AEIMQUYcgkosw048':
        raise LexError('base64Binary: non-zero padding bits')
    if pad == 2 and body[-1] not in 'AQgw':
        raise LexError('base64Binary: non-zero padding bits')
    bits = 0
    nbits = 0
    out = []
    for c in body:
        bits = (bits << 6) | _B64.index(c)
        nbits += 6
        if nbits >= 8:
            nbits -= 8
            out.append((bits >> nbits) & 0xFF)
    return bytes(out)


def hex_canonical(b: bytes) -> str:
    return ''.join(_HEXD[x >> 4] + _HEXD[x & 15] for x in b)


def base64_canonical(b: bytes) -> str:
    out = []
    for i in range(0, len(b), 3):
        chunk = b[i:i + 3]
        n = int.from_bytes(chunk + b'\0' * (3 - len(chunk)), 'big')
        quad = [_B64[(n >> 18) & 63], _B64[(n >> 12) & 63], _B64[(n >> 6) & 63], _B64[n & 63]]
        if len(chunk) == 1:
            quad[2:] = ['=', '=']
        elif len(chunk) == 2:
            quad[3] = '='
        out.append(''.join(quad))
    return ''.join(out)


# -- durations ------------------------------------------------------------------

def _parse_duration(s: str, kind: str):
    """kind: 'duration' | 'yearMonthDuration' | 'dayTimeDuration' -> ('D', months, seconds)"""
    neg = s.startswith('-')
    body = s[1:] if neg else s
    if not body.startswith('P'):
        raise LexError(kind)
    body = body[1:]
    date_part, t, time_part = body.partition('T')
    if t and time_part == '':
        raise LexError(kind + ': T without time items')
    if date_part == '' and not t:
        raise LexError(kind + ': no items')

    def items(part, designators, frac_ok):
        res, num, seen_dot = {}, '', False
        order = -1
        for c in part:
            if c in _DIGITS:
                num += c
            elif c == '.':
                if seen_dot:
                    raise LexError(kind)
                seen_dot = True
                num += c
            elif c in designators:
                idx = designators.index(c)
                if idx <= order or num == '' or num.startswith('.') or num.endswith('.'):
                    raise LexError(kind)
                if '.' in num and not (frac_ok and c == 'S'):
                    raise LexError(kind)
                res[c] = num
                order, num, seen_dot = idx, '', False
            else:
                raise LexError(kind)
        if num:
            raise LexError(kind)
        return res

    d = items(date_part, 'YMD', False)
    tm = items(time_part, 'HMS', True)
    if kind == 'yearMonthDuration' and ('D' in d or t):
        raise LexError(kind)
    if kind == 'dayTimeDuration' and ('Y' in d or 'M' in d):
        raise LexError(kind)
    months = _int_of(d.get('Y', '0')) * 12 + _int_of(d.get('M', '0'))
    secs = Fraction(_int_of(d.get('D', '0')) * 86400 + _int_of(tm.get('H', '0')) * 3600 + _int_of(tm.get('M', '0')) * 60)
    if 'S' in tm:
        secs += _parse_decimal_body(tm['S'])
    if neg:
        months, secs = -months, -secs
    return ('D', months, secs)


def parse_duration(s, ver='1.0'):
    return _parse_duration(s, 'duration')


def parse_yearMonthDuration(s, ver='1.0'):
    return _parse_duration(s, 'yearMonthDuration')


def parse_dayTimeDuration(s, ver='1.0'):
    return _parse_duration(s, 'dayTimeDuration')


def _ym_string(months: int) -> str:
    a = abs(months)
    y, m = divmod(a, 12)
    if y and m:
        return 'P%dY%dM' % (y, m)
    if y:
        return 'P%dY' % y
    return 'P%dM' % m


def _dt_string(secs: Fraction) -> str:
    a = abs(secs)
    whole = a.numerator // a.denominator
    frac = a - whole
    d, rem = divmod(whole, 86400)
    h, rem = divmod(rem, 3600)
    mi, s = divmod(rem, 60)
    out = 'P'
    if d:
        out += '%dD' % d
    if h or mi or s or frac:
        out += 'T'
        if h:
            out += '%dH' % h
        if mi:
            out += '%dM' % mi
        if s or frac:
            out += decimal_to_string(Fraction(s) + frac) + 'S'
    return out if out != 'P' else 'PT0S'


def duration_canonical(v, kind='duration') -> str:
    """F&O 3.1 19.1.2.2: yearMonthDuration 'PnYnM' (zero: 'P0M'); dayTimeDuration 'PnDTnHnMnS' (zero: 'PT0S');
    duration: both parts, omitting a zero part (both zero: 'PT0S')"""
    _, months, secs = v
    neg = months < 0 or secs < 0
    sign = '-' if neg else ''
    if kind == 'yearMonthDuration':
        return sign + _ym_string(months)
    if kind == 'dayTimeDuration':
        return sign + _dt_string(secs)
    if months and secs:
        return sign + _ym_string(months) + _dt_string(secs)[1:]
    if months:
        return sign + _ym_string(months)
    return sign + _dt_string(secs)


# -- date / time family ---------------------------------------------------------

def _is_leap(astro_year: int) -> bool:
    return astro_year % 4 == 0 and (astro_year % 100 != 0 or astro_year % 400 == 0)


def _days_in_month(year, month) -> int:
    if month == 2:
        return 29 if (year is None or _is_leap(year)) else 28
    return 30 if month in (4, 6, 9, 11) else 31


def _take_tz(s: str):
    """split a trailing timezone: (rest, tz minutes | None)"""
    if s.endswith('Z'):
        return s[:-1], 0
    if len(s) >= 6 and s[-6] in '+-' and s[-3] == ':':
        hh, mm = s[-5:-3], s[-2:]
        if _all_digits(hh) and _all_digits(mm):
            h, m = _int_of(hh), _int_of(mm)
            if not (m <= 59 and (h <= 13 or (h == 14 and m == 0))):
                raise LexError('timezone range')
            off = h * 60 + m
            return s[:-6], (-off if s[-6] == '-' else off)
    return s, None


def _parse_year(ys: str, ver: str) -> int:
    neg = ys.startswith('-')
    digits = ys[1:] if neg else ys
    if not _all_digits(digits) or len(digits) < 4:
        raise LexError('year')
    if len(digits) > 4:
        if digits[0] == '0':
            raise LexError('year: leading zero')
        raise NoVerdict('year with more than four digits')
    y = _int_of(digits)
    if y == 0:
        if ver == '1.0' or neg and False:
            raise LexError('year 0000 is not allowed in XSD 1.0')
    return -y if neg else y


def _parse_time_fields(ts: str):
    """hh:mm:ss(.s+)? -> (h, m, sec Fraction, end_of_day)"""
    if len(ts) < 8 or ts[2] != ':' or ts[5] != ':':
        raise LexError('time')
    hh, mm, ss = ts[0:2], ts[3:5], ts[6:]
    sec_i, dot, sec_f = ss.partition('.')
    if not (_all_digits(hh) and _all_digits(mm) and len(sec_i) == 2 and _all_digits(sec_i)):
        raise LexError('time')
    if dot and not _all_digits(sec_f):
        raise LexError('time: fraction')
    h, m, s = _int_of(hh), _int_of(mm), _int_of(sec_i)
    frac = Fraction(_int_of(sec_f), 10 ** len(sec_f)) if dot else Fraction(0)
    if h == 24:
        if m == 0 and s == 0 and frac == 0:
            return 0, 0, Fraction(0), True
        raise LexError('time: hour 24')
    if h > 23 or m > 59:
        raise LexError('time range')
    if s == 60:
        raise NoVerdict('leap second')
    if s > 59:
        raise LexError('time range')
    if dot and len(sec_f.rstrip('0')) > 6:
        raise NoVerdict('more than 6 fractional second digits')
    return h, m, Fraction(s) + frac, False


def _next_day(y, mo, d):
    d += 1
    if d > _days_in_month(y, mo):
        d = 1
        mo += 1
        if mo > 12:
            mo = 1
            y += 1
            if y == 0 or y > 9999:
                raise NoVerdict('year rollover at the era boundary / beyond four digits')
    return y, mo, d


def _parse_dt(s: str, ver: str, kind: str):
    rest, tz = _take_tz(s)
    y = mo = d = None
    h = mi = 0
    sec = Fraction(0)
    eod = False
    if kind in ('dateTime', 'dateTimeStamp'):
        datepart, t, timepart = rest.partition('T')
        if not t:
            raise LexError(kind)
    elif kind == 'time':
        datepart, timepart = None, rest
    else:
        datepart, timepart = rest, None
    if datepart is not None:
        if kind in ('dateTime', 'dateTimeStamp', 'date'):
            # [-]YYYY-MM-DD
            if len(datepart) < 10 or datepart[-3] != '-' or datepart[-6] != '-':
                raise LexError(kind)
            ys, ms, ds = datepart[:-6], datepart[-5:-3], datepart[-2:]
        elif kind == 'gYearMonth':
            if len(datepart) < 7 or datepart[-3] != '-':
                raise LexError(kind)
            ys, ms, ds = datepart[:-3], datepart[-2:], None
        elif kind == 'gYear':
            ys, ms, ds = datepart, None, None
        elif kind == 'gMonthDay':
            if len(datepart) != 7 or datepart[:2] != '--' or datepart[4] != '-':
                raise LexError(kind)
            ys, ms, ds = None, datepart[2:4], datepart[5:7]
        elif kind == 'gDay':
            if len(datepart) != 5 or datepart[:3] != '---':
                raise LexError(kind)
            ys, ms, ds = None, None, datepart[3:5]
        elif kind == 'gMonth':
            if len(datepart) != 4 or datepart[:2] != '--':
                raise LexError(kind)
            ys, ms, ds = None, datepart[2:4], None
        else:
            raise ValueError(kind)
        if ms is not None:
            if not (len(ms) == 2 and _all_digits(ms)) or not 1 <= _int_of(ms) <= 12:
                raise LexError(kind + ': month')
            mo = _int_of(ms)
        if ds is not None:
            if not (len(ds) == 2 and _all_digits(ds)) or not 1 <= _int_of(ds) <= 31:
                raise LexError(kind + ': day')
            d = _int_of(ds)
        if ys is not None:
            y = _parse_year(ys, ver)
        if d is not None and mo is not None:
            if y is None:
                if d > _days_in_month(None, mo):
                    raise LexError(kind + ': day of month')
            else:
                if mo == 2 and d == 29 and y <= 0:
                    raise NoVerdict('29 February before year 1')
                if d > _days_in_month(y, mo):
                    raise LexError(kind + ': day of month')
    if timepart is not None:
        h, mi, sec, eod = _parse_time_fields(timepart)
    if eod and y is not None:
        y, mo, d = _next_day(y, mo, d)
    if kind == 'dateTimeStamp' and tz is None:
        raise LexError('dateTimeStamp requires a timezone')
    return ('T', 'dateTime' if kind == 'dateTimeStamp' else kind, y, mo, d, h, mi, sec, tz)


def _mk_dt_parser(kind):
    def parse(s, ver='1.0'):
        if kind == 'dateTimeStamp' and ver == '1.0':
            raise NoVerdict('xs:dateTimeStamp does not exist in XSD 1.0')
        return _parse_dt(s, ver, kind)
    return parse


def _tz_string(tz) -> str:
    if tz is None:
        return ''
    if tz == 0:
        return 'Z'
    a = abs(tz)
    return '%s%02d:%02d' % ('-' if tz < 0 else '+', a // 60, a % 60)


def _year_string(y: int) -> str:
    return ('-' if y < 0 else '') + '%04d' % abs(y)


def _sec_string(sec: Fraction) -> str:
    whole = sec.numerator // sec.denominator
    frac = sec - whole
    out = '%02d' % whole
    if frac:
        out += decimal_to_string(frac)[1:]       # '.xyz'
    return out


def datetime_canonical(v) -> str:
    """F&O 19.1.2.2: components as in the (local) value, fractional seconds without trailing zeros,
    timezone kept, Z for a zero offset; 24:00:00 does not exist in the value space"""
    _, kind, y, mo, d, h, mi, sec, tz = v
    if kind == 'dateTime':
        body = '%s-%02d-%02dT%02d:%02d:%s' % (_year_string(y), mo, d, h, mi, _sec_string(sec))
    elif kind == 'date':
        body = '%s-%02d-%02d' % (_year_string(y), mo, d)
    elif kind == 'time':
        body = '%02d:%02d:%s' % (h, mi, _sec_string(sec))
    elif kind == 'gYearMonth':
        body = '%s-%02d' % (_year_string(y), mo)
    elif kind == 'gYear':
        body = _year_string(y)
    elif kind == 'gMonthDay':
        body = '--%02d-%02d' % (mo, d)
    elif kind == 'gDay':
        body = '---%02d' % d
    elif kind == 'gMonth':
        body = '--%02d' % mo
    else:
        raise ValueError(kind)
    return body + _tz_string(tz)


# -- the type table ---------------------------------------------------------------

class TypeInfo:
    def __init__(self, name, ws, parse, canon, primitive, base=None):
        self.name, self.ws, self.parse, self.canon, self.primitive, self.base = name, ws, parse, canon, primitive, base


def _canon_identity(v):
    return v


def _canon_float(v):
    return double_to_string_float32(v)


def double_to_string_float32(x: float) -> str:
    """F&O string form of an xs:float: shortest digits that round-trip through binary32"""
    if math.isnan(x) or math.isinf(x) or x == 0:
        return double_to_string(x)
    import struct
    for prec in range(1, 10):
        s = '%.*e' % (prec - 1, abs(x))
        if to_float32(float(s)) == abs(x):
            break
    mant, _, e = s.partition('e')
    digits = mant.replace('.', '').rstrip('0') or '0'
    exp10 = int(e)
    sign = '-' if x < 0 else ''
    a = abs(x)
    if 0.000001 <= a < 1000000:
        fr = Fraction(int(digits)) * Fraction(10) ** (exp10 - len(digits) + 1)
        return sign + decimal_to_string(fr)
    return sign + digits[0] + '.' + (digits[1:] or '0') + 'E' + integer_to_string(exp10)


TYPES: dict = {}


def _reg(name, ws, parse, canon, primitive, base=None):
    TYPES[name] = TypeInfo(name, ws, parse, canon, primitive, base)


_reg('string', 'preserve', parse_string, _canon_identity, 'string')
_reg('normalizedString', 'replace', parse_string, _canon_identity, 'string', 'string')
_reg('token', 'collapse', parse_string, _canon_identity, 'string', 'normalizedString')
_reg('language', 'collapse', parse_language, _canon_identity, 'string', 'token')
_reg('NMTOKEN', 'collapse', parse_NMTOKEN, _canon_identity, 'string', 'token')
_reg('Name', 'collapse', parse_Name, _canon_identity, 'string', 'token')
_reg('NCName', 'collapse', parse_NCName, _canon_identity, 'string', 'Name')
_reg('ID', 'collapse', parse_NCName, _canon_identity, 'string', 'NCName')
_reg('IDREF', 'collapse', parse_NCName, _canon_identity, 'string', 'NCName')
_reg('ENTITY', 'collapse', parse_NCName, _canon_identity, 'string', 'NCName')
_reg('untypedAtomic', 'preserve', parse_string, _canon_identity, 'untypedAtomic')
_reg('anyURI', 'collapse', parse_anyURI, _canon_identity, 'anyURI')
_reg('QName', 'collapse', parse_QName, lambda v: (v[1] + ':' if v[1] else '') + v[2], 'QName')
_reg('boolean', 'collapse', parse_boolean, lambda v: 'true' if v else 'false', 'boolean')
_reg('decimal', 'collapse', parse_decimal, decimal_to_string, 'decimal')
for _t in INTEGER_TYPES:
    _reg(_t, 'collapse', make_int_parser(_t), integer_to_string, 'decimal', 'integer' if _t != 'integer' else 'decimal')
_reg('double', 'collapse', parse_double, double_to_string, 'double')
_reg('float', 'collapse', parse_float, _canon_float, 'float')
_reg('duration', 'collapse', parse_duration, lambda v: duration_canonical(v, 'duration'), 'duration')
_reg('yearMonthDuration', 'collapse', parse_yearMonthDuration, lambda v: duration_canonical(v, 'yearMonthDuration'), 'duration', 'duration')
_reg('dayTimeDuration', 'collapse', parse_dayTimeDuration, lambda v: duration_canonical(v, 'dayTimeDuration'), 'duration', 'duration')
for _t in ('dateTime', 'dateTimeStamp', 'date', 'time', 'gYearMonth', 'gYear', 'gMonthDay', 'gDay', 'gMonth'):
    _reg(_t, 'collapse', _mk_dt_parser(_t), datetime_canonical, 'dateTime' if _t == 'dateTimeStamp' else _t,
         'dateTime' if _t == 'dateTimeStamp' else None)
_reg('hexBinary', 'collapse', parse_hexBinary, hex_canonical, 'hexBinary')
_reg('base64Binary', 'collapse', parse_base64Binary, base64_canonical, 'base64Binary')


def normalize(t: str, s: str) -> str:
    ws = TYPES[t].ws
    return s if ws == 'preserve' else ws_replace(s) if ws == 'replace' else ws_collapse(s)


def parse(t: str, s: str, ver: str = '1.0'):
    """value of the literal s for type t; raises LexError (not in the lexical/value space) or NoVerdict"""
    return TYPES[t].parse(normalize(t, s), ver)


def is_valid(t: str, s: str, ver: str = '1.0'):
    """True / False / None (no verdict)"""
    try:
        parse(t, s, ver)
        return True
    except LexError:
        return False
    except NoVerdict:
        return None


def canonical(t: str, v) -> str:
    """F&O 19.1.2 string form of the value v of type t"""
    return TYPES[t].canon(v)


def values_equal(a, b) -> bool:
    if isinstance(a, float) and isinstance(b, float) and math.isnan(a) and math.isnan(b):
        return True
    return a == b


def self_test_types():
    F = Fraction
    assert ws_collapse(' \t a  b\n') == 'a b' and ws_replace('a\tb\n') == 'a b ' and ws_collapse('a\xa0 b') == 'a\xa0 b'
    assert parse('decimal', ' +1.50 ') == F(3, 2) and parse('decimal', '.5') == F(1, 2) and parse('decimal', '5.') == 5
    for bad in ('', '.', '1e3', '1_0', '+-1', '1,0', '١', '1 0', '--1', 'INF'):
        assert is_valid('decimal', bad) is False, bad
    assert parse('integer', '-0012') == -12 and is_valid('integer', '1.0') is False and is_valid('integer', '') is False
    assert is_valid('byte', '127') and is_valid('byte', '-128') and not is_valid('byte', '128') and not is_valid('byte', '-129')
    assert is_valid('unsignedLong', '18446744073709551615') and not is_valid('unsignedLong', '18446744073709551616')
    assert not is_valid('unsignedByte', '-1') and is_valid('unsignedByte', '-0') and is_valid('unsignedByte', '+255')
    assert not is_valid('positiveInteger', '0') and not is_valid('negativeInteger', '0') and is_valid('nonPositiveInteger', '0')
    assert is_valid('long', '9223372036854775807') and not is_valid('long', '9223372036854775808')
    assert parse('double', '1e-7') == 1e-7 and parse('double', '-1.5E3') == -1500.0 and parse('double', '.5e1') == 5.0
    assert math.isnan(parse('double', 'NaN')) and parse('double', '-INF') == -math.inf
    assert is_valid('double', '+INF', '1.0') is False and is_valid('double', '+INF', '1.1') is True
    for bad in ('inf', 'nan', 'NAN', 'Infinity', '-NaN', '+NaN', '1e', 'e5', '1_0', '1e5.0', '0x10', '1.0f', '', '1 e5', 'INFINITY'):
        assert is_valid('double', bad, '1.1') is False, bad
    assert parse('double', '1e400') == math.inf and parse('double', '1e-400') == 0.0 and parse('double', '0e999999') == 0.0
    assert parse('float', '3.4028235e38') == 3.4028234663852886e38 and parse('float', '3.5e38') == math.inf
    assert parse('float', '0.1') == to_float32(0.1) and parse('float', '1e-46') == 0.0 and parse('float', '1e-45') == 1.401298464324817e-45
    assert parse('float', '16777217') == 16777216.0 and parse('float', '16777219') == 16777220.0
    assert canonical('float', parse('float', '0.1')) == '0.1' and canonical('float', parse('float', '1e10')) == '1.0E10'
    assert canonical('float', parse('float', '16777217')) == '1.6777216E7'
    assert parse('boolean', ' true ') is True and parse('boolean', '0') is False
    for bad in ('TRUE', 'True', 'yes', '', '2', 't', 'false1', '00', '+1'):
        assert is_valid('boolean', bad) is False, bad
    assert parse('hexBinary', '0fB7') == b'\x0f\xb7' and canonical('hexBinary', b'\x0f\xb7') == '0FB7'
    assert is_valid('hexBinary', '') and not is_valid('hexBinary', 'F') and not is_valid('hexBinary', '0G') and not is_valid('hexBinary', '0F B7')
    assert parse('base64Binary', 'AQID') == b'\x01\x02\x03' and parse('base64Binary', ' AQ I= ') == b'\x01\x02'
    assert parse('base64Binary', 'AQ==') == b'\x01' and parse('base64Binary', '') == b''
    for bad in ('A', 'AQ=', 'AQI', 'AR==', 'AQJ=', '=AQI', 'AQ=I', 'AQ===', 'AQID!', 'AQ==AQ=='):
        assert is_valid('base64Binary', bad) is False, bad
    import base64 as _b
    for raw in (b'', b'a', b'ab', b'abc', b'\xff\xfe\xfd\xfc', bytes(range(20))):
        assert base64_canonical(raw) == _b.b64encode(raw).decode() and parse('base64Binary', base64_canonical(raw)) == raw
    assert parse('duration', 'P1Y2M3DT4H5M6.5S') == ('D', 14, F(3 * 86400 + 4 * 3600 + 5 * 60) + F(13, 2))
    assert parse('duration', '-PT0S') == ('D', 0, 0) and parse('duration', 'P1M') == ('D', 1, 0) and parse('duration', 'PT1M') == ('D', 0, 60)
    for bad in ('P', 'PT', 'P1.5Y', '1Y', 'P1S', 'PT1Y', 'P1MT', 'P-1Y', '+P1Y', 'P1Y1Y', 'P1M1Y', 'PT1S1M', 'P1YT', 'PT.5S', 'PT5.S', 'pt1s', 'P 1Y', 'PT1.5M'):
        assert is_valid('duration', bad) is False, bad
    assert is_valid('yearMonthDuration', 'P1Y2M') and not is_valid('yearMonthDuration', 'P1D') and not is_valid('yearMonthDuration', 'P1YT0S')
    assert is_valid('dayTimeDuration', 'P1DT2H') and not is_valid('dayTimeDuration', 'P1M') and is_valid('dayTimeDuration', 'PT1M')
    assert canonical('duration', parse('duration', 'P14M')) == 'P1Y2M' and canonical('duration', parse('duration', 'PT36H')) == 'P1DT12H'
    assert canonical('duration', parse('duration', 'P0Y')) == 'PT0S' and canonical('yearMonthDuration', parse('yearMonthDuration', 'P0Y')) == 'P0M'
    assert canonical('dayTimeDuration', parse('dayTimeDuration', '-PT90.50S')) == '-PT1M30.5S'
    assert canonical('duration', parse('duration', '-P1Y13M1DT25H')) == '-P2Y1M2DT1H'
    assert parse('dateTime', '2000-01-01T00:00:00Z') == ('T', 'dateTime', 2000, 1, 1, 0, 0, 0, 0)
    assert canonical('dateTime', parse('dateTime', '2000-12-31T24:00:00')) == '2001-01-01T00:00:00'
    assert canonical('dateTime', parse('dateTime', '1999-05-31T13:20:00.500-05:00')) == '1999-05-31T13:20:00.5-05:00'
    assert canonical('dateTime', parse('dateTime', '2000-01-01T00:00:00+00:00')) == '2000-01-01T00:00:00Z'
    assert canonical('time', parse('time', '13:20:00.000-00:00')) == '13:20:00Z'
    for bad in ('2000-02-30T00:00:00', '2000-13-01T00:00:00', '2000-00-10T00:00:00', '2001-02-29T00:00:00', '2000-01-01T25:00:00',
                '2000-01-01T24:00:01', '2000-01-01T00:60:00', '2000-1-01T00:00:00', '2000-01-01', '2000-01-01T00:00', '2000-01-01 00:00:00',
                '2000-01-01T00:00:00+14:01', '2000-01-01T00:00:00+15:00', '2000-01-01T00:00:00z', '02000-01-01T00:00:00',
                '200-01-01T00:00:00', '+2000-01-01T00:00:00', '2000-01-01T00:00:00.', '2000-01-01T00:00:00Z+01:00', '2000-01-32T00:00:00'):
        assert is_valid('dateTime', bad, '1.1') is False, bad
    assert is_valid('dateTime', '0000-01-01T00:00:00', '1.0') is False and is_valid('dateTime', '0000-01-01T00:00:00', '1.1') is True
    assert is_valid('dateTime', '-0001-01-01T00:00:00', '1.0') is True and is_valid('date', '12000-01-01') is None
    assert is_valid('date', '2000-02-29') and not is_valid('date', '1900-02-29') and is_valid('date', '2004-02-29+14:00')
    assert is_valid('time', '24:00:00') and canonical('time', parse('time', '24:00:00')) == '00:00:00' and not is_valid('time', '24:00:00.1')
    assert is_valid('gMonthDay', '--02-29') and not is_valid('gMonthDay', '--02-30') and not is_valid('gMonthDay', '--04-31')
    assert is_valid('gDay', '---31') and not is_valid('gDay', '---32') and not is_valid('gDay', '--31') and is_valid('gDay', '---01Z')
    assert is_valid('gMonth', '--12') and not is_valid('gMonth', '--13') and is_valid('gMonth', '--01-05:00')
    assert is_valid('gYear', '2000') and is_valid('gYear', '-2000') and not is_valid('gYear', '200') and is_valid('gYear', '2000Z')
    assert is_valid('gYearMonth', '2000-12') and not is_valid('gYearMonth', '2000-13') and not is_valid('gYearMonth', '2000-1')
    assert is_valid('dateTimeStamp', '2000-01-01T00:00:00', '1.1') is False and is_valid('dateTimeStamp', '2000-01-01T00:00:00Z', '1.1') is True
    assert is_valid('language', 'en-US') and not is_valid('language', 'en_US') and not is_valid('language', 'abcdefghi') and not is_valid('language', '')
    assert is_valid('NCName', 'a.b-c_1') and not is_valid('NCName', 'a:b') and is_valid('Name', 'a:b') and not is_valid('Name', '1a')
    assert is_valid('NMTOKEN', '1a') and not is_valid('NMTOKEN', 'a b') and not is_valid('NMTOKEN', '') and is_valid('NMTOKEN', ' 1a ')
    assert is_valid('NCName', 'a‿b') is None and is_valid('NCName', '') is False
    assert parse('QName', 'xs:int') == ('Q', 'xs', 'int') and not is_valid('QName', ':a') and not is_valid('QName', 'a:') and not is_valid('QName', 'a:b:c')
    assert is_valid('anyURI', 'http://example.com/a%20b#f') is True and is_valid('anyURI', '%zz') is False and is_valid('anyURI', 'a#b#c') is False
    assert is_valid('anyURI', 'a b') is None and is_valid('anyURI', '') is True and is_valid('anyURI', 'http:://a/b') is None
    assert parse('token', '  a \t b ') == 'a b' and parse('normalizedString', 'a\tb') == 'a b' and parse('string', ' a\t') == ' a\t'


# ==========================================================================
# Part 3: casting (F&O 3.1 section 19: casting table 19.1 and the rules 19.1.1 - 19.1.8, 19.2, 19.3)
# ==========================================================================
# table classes
_CLS = {'untypedAtomic': 'uA', 'string': 'str', 'float': 'flt', 'double': 'dbl', 'decimal': 'dec', 'integer': 'int',
        'duration': 'dur', 'yearMonthDuration': 'yMD', 'dayTimeDuration': 'dTD', 'dateTime': 'dT', 'time': 'tim', 'date': 'dat',
        'gYearMonth': 'gYM', 'gYear': 'gYr', 'gMonthDay': 'gMD', 'gDay': 'gDay', 'gMonth': 'gMon', 'boolean': 'bool',
        'base64Binary': 'b64', 'hexBinary': 'hxB', 'anyURI': 'aURI', 'QName': 'QN', 'dateTimeStamp': 'dT'}
for _t in INTEGER_TYPES:
    _CLS[_t] = 'int'
for _t in ('normalizedString', 'token', 'language', 'NMTOKEN', 'Name', 'NCName', 'ID', 'IDREF', 'ENTITY'):
    _CLS[_t] = 'str'

_NUM = ('flt', 'dbl', 'dec', 'int')
#: F&O 19.1 casting table restricted to Y / M cells (everything absent is N).  uA / str sources: M to everything
#: (QName: only literals in 2.0, see NoVerdict below); every source: Y to uA and str.
_ALLOWED = {
    'flt': _NUM + ('bool',), 'dbl': _NUM + ('bool',), 'dec': _NUM + ('bool',), 'int': _NUM + ('bool',),
    'bool': _NUM + ('bool',),
    'dur': ('dur', 'yMD', 'dTD'), 'yMD': ('dur', 'yMD', 'dTD'), 'dTD': ('dur', 'yMD', 'dTD'),
    'dT': ('dT', 'tim', 'dat', 'gYM', 'gYr', 'gMD', 'gDay', 'gMon'), 'tim': ('tim',),
    'dat': ('dT', 'dat', 'gYM', 'gYr', 'gMD', 'gDay', 'gMon'),
    'gYM': ('gYM',), 'gYr': ('gYr',), 'gMD': ('gMD',), 'gDay': ('gDay',), 'gMon': ('gMon',),
    'b64': ('b64', 'hxB'), 'hxB': ('b64', 'hxB'), 'aURI': ('aURI',), 'QN': ('QN',),
}


def table_class(t: str) -> str:
    return _CLS[t]


def cast_allowed(s: str, t: str) -> bool:
    """is the (source type, target type) cell of the casting table Y or M (as opposed to N)?"""
    cs, ct = _CLS[s], _CLS[t]
    if ct in ('uA', 'str') or cs in ('uA', 'str'):
        return True
    return ct in _ALLOWED[cs]


class CastError(Exception):
    """the cast must raise a dynamic or type error (kind: 'forbidden' = N cell, 'value' = M cell with a bad value)"""

    def __init__(self, kind):
        super().__init__(kind)
        self.kind = kind


def _fraction_is_short(fr: Fraction, limit=18) -> bool:
    n = abs(fr.numerator)
    return len(str(n).rstrip('0')) <= limit if fr.denominator == 1 else len(decimal_to_string(abs(fr)).replace('.', '').strip('0')) <= limit


def _to_string(s: str, v) -> str:
    """F&O 19.1.2: string form of the value v of type s"""
    return canonical(s, v)


def _check_target_facets(t: str, v, ver: str):
    """value v is in the value space of the primitive/base class of t: enforce t's own facets"""
    if t in INTEGER_TYPES:
        if not in_int_bounds(t, v):
            raise CastError('value')
        return v
    if t == 'dateTimeStamp':
        if ver == '1.0':
            raise NoVerdict('dateTimeStamp in XSD 1.0')
        if v[8] is None:
            raise CastError('value')
        return v
    return v


def cast_ref(s: str, v, t: str, ver: str = '1.0'):
    """expected value (in the value mapping of Part 2) of `v cast as xs:t` for v of type s.
    Raises CastError (the cast must fail) or NoVerdict."""
    cs, ct = _CLS[s], _CLS[t]
    if t == 'QName' and cs != 'QN':
        raise NoVerdict('cast to QName depends on the XPath version and the static namespaces')
    if ct in ('uA', 'str'):
        text = v if cs in ('uA', 'str') else _to_string(s, v)
        if t in ('string', 'untypedAtomic'):
            return text
        try:
            return parse(t, text, ver)
        except LexError:
            raise CastError('value') from None
    if cs in ('uA', 'str'):
        try:
            return parse(t, v, ver)
        except LexError:
            raise CastError('value') from None
    if ct not in _ALLOWED[cs]:
        raise CastError('forbidden')
    # ---- numeric targets
    if ct in _NUM:
        if cs == 'bool':
            x = 1 if v else 0
            r = float(x) if ct in ('flt', 'dbl') else x
            return _check_target_facets(t, r, ver)
        if ct == 'dbl':
            if cs in ('flt', 'dbl'):
                return float(v)
            return _fraction_to_double(Fraction(v))
        if ct == 'flt':
            if cs in ('flt', 'dbl'):
                return to_float32(v)
            fr = Fraction(v)
            if fr == 0:
                return 0.0
            r = _fraction_to_float32(abs(fr))
            return -r if fr < 0 else r
        # decimal / integer targets
        if cs in ('flt', 'dbl'):
            if math.isnan(v) or math.isinf(v):
                raise CastError('value')            # FOCA0002
            fr = Fraction(v)
        else:
            fr = Fraction(v)
        if ct == 'dec':
            if cs in ('flt', 'dbl') and not _fraction_is_short(fr):
                raise NoVerdict('decimal precision beyond 18 digits is implementation-defined')
            return fr
        n = fr.numerator // fr.denominator if fr >= 0 else -((-fr.numerator) // fr.denominator)    # truncate towards zero
        return _check_target_facets(t, n, ver)
    if ct == 'bool':
        if cs == 'bool':
            return v
        if cs in ('flt', 'dbl'):
            return not (v == 0 or math.isnan(v))
        return Fraction(v) != 0
    # ---- durations
    if ct in ('dur', 'yMD', 'dTD'):
        _, months, secs = v
        if ct == 'dur':
            return ('D', months, secs)
        if ct == 'yMD':
            return ('D', months, Fraction(0))
        return ('D', 0, secs)
    # ---- date / time family
    if ct in ('dT', 'tim', 'dat', 'gYM', 'gYr', 'gMD', 'gDay', 'gMon'):
        _, kind, y, mo, d, h, mi, sec, tz = v
        if ct == 'dT':
            if cs == 'dat':
                r = ('T', 'dateTime', y, mo, d, 0, 0, Fraction(0), tz)
            else:
                r = ('T', 'dateTime', y, mo, d, h, mi, sec, tz)
            return _check_target_facets(t, r, ver)
        if ct == cs:
            return v
        tk = {'tim': 'time', 'dat': 'date', 'gYM': 'gYearMonth', 'gYr': 'gYear', 'gMD': 'gMonthDay', 'gDay': 'gDay', 'gMon': 'gMonth'}[ct]
        if ct == 'tim':
            return ('T', tk, None, None, None, h, mi, sec, tz)
        keep_y = y if ct in ('dat', 'gYM', 'gYr') else None
        keep_m = mo if ct in ('dat', 'gYM', 'gMD', 'gMon') else None
        keep_d = d if ct in ('dat', 'gMD', 'gDay') else None
        return ('T', tk, keep_y, keep_m, keep_d, 0, 0, Fraction(0), tz)
    if ct in ('b64', 'hxB'):
        return v
    if ct in ('aURI', 'QN'):
        return v
    raise ValueError((s, t))


def _fraction_to_double(fr: Fraction) -> float:
    if fr == 0:
        return 0.0
    try:
        return fr.numerator / fr.denominator
    except OverflowError:
        return math.inf if fr > 0 else -math.inf


def self_test_cast():
    F = Fraction
    assert cast_allowed('double', 'boolean') and not cast_allowed('boolean', 'date') and cast_allowed('date', 'gDay')
    assert not cast_allowed('time', 'dateTime') and not cast_allowed('dateTime', 'duration') and cast_allowed('byte', 'float')
    assert cast_allowed('hexBinary', 'base64Binary') and not cast_allowed('hexBinary', 'integer') and cast_allowed('anyURI', 'string')
    assert not cast_allowed('anyURI', 'integer') and cast_allowed('yearMonthDuration', 'dayTimeDuration') and not cast_allowed('gYear', 'gYearMonth')
    assert cast_ref('double', 1e-7, 'string') == '1.0E-7' and cast_ref('decimal', F(5, 2), 'integer') == 2 and cast_ref('decimal', F(-5, 2), 'integer') == -2
    assert cast_ref('double', -0.0, 'boolean') is False and cast_ref('double', math.nan, 'boolean') is False and cast_ref('integer', 2, 'boolean') is True
    assert cast_ref('boolean', True, 'double') == 1.0 and cast_ref('boolean', False, 'string') == 'false' and cast_ref('boolean', True, 'byte') == 1
    assert cast_ref('integer', 16777217, 'float') == 16777216.0 and cast_ref('double', 1e300, 'float') == math.inf
    assert cast_ref('hexBinary', b'\x01\x02', 'base64Binary') == b'\x01\x02' and cast_ref('hexBinary', b'\x01', 'string') == '01'
    assert cast_ref('dateTime', parse('dateTime', '2000-01-02T03:04:05.5+01:00'), 'date') == parse('date', '2000-01-02+01:00')
    assert cast_ref('dateTime', parse('dateTime', '2000-01-02T03:04:05Z'), 'time') == parse('time', '03:04:05Z')
    assert cast_ref('dateTime', parse('dateTime', '2000-01-02T03:04:05Z'), 'gMonthDay') == parse('gMonthDay', '--01-02Z')
    assert cast_ref('date', parse('date', '2000-01-02'), 'dateTime') == parse('dateTime', '2000-01-02T00:00:00')
    assert cast_ref('duration', parse('duration', 'P1Y2M3DT4H'), 'yearMonthDuration') == ('D', 14, 0)
    assert cast_ref('duration', parse('duration', 'P1Y2M3DT4H'), 'dayTimeDuration') == ('D', 0, 3 * 86400 + 4 * 3600)
    assert cast_ref('yearMonthDuration', ('D', 14, F(0)), 'dayTimeDuration') == ('D', 0, 0)
    assert cast_ref('string', ' 12 ', 'integer') == 12 and cast_ref('untypedAtomic', '1e0', 'double') == 1.0
    assert cast_ref('integer', 5, 'token') == '5' and cast_ref('string', ' a  b ', 'token') == 'a b'
    for bad in (lambda: cast_ref('double', math.inf, 'integer'), lambda: cast_ref('integer', 128, 'byte'), lambda: cast_ref('string', 'x', 'integer'),
                lambda: cast_ref('boolean', True, 'date'), lambda: cast_ref('string', 'a b', 'NCName'), lambda: cast_ref('double', 300.0, 'unsignedByte')):
        try:
            bad()
            raise AssertionError('CastError expected')
        except CastError:
            pass
    try:
        cast_ref('double', 0.1, 'decimal')
        raise AssertionError('NoVerdict expected')
    except NoVerdict:
        pass
    assert cast_ref('double', 0.5, 'decimal') == F(1, 2) and cast_ref('float', to_float32(0.1), 'double') == to_float32(0.1)
