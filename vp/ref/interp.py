"""Mini XPath 3.1 reference interpreter (DESIGN 4.7) - definitional, slow, independent of elementpath.

Programs are JSON-able ASTs (nested lists, first element = tag) so that cases are replayable:

  literals   ["int", 5] ["dec", "-2.5"] ["dbl", "2.5"|"INF"|"-INF"|"NaN"] ["flt", "1.5"] ["str", "a"]
             ["bool", true] ["unt", "3"] (xs:untypedAtomic) ["uri", "b"] (xs:anyURI) ["empty"]
  types      ["instance", e, "xs:boolean"] (instance of)   ["call", "xs:integer", [e]] (constructor)
  steps      ["step", "a"]  child::a of the context node (only the root element r has children)
  nodes      ["nodes", key]            a fixed selection of element nodes of DOC (see DOC_PATHS)
  sequences  ["seq", e1, e2, ...]  ["to", a, b]
  operators  ["neg", e] ["arith", "+|-|*", a, b] ["vcmp", "eq|ne|lt|le|gt|ge", a, b]
             ["gcmp", "=|!=|<|<=|>|>=", a, b] ["and", a, b] ["or", a, b] ["if", c, t, e]
  binding    ["for", [[v, e], ...], body] ["let", [[v, e], ...], body]
             ["some", [[v, e], ...], sat] ["every", [[v, e], ...], sat] ["var", v]
  focus      ["ctx"] (.)  ["pos"] ["last"]  ["map", a, b] (a ! b)  ["filter", e, pred] (e[pred])
  calls      ["call", name, [args]]     static call; an arg ["?"] makes it a partial application
             ["inline", [params], body] inline function (closure)
             ["ref", name, arity]       named function reference name#arity
             ["dyn", f, [args]]         dynamic call f(args); an arg ["?"] = partial application
             ["array", [members]]       square array constructor; ["mapc", [[k, v], ...]] map constructor;
                                        ["lookup", e, key] e?key; arrays and maps are function items of arity 1
             ["arrow", e, f, a1, ...]   e => f(a1, ...); f = ["ref", name, arity] renders as a static name
             inline params may be "x" or ["x", "xs:integer"]; ["inline", params, body, "xs:integer"] declares
             the result type (only types the value already has: no conversion is modelled)

Values: a sequence is a python list of items; an item is a tuple
  ('i', int) xs:integer | ('d', Fraction) xs:decimal | ('f', float) xs:float | ('D', float) xs:double
  ('s', str) | ('b', bool) | ('u', str) xs:untypedAtomic | ('a', str) xs:anyURI
  ('n', int) element node #k of DOC (-1 = the root element r)
  ('A', tuple_of_member_lists) array | FnItem instance (function item)

Errors are XPError(code).  Evaluation is strict (every subexpression is evaluated), so a program
that evaluates without error here has the same value under every evaluation order XPath allows.
"""
from __future__ import annotations

import math
import re
import struct
from fractions import Fraction

# --------------------------------------------------------------------------
# the fixed little document:  <r><a>1</a><a>2</a><b>x</b><a>2</a><c/><d>10</d></r>
# --------------------------------------------------------------------------
DOC_CHILDREN = [('a', '1'), ('a', '2'), ('b', 'x'), ('a', '2'), ('c', ''), ('d', '10')]
DOC_PATHS = {          # key -> (XPath text, node ids in document order)
    'a': ('/r/a', [0, 1, 3]),
    'b': ('/r/b', [2]),
    'ad': ('/r/*[. castable as xs:integer]', [0, 1, 3, 5]),
    'all': ('/r/*', [0, 1, 2, 3, 4, 5]),
    'none': ('/r/zz', []),
    'a1': ('/r/a[1]', [0]),
    'd': ('/r/d', [5]),
    'r': ('/r', [-1]),
}


def build_doc():
    """The document as an xml.etree.ElementTree element (built by construction)."""
    import xml.etree.ElementTree as ET
    r = ET.Element('r')
    for name, text in DOC_CHILDREN:
        e = ET.SubElement(r, name)
        if text:
            e.text = text
    return r


class XPError(Exception):
    def __init__(self, code, msg=''):
        super().__init__(f'{code} {msg}')
        self.code = code


class Budget(Exception):
    """evaluation exceeded the step budget (case is discarded, never a verdict)"""


# --------------------------------------------------------------------------
# numbers
# --------------------------------------------------------------------------
RANK = {'i': 0, 'd': 1, 'f': 2, 'D': 3}
TAGS = 'idfD'


def f32(x: float) -> float:
    try:
        return struct.unpack('f', struct.pack('f', x))[0]
    except OverflowError:
        return math.copysign(math.inf, x)


def is_num(it) -> bool:
    return isinstance(it, tuple) and it[0] in RANK


def promote(it, tag):
    """numeric type promotion / subtype substitution of item `it` up to type `tag`"""
    t, v = it
    if t == tag:
        return it
    assert RANK[t] < RANK[tag], (it, tag)
    if tag == 'd':
        return ('d', Fraction(v))
    if tag == 'f':
        return ('f', f32(float(v)))
    return ('D', float(v))


def common_tag(items):
    return TAGS[max(RANK[it[0]] for it in items)]


def num_add(a, b):
    tag = common_tag((a, b))
    x, y = promote(a, tag)[1], promote(b, tag)[1]
    if tag == 'f':
        return ('f', f32(x + y))
    return (tag, x + y)


def num_sub(a, b):
    tag = common_tag((a, b))
    x, y = promote(a, tag)[1], promote(b, tag)[1]
    if tag == 'f':
        return ('f', f32(x - y))
    return (tag, x - y)


def num_mul(a, b):
    tag = common_tag((a, b))
    x, y = promote(a, tag)[1], promote(b, tag)[1]
    if tag == 'f':
        return ('f', f32(x * y))
    if tag == 'D' and (math.isinf(x) or math.isinf(y)) and (x == 0 or y == 0):
        return ('D', math.nan)
    return (tag, x * y)


def num_idiv_mod(op, a, b):
    """op:numeric-integer-divide / op:numeric-mod on xs:integer operands only (F&O 4.2.5, 4.2.6)"""
    if a[0] != 'i' or b[0] != 'i':
        raise Budget('idiv/mod are modelled for xs:integer only')
    if b[1] == 0:
        raise XPError('FOAR0001', 'division by zero')
    q = abs(a[1]) // abs(b[1])
    if (a[1] < 0) != (b[1] < 0):
        q = -q                                   # truncation toward zero
    if op == 'idiv':
        return ('i', q)
    return ('i', a[1] - q * b[1])                # the result has the sign of the dividend


def num_div_count(a, n: int):
    """a div n for fn:avg (n >= 1): integer/decimal -> decimal, float -> float, double -> double"""
    t, v = a
    if t in 'id':
        return ('d', Fraction(v) / n)
    if t == 'f':
        return ('f', f32(v / n))
    return ('D', v / n)


def num_eq(a, b) -> bool:
    tag = common_tag((a, b))
    return promote(a, tag)[1] == promote(b, tag)[1]     # NaN == x is False in python too


def num_lt(a, b) -> bool:
    tag = common_tag((a, b))
    return promote(a, tag)[1] < promote(b, tag)[1]


def is_nan(it) -> bool:
    return it[0] in 'fD' and math.isnan(it[1])


def round_half_up(it):
    """fn:round#1: nearest integer, ties toward positive infinity; type preserved"""
    t, v = it
    if t == 'i':
        return it
    if t == 'd':
        return ('d', Fraction(math.floor(v + Fraction(1, 2))))
    if math.isnan(v) or math.isinf(v):
        return it
    r = math.floor(v)
    if v - r >= 0.5:          # exact: v - floor(v) is exactly representable for |v| < 2**52
        r += 1
    if abs(v) >= 2.0 ** 52:
        return it
    res = float(r)
    if res == 0 and (v < 0 or math.copysign(1.0, v) < 0):
        res = -0.0
    return (t, res)


_DBL_RE = re.compile(r'^[+-]?(\d+(\.\d*)?|\.\d+)([eE][+-]?\d+)?$')
_INT_RE = re.compile(r'^[+-]?\d+$')
_WS = ' \t\n\r'


def cast_double(lex: str):
    s = lex.strip(_WS)
    if s in ('INF', '+INF'):          # '+INF' only XSD 1.1; never generated
        return ('D', math.inf)
    if s == '-INF':
        return ('D', -math.inf)
    if s == 'NaN':
        return ('D', math.nan)
    if not _DBL_RE.match(s):
        raise XPError('FORG0001', f'cannot cast {lex!r} to xs:double')
    return ('D', float(s))


def cast_integer(lex: str):
    s = lex.strip(_WS)
    if not _INT_RE.match(s):
        raise XPError('FORG0001', f'cannot cast {lex!r} to xs:integer')
    return ('i', int(s))


def decimal_to_string(v: Fraction) -> str:
    if v.denominator == 1:
        return str(v.numerator)
    sign = '-' if v < 0 else ''
    v = abs(v)
    ip = v.numerator // v.denominator
    frac = v - ip
    digits = []
    while frac and len(digits) < 60:
        frac *= 10
        d = frac.numerator // frac.denominator
        digits.append(str(d))
        frac -= d
    if frac:
        raise Budget('non-terminating decimal in string conversion')
    return f'{sign}{ip}.{"".join(digits)}'


def double_to_string(v: float) -> str:
    if math.isnan(v):
        return 'NaN'
    if math.isinf(v):
        return 'INF' if v > 0 else '-INF'
    if v == 0:
        return '-0' if math.copysign(1.0, v) < 0 else '0'
    if 0.000001 <= abs(v) < 1000000:
        return decimal_to_string(Fraction(v))        # exact for the dyadic values we generate
    raise Budget('double outside the plain-notation range is not stringified by the reference')


def item_to_string(it) -> str:
    """casting an atomic item to xs:string (F&O 19.1)"""
    t = it[0]
    if t == 'i':
        return str(it[1])
    if t == 'd':
        return decimal_to_string(it[1])
    if t in 'fD':
        return double_to_string(it[1])
    if t in 'sua':
        return it[1]
    if t == 'b':
        return 'true' if it[1] else 'false'
    raise XPError('XPTY0004', 'not an atomic item')


# --------------------------------------------------------------------------
# function items
# --------------------------------------------------------------------------
class FnItem:
    """a function item; `impl(interp, args)` gets a list of sequences"""
    _count = 0

    def __init__(self, arity, impl, name=None):
        self.arity, self.impl, self.name = arity, impl, name
        FnItem._count += 1
        self.ident = FnItem._count


_TYPE_TAGS = {'xs:integer': 'i', 'xs:string': 's', 'xs:boolean': 'b', 'xs:decimal': 'id', 'xs:double': 'D',
              'xs:float': 'f', 'xs:untypedAtomic': 'u', 'xs:anyURI': 'a', 'xs:anyAtomicType': 'idfDsbua'}


def matches_type(seq, t: str) -> bool:
    """SequenceType matching for the few declared types the generators use (no conversion is modelled:
    programs only pass values that already have the declared type)"""
    occ = t[-1] if t[-1] in '*?+' and not t.startswith('function(') else ''
    base = t[:-1] if occ else t
    if occ == '' and len(seq) != 1 or occ == '?' and len(seq) > 1 or occ == '+' and not seq:
        return False
    if base == 'item()':
        return True
    if base == 'function(*)':
        return all(is_callable(it) for it in seq)
    if base.startswith('function('):
        # function(T1, ..., Tn) as R: only the arity is modelled (generators pass items whose signature fits)
        depth, commas, inner = 0, 0, ''
        for ch in base[len('function('):]:
            if ch == '(':
                depth += 1
            elif ch == ')':
                if depth == 0:
                    break
                depth -= 1
            elif ch == ',' and depth == 0:
                commas += 1
            inner += ch
        n = 0 if not inner.strip() else commas + 1
        return all(is_callable(it) and arity_of(it) == n for it in seq)
    tags = _TYPE_TAGS[base]
    return all(not is_fn(it) and it[0] in tags for it in seq)


def is_fn(it) -> bool:
    return isinstance(it, FnItem)


def is_array(it) -> bool:
    return isinstance(it, tuple) and it[0] == 'A'


def is_node(it) -> bool:
    return isinstance(it, tuple) and it[0] == 'n'


def is_map(it) -> bool:
    return isinstance(it, tuple) and it[0] == 'M'


def is_callable(it) -> bool:
    """function items: inline / named / partial functions, and arrays and maps (functions of arity 1)"""
    return is_fn(it) or is_array(it) or is_map(it)


def arity_of(it) -> int:
    return it.arity if is_fn(it) else 1


def array_get(arr, pos_seq):
    """$array($position as xs:integer): the member at that position, FOAY0001 outside 1..size"""
    pos = as_integer_arg(pos_seq)[1]
    members = arr[1]
    if pos < 1 or pos > len(members):
        raise XPError('FOAY0001', 'array index out of bounds')
    return list(members[pos - 1])


def map_get(m, key_seq):
    """$map($key as xs:anyAtomicType): the associated value or () (keys generated: strings and integers)"""
    key = _untyped_as_string(one_atomic(key_seq, 'map key'))
    for k, v in m[1]:
        if is_nan(key) and is_nan(k) or eq_items(k, key) is True:
            return list(v)
    return []


# --------------------------------------------------------------------------
# atomization, EBV, comparisons
# --------------------------------------------------------------------------
def node_string(it) -> str:
    return ''.join(t for _, t in DOC_CHILDREN) if it[1] == -1 else DOC_CHILDREN[it[1]][1]


def node_name(it) -> str:
    return 'r' if it[1] == -1 else DOC_CHILDREN[it[1]][0]


def atomize(seq):
    out = []
    for it in seq:
        if is_fn(it) or is_map(it):
            raise XPError('FOTY0013', 'atomization of a function item')
        if is_array(it):
            for m in it[1]:
                out.extend(atomize(m))
        elif is_node(it):
            out.append(('u', node_string(it)))
        else:
            out.append(it)
    return out


def ebv(seq) -> bool:
    if not seq:
        return False
    first = seq[0]
    if is_node(first):
        return True
    if len(seq) > 1:
        raise XPError('FORG0006', 'EBV of a sequence of two or more items not starting with a node')
    if is_callable(first):
        raise XPError('FORG0006', 'EBV of a function item')
    t, v = first
    if t == 'b':
        return v
    if t in 'su':
        return len(v) > 0
    return not (v == 0 or (t in 'fD' and math.isnan(v)))


def eq_items(a, b):
    """`eq` on two atomic items: True/False, or None when the types are not comparable"""
    if is_num(a) and is_num(b):
        return num_eq(a, b)
    ta, tb = a[0], b[0]
    if ta in 'sua' and tb in 'sua':
        return a[1] == b[1]
    if ta == 'b' and tb == 'b':
        return a[1] == b[1]
    return None


def lt_items(a, b):
    if is_num(a) and is_num(b):
        return num_lt(a, b)
    ta, tb = a[0], b[0]
    if ta in 'sua' and tb in 'sua':
        return a[1] < b[1]            # codepoint collation == python str ordering
    if ta == 'b' and tb == 'b':
        return a[1] < b[1]
    return None


def value_compare(op, a, b) -> bool:
    """a, b single atomic items (untypedAtomic already cast to string by the caller)"""
    if op in ('eq', 'ne'):
        r = eq_items(a, b)
        if r is None:
            raise XPError('XPTY0004', f'{a[0]} {op} {b[0]}')
        return r if op == 'eq' else not r
    if is_num(a) and is_num(b) and (is_nan(a) or is_nan(b)):
        return False
    if op == 'lt':
        r = lt_items(a, b)
    elif op == 'gt':
        r = lt_items(b, a)
    elif op == 'le':
        r = lt_items(b, a)
        r = None if r is None else not r
    else:
        r = lt_items(a, b)
        r = None if r is None else not r
    if r is None:
        raise XPError('XPTY0004', f'{a[0]} {op} {b[0]}')
    return r


_G2V = {'=': 'eq', '!=': 'ne', '<': 'lt', '<=': 'le', '>': 'gt', '>=': 'ge'}


def general_compare(op, s1, s2) -> bool:
    """XPath 3.1 section 3.7.2 (not in XPath 1.0 compatibility mode); strict on type errors"""
    res = False
    for a in atomize(s1):
        for b in atomize(s2):
            x, y = a, b
            if x[0] == 'u' and y[0] == 'u':
                x, y = ('s', x[1]), ('s', y[1])
            elif x[0] == 'u':
                x = cast_double(x[1]) if is_num(y) else _cast_untyped_like(x, y)
            elif y[0] == 'u':
                y = cast_double(y[1]) if is_num(x) else _cast_untyped_like(y, x)
            if value_compare(_G2V[op], x, y):
                res = True
    return res


def _cast_untyped_like(u, other):
    if other[0] == 's':
        return ('s', u[1])
    if other[0] == 'b':
        s = u[1].strip(_WS)
        if s in ('true', '1'):
            return ('b', True)
        if s in ('false', '0'):
            return ('b', False)
        raise XPError('FORG0001', 'cast to boolean')
    raise XPError('XPTY0004', 'untyped comparison')


def one_atomic(seq, what='argument', empty_ok=False):
    a = atomize(seq)
    if len(a) > 1 or (not a and not empty_ok):
        raise XPError('XPTY0004', f'{what}: exactly one atomic item required')
    return a[0] if a else None


def as_integer_arg(seq, empty_ok=False):
    """function conversion rules for a parameter of type xs:integer / xs:integer?"""
    it = one_atomic(seq, 'xs:integer argument', empty_ok)
    if it is None:
        return None
    if it[0] == 'u':
        return cast_integer(it[1])
    if it[0] != 'i':
        raise XPError('XPTY0004', 'xs:integer required')
    return it


def as_double_arg(seq):
    """function conversion rules for a parameter of type xs:double"""
    it = one_atomic(seq, 'xs:double argument')
    if it[0] == 'u':
        return cast_double(it[1])
    if not is_num(it):
        raise XPError('XPTY0004', 'xs:double required')
    return promote(it, 'D')


def as_string_arg(seq, empty_ok=False):
    it = one_atomic(seq, 'xs:string argument', empty_ok)
    if it is None:
        return None
    if it[0] == 'u':
        return ('s', it[1])
    if it[0] != 's':
        raise XPError('XPTY0004', 'xs:string required')
    return it


# --------------------------------------------------------------------------
# the C08 function list (F&O 3.1 chapters 14 and 5.4.5); args are evaluated sequences
# --------------------------------------------------------------------------
def fn_count(ip, a):
    return [('i', len(a[0]))]


def fn_empty(ip, a):
    return [('b', not a[0])]


def fn_exists(ip, a):
    return [('b', bool(a[0]))]


def fn_head(ip, a):
    return a[0][:1]


def fn_tail(ip, a):
    return a[0][1:]


def fn_reverse(ip, a):
    return a[0][::-1]


def fn_subsequence(ip, a):
    seq = a[0]
    start = round_half_up(as_double_arg(a[1]))[1]
    if len(a) == 2:
        return [it for p, it in enumerate(seq, 1) if start <= p]     # NaN <= p is False
    length = round_half_up(as_double_arg(a[2]))[1]
    end = start + length                                                # -INF + INF = NaN
    return [it for p, it in enumerate(seq, 1) if start <= p < end]


def fn_insert_before(ip, a):
    target, inserts = a[0], a[2]
    pos = as_integer_arg(a[1])[1]
    if pos < 1:
        pos = 1
    if pos > len(target):
        return target + inserts
    return target[:pos - 1] + inserts + target[pos - 1:]


def fn_remove(ip, a):
    pos = as_integer_arg(a[1])[1]
    return [it for p, it in enumerate(a[0], 1) if p != pos]


def _untyped_as_string(it):
    return ('s', it[1]) if it[0] == 'u' else it


def fn_index_of(ip, a):
    search = _untyped_as_string(one_atomic(a[1], 'index-of search'))
    out = []
    for p, it in enumerate(atomize(a[0]), 1):
        if eq_items(_untyped_as_string(it), search) is True:
            out.append(('i', p))
    return out


def distinct_classes(seq):
    """equivalence classes (lists of items, in first-occurrence order) under the distinct-values
    equality; returns None when equality is not transitive on this input (no verdict possible)"""
    items = [_untyped_as_string(it) for it in atomize(seq)]

    def same(x, y):
        if is_nan(x) and is_nan(y):
            return True
        return eq_items(x, y) is True
    classes = []
    for it in items:
        hits = [c for c in classes if any(same(it, o) for o in c)]
        if len(hits) > 1:
            return None
        if hits:
            if not all(same(it, o) for o in hits[0]):
                return None
            hits[0].append(it)
        else:
            classes.append([it])
    return classes


def fn_distinct_values(ip, a):
    ip.order_dependent = True
    cl = distinct_classes(a[0])
    if cl is None:
        raise Budget('distinct-values: equality not transitive on this input')
    return [c[0] for c in cl]


def fn_unordered(ip, a):
    ip.order_dependent = True
    return list(a[0])


def fn_zero_or_one(ip, a):
    if len(a[0]) > 1:
        raise XPError('FORG0003')
    return a[0]


def fn_one_or_more(ip, a):
    if not a[0]:
        raise XPError('FORG0004')
    return a[0]


def fn_exactly_one(ip, a):
    if len(a[0]) != 1:
        raise XPError('FORG0005')
    return a[0]


def _numeric_values(seq, fname):
    """atomize, untypedAtomic -> xs:double; all items must be numeric else FORG0006"""
    vals = []
    for it in atomize(seq):
        if it[0] == 'u':
            it = cast_double(it[1])
        vals.append(it)
    for it in vals:
        if not is_num(it):
            raise XPError('FORG0006', f'{fname}: non-numeric item')
    return vals


def _float_sum(ip, vals, tag):
    """sum of values already promoted to xs:float / xs:double.  F&O lets the items be added in any
    order, so the result is unique only when every partial sum is exact: all values are multiples of
    a common power of two q with sum(|x|)/q below the mantissa range.  Otherwise the exact rational
    sum and the error bound of recursive summation are left in ip.inexact_sum (no exact verdict)."""
    xs = [v[1] for v in vals]
    acc = xs[0]
    for x in xs[1:]:
        acc = acc + x
        if tag == 'f':
            acc = f32(acc)
    if all(math.isfinite(x) for x in xs) and any(x != 0 for x in xs):
        fr = [Fraction(x) for x in xs]
        q = Fraction(1, max(f.denominator for f in fr))
        mant = 2 ** (24 if tag == 'f' else 53)
        total_abs = sum(abs(f) for f in fr)
        # smallest power of two dividing every value
        nums = [abs(f / q).numerator for f in fr if f]
        shift = min((n & -n).bit_length() - 1 for n in nums)
        q = q * 2 ** shift
        if total_abs / q >= mant:
            eps = Fraction(1, mant // 2)
            ip.inexact_sum = (sum(fr), len(xs) * eps * total_abs)
    return (tag, acc)


def fn_sum(ip, a):
    if not a[0]:
        if len(a) == 1:
            return [('i', 0)]
        z = atomize(a[1])
        if len(z) > 1:
            raise XPError('XPTY0004', 'sum: $zero must be at most one item')
        return z
    only = atomize(a[0])
    if len(only) == 1 and not is_num(only[0]) and only[0][0] != 'u':
        # F&O 3.1 fn:sum: "if the converted sequence contains exactly one value then that value is
        # returned" vs "all values must be numeric": the text is contradictory for one non-numeric item
        raise Budget('sum of a single non-numeric item: no verdict')
    vals = _numeric_values(a[0], 'sum')      # $zero is not needed (XPath 3.1 2.3.4: need not be evaluated)
    tag = common_tag(vals)
    vals = [promote(v, tag) for v in vals]   # "converted to a common type by promotion", then added
    if tag in 'fD':
        return [_float_sum(ip, vals, tag)]
    acc = vals[0]
    for it in vals[1:]:
        acc = num_add(acc, it)
    return [acc]


def fn_avg(ip, a):
    if not a[0]:
        return []
    vals = _numeric_values(a[0], 'avg')
    tag = common_tag(vals)
    vals = [promote(v, tag) for v in vals]
    if tag in 'fD':
        acc = _float_sum(ip, vals, tag)
        if ip.inexact_sum is not None:
            ex, bound = ip.inexact_sum
            ip.inexact_sum = (ex / len(vals), bound / len(vals) + abs(ex / len(vals)) * Fraction(1, 2 ** (23 if tag == 'f' else 52)))
    else:
        acc = vals[0]
        for it in vals[1:]:
            acc = num_add(acc, it)
    return [num_div_count(acc, len(vals))]


def _minmax(seq, want_max, fname):
    vals = []
    for it in atomize(seq):
        if it[0] == 'u':
            it = cast_double(it[1])
        vals.append(it)
    if not vals:
        return []
    if all(is_num(v) for v in vals):
        tag = common_tag(vals)
        vals = [promote(v, tag) for v in vals]
        for v in vals:
            if is_nan(v):
                return [v]
    elif not (all(v[0] == 's' for v in vals) or all(v[0] == 'b' for v in vals)):
        raise XPError('FORG0006', f'{fname}: mixed types')
    best = vals[0]
    for v in vals[1:]:
        if (lt_items(best, v) if want_max else lt_items(v, best)):
            best = v
    return [best]


def fn_max(ip, a):
    return _minmax(a[0], True, 'max')


def fn_min(ip, a):
    return _minmax(a[0], False, 'min')


def fn_string_join(ip, a):
    """XPath 3.1 signature: ($arg1 as xs:anyAtomicType*, $arg2 as xs:string)"""
    sep = as_string_arg(a[1])[1] if len(a) > 1 else ''
    return [('s', sep.join(item_to_string(it) for it in atomize(a[0])))]


def fn_string_join_20(ip, a):
    """XPath 2.0/3.0 signature: ($arg1 as xs:string*, $arg2 as xs:string)"""
    sep = as_string_arg(a[1])[1] if len(a) > 1 else ''
    parts = []
    for it in atomize(a[0]):
        if it[0] not in 'su':
            raise XPError('XPTY0004', 'string-join: xs:string* required')
        parts.append(it[1])
    return [('s', sep.join(parts))]


def fn_not(ip, a):
    return [('b', not ebv(a[0]))]


def fn_boolean(ip, a):
    return [('b', ebv(a[0]))]


def fn_true(ip, a):
    return [('b', True)]


def fn_false(ip, a):
    return [('b', False)]


def fn_data(ip, a):
    return atomize(a[0])


def fn_string(ip, a):
    s = a[0]
    if len(s) > 1:
        raise XPError('XPTY0004', 'string: at most one item')
    if not s:
        return [('s', '')]
    if is_fn(s[0]) or is_array(s[0]):
        raise XPError('FOTY0014', 'string of a function item')
    if is_node(s[0]):
        return [('s', node_string(s[0]))]
    return [('s', item_to_string(s[0]))]


def fn_round(ip, a):
    it = one_atomic(a[0], 'round', empty_ok=True)
    if it is None:
        return []
    if it[0] == 'u':
        it = cast_double(it[1])
    if not is_num(it):
        raise XPError('XPTY0004', 'round: numeric required')
    return [round_half_up(it)]


def fn_abs(ip, a):
    it = one_atomic(a[0], 'abs', empty_ok=True)
    if it is None:
        return []
    if it[0] == 'u':
        it = cast_double(it[1])
    if not is_num(it):
        raise XPError('XPTY0004', 'abs: numeric required')
    return [(it[0], abs(it[1]))]


def fn_concat(ip, a):
    parts = []
    for s in a:
        it = one_atomic(s, 'concat', empty_ok=True)
        parts.append('' if it is None else item_to_string(it))
    return [('s', ''.join(parts))]


def fn_substring(ip, a):
    """F&O 5.4.3: characters at positions p with round(start) <= p < round(start) + round(length)"""
    src = as_string_arg(a[0], empty_ok=True)
    s = '' if src is None else src[1]
    start = round_half_up(as_double_arg(a[1]))[1]
    if len(a) == 2:
        return [('s', ''.join(c for p, c in enumerate(s, 1) if start <= p))]
    end = start + round_half_up(as_double_arg(a[2]))[1]
    return [('s', ''.join(c for p, c in enumerate(s, 1) if start <= p < end))]


def fn_xs_integer(ip, a):
    """xs:integer($arg as xs:anyAtomicType?) - casting per F&O 19.1/19.2 for the source types generated"""
    it = one_atomic(a[0], 'xs:integer', empty_ok=True)
    if it is None:
        return []
    t, v = it
    if t == 'b':
        return [('i', 1 if v else 0)]
    if t == 'i':
        return [it]
    if t == 'd':
        return [('i', int(v))]                      # truncation toward zero
    if t in 'fD':
        if math.isnan(v) or math.isinf(v):
            raise XPError('FOCA0002', 'cannot cast NaN / INF to xs:integer')
        return [('i', int(v))]
    if t in 'su':
        return [cast_integer(v)]
    raise XPError('XPTY0004', 'cannot cast to xs:integer')


def fn_name(ip, a):
    s = a[0]
    if len(s) > 1 or (s and not is_node(s[0])):
        raise XPError('XPTY0004', 'name: a node is required')
    return [('s', node_name(s[0]) if s else '')]


def fn_array_sort(ip, a):
    """array:sort: the members (sequences) sorted by the atomized key of each member, stable"""
    if len(a[0]) != 1 or not is_array(a[0][0]):
        raise XPError('XPTY0004', 'array:sort: array required')
    members = [list(m) for m in a[0][0][1]]
    ck = _resolve_collation(ip, a[1] if len(a) >= 2 else [])
    if len(a) == 3:
        f = _one_fn(a[2], 1)
        keys = [atomize(ip.call(f, [m])) for m in members]
    else:
        keys = [atomize(m) for m in members]
    order = []
    for i in range(len(members)):
        j = len(order)
        while j > 0 and sort_key_lt(keys[i], keys[order[j - 1]], ck):
            j -= 1
        order.insert(j, i)
    for i in range(len(members)):
        for j in range(i + 1, len(members)):
            sort_key_lt(keys[i], keys[j], ck)
    return [('A', tuple(tuple(members[i]) for i in order))]


def fn_map_get(ip, a):
    if len(a[0]) != 1 or not is_map(a[0][0]):
        raise XPError('XPTY0004', 'map:get: map required')
    return map_get(a[0][0], a[1])


def fn_array_get(ip, a):
    if len(a[0]) != 1 or not is_array(a[0][0]):
        raise XPError('XPTY0004', 'array:get: array required')
    return array_get(a[0][0], a[1])


def fn_function_arity(ip, a):
    if len(a[0]) != 1 or not is_callable(a[0][0]):
        raise XPError('XPTY0004', 'function-arity: function item required')
    return [('i', arity_of(a[0][0]))]


def fn_string_length(ip, a):
    it = as_string_arg(a[0], empty_ok=True)
    return [('i', 0 if it is None else len(it[1]))]


def fn_upper_case(ip, a):
    it = as_string_arg(a[0], empty_ok=True)
    return [('s', '' if it is None else it[1].upper())]     # only ASCII strings are generated


def fn_lower_case(ip, a):
    it = as_string_arg(a[0], empty_ok=True)
    return [('s', '' if it is None else it[1].lower())]


# ---- higher-order functions (F&O 3.1 chapter 16) --------------------------
def _one_fn(seq, arity):
    if len(seq) != 1 or not is_callable(seq[0]):
        raise XPError('XPTY0004', 'function item required')
    if arity_of(seq[0]) != arity:
        raise XPError('XPTY0004', f'function of arity {arity} required, got arity {arity_of(seq[0])}')
    return seq[0]


def fn_for_each(ip, a):
    f = _one_fn(a[1], 1)
    out = []
    for it in a[0]:
        out.extend(ip.call(f, [[it]]))
    return out


def fn_filter(ip, a):
    f = _one_fn(a[1], 1)
    out = []
    for it in a[0]:
        r = ip.call(f, [[it]])
        if len(r) != 1 or is_fn(r[0]) or r[0][0] != 'b':
            raise XPError('XPTY0004', 'filter: the function must return a single xs:boolean')
        if r[0][1]:
            out.append(it)
    return out


def fn_fold_left(ip, a):
    f = _one_fn(a[2], 2)
    acc = a[1]
    for it in a[0]:
        acc = ip.call(f, [acc, [it]])
    return acc


def fn_fold_right(ip, a):
    f = _one_fn(a[2], 2)
    acc = a[1]
    for it in reversed(a[0]):
        acc = ip.call(f, [[it], acc])
    return acc


def fn_for_each_pair(ip, a):
    f = _one_fn(a[2], 2)
    out = []
    for x, y in zip(a[0], a[1]):
        out.extend(ip.call(f, [[x], [y]]))
    return out


def fn_apply(ip, a):
    if len(a[0]) != 1 or not is_callable(a[0][0]):
        raise XPError('XPTY0004', 'apply: function item required')
    if len(a[1]) != 1 or not is_array(a[1][0]):
        raise XPError('XPTY0004', 'apply: array required')
    f, members = a[0][0], a[1][0][1]
    if arity_of(f) != len(members):
        raise XPError('FOAP0001', 'apply: arity mismatch')
    return ip.call(f, [list(m) for m in members])


COLLATION_CODEPOINT = 'http://www.w3.org/2005/xpath-functions/collation/codepoint'
COLLATION_HTML_ASCII = 'http://www.w3.org/2005/xpath-functions/collation/html-ascii-case-insensitive'
_ASCII_LOWER = {cp: cp + 32 for cp in range(65, 91)}


def collation_key(uri):
    """string -> comparison key for the two collations modelled (F&O 5.3.1 codepoint, 5.3.4 html-ascii-case-insensitive:
    'A'-'Z' are mapped to 'a'-'z', then code points are compared)"""
    if uri == COLLATION_CODEPOINT:
        return None
    if uri == COLLATION_HTML_ASCII:
        return lambda v: v.translate(_ASCII_LOWER)
    raise XPError('FOCH0002', f'unsupported collation {uri}')


def _resolve_collation(ip, seq):
    """$collation as xs:string?: the empty sequence means the default collation of the static context"""
    if not seq:
        return collation_key(ip.default_collation)
    return collation_key(as_string_arg(seq)[1])


def sort_key_lt(k1, k2, ck=None):
    """lexicographic `lt` on atomized key sequences (fn:sort / deep-equal rules); strings through the collation key"""
    for x, y in zip(k1, k2):
        x, y = _untyped_as_string(x), _untyped_as_string(y)
        if ck is not None:
            if x[0] in 'sa':
                x = (x[0], ck(x[1]))
            if y[0] in 'sa':
                y = (y[0], ck(y[1]))
        if is_nan(x) and is_nan(y):
            continue
        if is_nan(x):
            return True                       # NaN precedes every other value
        if is_nan(y):
            return False
        e = eq_items(x, y)
        if e is None:
            raise XPError('XPTY0004', 'sort: keys not comparable')
        if e:
            continue
        return lt_items(x, y)
    return len(k1) < len(k2)


def fn_sort(ip, a):
    seq = a[0]
    ck = _resolve_collation(ip, a[1] if len(a) >= 2 else [])
    if len(a) == 3:
        f = _one_fn(a[2], 1)
        keys = [atomize(ip.call(f, [[it]])) for it in seq]
    else:
        keys = [atomize([it]) for it in seq]
    # stable insertion sort written out (definitional, no python sort involved)
    order = []
    for i in range(len(seq)):
        j = len(order)
        while j > 0 and sort_key_lt(keys[i], keys[order[j - 1]], ck):
            j -= 1
        order.insert(j, i)
    # every pair must be comparable (the spec raises XPTY0004 otherwise) - check all pairs
    for i in range(len(seq)):
        for j in range(i + 1, len(seq)):
            sort_key_lt(keys[i], keys[j], ck)
    return [seq[i] for i in order]


BUILTINS = {
    ('count', 1): fn_count, ('empty', 1): fn_empty, ('exists', 1): fn_exists, ('head', 1): fn_head,
    ('tail', 1): fn_tail, ('reverse', 1): fn_reverse, ('subsequence', 2): fn_subsequence,
    ('subsequence', 3): fn_subsequence, ('insert-before', 3): fn_insert_before, ('remove', 2): fn_remove,
    ('index-of', 2): fn_index_of, ('distinct-values', 1): fn_distinct_values, ('unordered', 1): fn_unordered,
    ('zero-or-one', 1): fn_zero_or_one, ('one-or-more', 1): fn_one_or_more, ('exactly-one', 1): fn_exactly_one,
    ('sum', 1): fn_sum, ('sum', 2): fn_sum, ('avg', 1): fn_avg, ('max', 1): fn_max, ('min', 1): fn_min,
    ('string-join', 1): fn_string_join, ('string-join', 2): fn_string_join,
    ('not', 1): fn_not, ('boolean', 1): fn_boolean, ('true', 0): fn_true, ('false', 0): fn_false,
    ('data', 1): fn_data, ('string', 1): fn_string, ('round', 1): fn_round, ('abs', 1): fn_abs,
    ('concat', 2): fn_concat, ('concat', 3): fn_concat, ('concat', 4): fn_concat, ('concat', 5): fn_concat,
    ('substring', 2): fn_substring, ('substring', 3): fn_substring,
    ('xs:integer', 1): fn_xs_integer, ('name', 1): fn_name,
    ('map:get', 2): fn_map_get, ('array:get', 2): fn_array_get, ('function-arity', 1): fn_function_arity,
    ('array:sort', 1): fn_array_sort, ('array:sort', 2): fn_array_sort, ('array:sort', 3): fn_array_sort,
    ('string-length', 1): fn_string_length, ('upper-case', 1): fn_upper_case, ('lower-case', 1): fn_lower_case,
    ('for-each', 2): fn_for_each, ('filter', 2): fn_filter, ('fold-left', 3): fn_fold_left,
    ('fold-right', 3): fn_fold_right, ('for-each-pair', 3): fn_for_each_pair, ('apply', 2): fn_apply,
    ('sort', 1): fn_sort, ('sort', 2): fn_sort, ('sort', 3): fn_sort,
}


# --------------------------------------------------------------------------
# the evaluator
# --------------------------------------------------------------------------
class Interp:
    def __init__(self, version='31', budget=20000, default_collation=COLLATION_CODEPOINT):
        self.version = version
        self.default_collation = default_collation
        self.steps = 0
        self.budget = budget
        self.order_dependent = False      # an implementation-dependent order was produced somewhere
        self.inexact_sum = None           # (exact rational, error bound) of an order-dependent float sum
        self._serial = 0
        self._latest = {}                 # id(creating AST node) -> (serial, environment signature)
        self.stale_calls = {}             # kind -> calls of a function item made after the SAME expression
        #                                   was evaluated again with a different environment
        self.multi_created = 0            # evaluations of an already evaluated function expression
        self.calls = 0                    # dynamic function calls performed
        self.max_depth = 0
        self._depth = 0

    # -- entry points ------------------------------------------------------
    def run(self, ast, variables=None):
        return self.ev(ast, dict(variables or {}), None)

    def call(self, f, args):
        if not is_fn(f):        # an array or a map called as a function of arity 1
            if len(args) != 1:
                raise XPError('XPTY0004', f'array/map called with {len(args)} arguments')
            self.calls += 1
            return array_get(f, args[0]) if is_array(f) else map_get(f, args[0])
        if len(args) != f.arity:
            raise XPError('XPTY0004', f'arity {f.arity} function called with {len(args)} arguments')
        self.calls += 1
        self._depth += 1
        self.max_depth = max(self.max_depth, self._depth)
        if self._depth > 60:
            raise Budget('call depth')
        try:
            return f.impl(self, args)
        finally:
            self._depth -= 1

    def builtin(self, name, arity):
        impl = BUILTINS.get((name, arity))
        if impl is None:
            raise XPError('XPST0017', f'unknown function {name}#{arity}')
        if name == 'string-join' and self.version != '31':
            if arity == 1 and self.version == '20':
                raise XPError('XPST0017', 'string-join#1')
            impl = fn_string_join_20
        return impl

    # -- evaluation ----------------------------------------------------------
    def ev(self, n, env, focus):
        self.steps += 1
        if self.steps > self.budget:
            raise Budget('steps')
        try:
            return getattr(self, 'ev_' + n[0].replace('?', 'placeholder'))(n, env, focus)
        except XPError as e:
            if not hasattr(e, 'node'):
                e.node = n            # innermost AST node whose own operation raised
            raise

    def ev_int(self, n, env, focus):
        return [('i', n[1])]

    def ev_dec(self, n, env, focus):
        return [('d', Fraction(n[1]))]

    def ev_dbl(self, n, env, focus):
        s = n[1]
        return [('D', math.inf if s == 'INF' else -math.inf if s == '-INF' else math.nan if s == 'NaN' else float(s))]

    def ev_flt(self, n, env, focus):
        s = n[1]
        return [('f', math.inf if s == 'INF' else -math.inf if s == '-INF' else math.nan if s == 'NaN'
                 else f32(float(s)))]

    def ev_str(self, n, env, focus):
        return [('s', n[1])]

    def ev_bool(self, n, env, focus):
        return [('b', bool(n[1]))]

    def ev_unt(self, n, env, focus):
        return [('u', n[1])]

    def ev_empty(self, n, env, focus):
        return []

    def ev_uri(self, n, env, focus):
        return [('a', n[1])]

    def ev_instance(self, n, env, focus):
        return [('b', matches_type(self.ev(n[1], env, focus), n[2]))]

    def ev_step(self, n, env, focus):
        if focus is None:
            raise XPError('XPDY0002', 'context item is absent')
        if not is_node(focus[0]):
            raise XPError('XPTY0020', 'context item is not a node')
        if focus[0][1] != -1:
            return []
        return [('n', i) for i, (name, _) in enumerate(DOC_CHILDREN) if name == n[1] or n[1] == '*']

    def ev_nodes(self, n, env, focus):
        return [('n', i) for i in DOC_PATHS[n[1]][1]]

    def ev_seq(self, n, env, focus):
        out = []
        for e in n[1:]:
            out.extend(self.ev(e, env, focus))
        return out

    def ev_to(self, n, env, focus):
        a = as_integer_arg(self.ev(n[1], env, focus), empty_ok=True)
        b = as_integer_arg(self.ev(n[2], env, focus), empty_ok=True)
        if a is None or b is None:
            return []
        if b[1] - a[1] > 5000:
            raise Budget('range too long')
        return [('i', k) for k in range(a[1], b[1] + 1)]

    def _arith_operand(self, seq):
        it = one_atomic(seq, 'arithmetic operand', empty_ok=True)
        if it is None:
            return None
        if it[0] == 'u':
            it = cast_double(it[1])
        if not is_num(it):
            raise XPError('XPTY0004', 'numeric operand required')
        return it

    def ev_neg(self, n, env, focus):
        a = self._arith_operand(self.ev(n[1], env, focus))
        if a is None:
            return []
        return [(a[0], -a[1])]

    def ev_arith(self, n, env, focus):
        a = self._arith_operand(self.ev(n[2], env, focus))
        b = self._arith_operand(self.ev(n[3], env, focus))
        if a is None or b is None:
            return []
        if n[1] in ('idiv', 'mod'):
            return [num_idiv_mod(n[1], a, b)]
        return [{'+': num_add, '-': num_sub, '*': num_mul}[n[1]](a, b)]

    def ev_vcmp(self, n, env, focus):
        a = one_atomic(self.ev(n[2], env, focus), 'value comparison', empty_ok=True)
        b = one_atomic(self.ev(n[3], env, focus), 'value comparison', empty_ok=True)
        if a is None or b is None:
            return []
        return [('b', value_compare(n[1], _untyped_as_string(a), _untyped_as_string(b)))]

    def ev_gcmp(self, n, env, focus):
        return [('b', general_compare(n[1], self.ev(n[2], env, focus), self.ev(n[3], env, focus)))]

    def ev_and(self, n, env, focus):
        a = ebv(self.ev(n[1], env, focus))
        b = ebv(self.ev(n[2], env, focus))       # strict: both operands evaluated
        return [('b', a and b)]

    def ev_or(self, n, env, focus):
        a = ebv(self.ev(n[1], env, focus))
        b = ebv(self.ev(n[2], env, focus))
        return [('b', a or b)]

    def ev_if(self, n, env, focus):
        # only the selected branch is evaluated (guaranteed by XPath 3.1 section 3.12)
        return self.ev(n[2] if ebv(self.ev(n[1], env, focus)) else n[3], env, focus)

    def _bindings(self, binds, env, focus, i=0):
        """all environments of a for/some/every clause list, in the order the spec defines"""
        if i == len(binds):
            yield env
            return
        name, e = binds[i]
        for it in self.ev(e, env, focus):
            yield from self._bindings(binds, {**env, name: [it]}, focus, i + 1)

    def ev_for(self, n, env, focus):
        out = []
        for e2 in self._bindings(n[1], env, focus):
            out.extend(self.ev(n[2], e2, focus))
        return out

    def ev_let(self, n, env, focus):
        for name, e in n[1]:
            env = {**env, name: self.ev(e, env, focus)}
        return self.ev(n[2], env, focus)

    def ev_some(self, n, env, focus):
        res = False
        for e2 in self._bindings(n[1], env, focus):
            if ebv(self.ev(n[2], e2, focus)):       # strict: no early exit
                res = True
        return [('b', res)]

    def ev_every(self, n, env, focus):
        res = True
        for e2 in self._bindings(n[1], env, focus):
            if not ebv(self.ev(n[2], e2, focus)):
                res = False
        return [('b', res)]

    def ev_var(self, n, env, focus):
        if n[1] not in env:
            raise XPError('XPST0008', f'unbound variable ${n[1]}')
        return list(env[n[1]])

    def ev_ctx(self, n, env, focus):
        if focus is None:
            raise XPError('XPDY0002', 'context item is absent')
        return [focus[0]]

    def ev_pos(self, n, env, focus):
        if focus is None:
            raise XPError('XPDY0002', 'context item is absent')
        return [('i', focus[1])]

    def ev_last(self, n, env, focus):
        if focus is None:
            raise XPError('XPDY0002', 'context item is absent')
        return [('i', focus[2])]

    def ev_map(self, n, env, focus):
        left = self.ev(n[1], env, focus)
        out = []
        for p, it in enumerate(left, 1):
            out.extend(self.ev(n[2], env, (it, p, len(left))))
        return out

    def ev_filter(self, n, env, focus):
        base = self.ev(n[1], env, focus)
        out = []
        for p, it in enumerate(base, 1):
            r = self.ev(n[2], env, (it, p, len(base)))
            if len(r) == 1 and is_num(r[0]):
                keep = num_eq(r[0], ('i', p))
            else:
                keep = ebv(r)
            if keep:
                out.append(it)
        return out

    # -- functions -----------------------------------------------------------
    def _partial(self, f: FnItem, args, env, focus, origin=None, kind='partial-dyn'):
        """args: AST list with ["?"] placeholders; fixed arguments are evaluated now"""
        if len(args) != arity_of(f):
            raise XPError('XPTY0004', 'partial application: wrong number of arguments')
        fixed = [None if a[0] == '?' else self.ev(a, env, focus) for a in args]
        holes = [i for i, a in enumerate(fixed) if a is None]
        mark = self._created(origin, kind, [f.ident if is_fn(f) else canon_item(f)] + [None if v is None else _sig(v) for v in fixed])

        def impl(ip, call_args, f=f, fixed=fixed, holes=holes):
            ip._called(mark)
            full = list(fixed)
            for i, v in zip(holes, call_args):
                full[i] = v
            return ip.call(f, full)
        return FnItem(len(holes), impl, name=None)

    def _created(self, origin, kind, sig):
        self._serial += 1
        key = id(origin)
        if key in self._latest:
            self.multi_created += 1
        self._latest[key] = (self._serial, sig)
        return (key, kind, self._serial, sig)

    def _called(self, mark):
        key, kind, serial, sig = mark
        last_serial, last_sig = self._latest[key]
        if last_serial != serial and last_sig != sig:
            self.stale_calls[kind] = self.stale_calls.get(kind, 0) + 1

    def ev_call(self, n, env, focus):
        name, args = n[1], n[2]
        if not args and name in ('name', 'string'):
            if focus is None:
                raise XPError('XPDY0002', 'context item is absent')
            return (fn_name if name == 'name' else fn_string)(self, [[focus[0]]])
        impl = self.builtin(name, len(args))
        if any(a[0] == '?' for a in args):
            return [self._partial(FnItem(len(args), impl, name), args, env, focus, n, 'partial-static')]
        if name in ('count', 'empty', 'exists') and args[0][0] == 'call' and \
                args[0][1] in ('distinct-values', 'unordered'):
            # cardinality of an implementation-dependent order / choice of representative is well defined
            saved = self.order_dependent
            vals = [self.ev(args[0], env, focus)]
            self.order_dependent = saved
        else:
            vals = [self.ev(a, env, focus) for a in args]
        return impl(self, vals)

    def ev_inline(self, n, env, focus):
        params, body = n[1], n[2]
        names = [p if isinstance(p, str) else p[0] for p in params]
        types = [None if isinstance(p, str) else p[1] for p in params]
        rtype = n[3] if len(n) > 3 else None
        captured = dict(env)              # the bindings in scope where the function is created
        mark = self._created(n, 'inline', [(k, _sig(v)) for k, v in sorted(captured.items())])

        def impl(ip, call_args, names=names, body=body, captured=captured):
            ip._called(mark)
            e = dict(captured)
            for p, t, v in zip(names, types, call_args):
                if t is not None and not matches_type(v, t):
                    raise XPError('XPTY0004', f'argument ${p} does not match {t}')
                e[p] = v
            res = ip.ev(body, e, None)  # the focus is absent inside a function body
            if rtype is not None and not matches_type(res, rtype):
                raise XPError('XPTY0004', f'result does not match {rtype}')
            return res
        return [FnItem(len(params), impl)]

    def ev_ref(self, n, env, focus):
        if n[2] == 0 and n[1] in ('string', 'position', 'last'):
            # a reference to a context-dependent function captures the focus where it is evaluated
            # (XPath 3.1 3.1.6: "the dynamic context of the named function reference")
            if focus is None:
                raise XPError('XPDY0002', 'context item is absent')
            captured = focus
            mark = self._created(n, 'focus-ref', [canon_item(focus[0]) if not is_fn(focus[0]) else 'fn', focus[1], focus[2]])

            def impl(ip, call_args, name=n[1], captured=captured):
                ip._called(mark)
                if name == 'position':
                    return [('i', captured[1])]
                if name == 'last':
                    return [('i', captured[2])]
                return fn_string(ip, [[captured[0]]])
            return [FnItem(0, impl, n[1])]
        return [FnItem(n[2], self.builtin(n[1], n[2]), n[1])]

    def ev_dyn(self, n, env, focus):
        fs = self.ev(n[1], env, focus)
        if len(fs) != 1 or not is_callable(fs[0]):
            raise XPError('XPTY0004', 'dynamic call: exactly one function item required')
        f = fs[0]
        args = n[2]
        if len(args) != arity_of(f):
            raise XPError('XPTY0004', 'dynamic call: arity mismatch')
        if any(a[0] == '?' for a in args):
            return [self._partial(f, args, env, focus, n)]
        return self.call(f, [self.ev(a, env, focus) for a in args])

    def ev_mapc(self, n, env, focus):
        """["mapc", [[key expr, value expr], ...]]   map { k: v, ... }"""
        entries = []
        for ke, ve in n[1]:
            k = one_atomic(self.ev(ke, env, focus), 'map key')
            if any(eq_items(k, k2) is True for k2, _ in entries):
                raise XPError('XQDY0137', 'duplicate map key')
            entries.append((_untyped_as_string(k), tuple(self.ev(ve, env, focus))))
        return [('M', tuple(entries))]

    def ev_lookup(self, n, env, focus):
        """["lookup", e, key]   e?key  with key an NCName (string) or an integer literal"""
        key = [('s', n[2])] if isinstance(n[2], str) else [('i', n[2])]
        out = []
        for it in self.ev(n[1], env, focus):
            if is_array(it):
                out.extend(array_get(it, key))
            elif is_map(it):
                out.extend(map_get(it, key))
            else:
                raise XPError('XPTY0004', 'lookup: map or array required')
        return out

    def ev_arrow(self, n, env, focus):
        """["arrow", e, f, a1, ...]:  e => f(a1, ...)  ==  f(e, a1, ...)   (XPath 3.1 3.16)"""
        first = self.ev(n[1], env, focus)
        fs = self.ev(n[2], env, focus)
        if len(fs) != 1 or not is_callable(fs[0]):
            raise XPError('XPTY0004', 'arrow: function item required')
        return self.call(fs[0], [first] + [self.ev(a, env, focus) for a in n[3:]])

    def ev_array(self, n, env, focus):
        return [('A', tuple(tuple(self.ev(m, env, focus)) for m in n[1]))]


def evaluate(ast, version='31', variables=None, budget=20000):
    """-> (sequence, Interp)  raises XPError / Budget"""
    ip = Interp(version, budget)
    return ip.run(ast, variables), ip


# --------------------------------------------------------------------------
# canonical JSON form of values
# --------------------------------------------------------------------------
def _sig(seq):
    """hashable-free signature of a value (function items by identity)"""
    return [('fn', it.ident) if is_fn(it) else canon_item(it) for it in seq]


def canon_item(it):
    if is_fn(it):
        return ['fn', it.arity]
    t, v = it
    if t == 'i':
        return ['i', v]
    if t == 'd':
        return ['d', f'{v.numerator}/{v.denominator}']
    if t in 'fD':
        return [t, 'NaN' if math.isnan(v) else repr(v)]
    if t == 'A':
        return ['A', [canon_seq(m) for m in v]]
    if t == 'M':
        return ['M', [[canon_item(k), canon_seq(val)] for k, val in v]]
    return [t, v]


def canon_seq(seq):
    return [canon_item(it) for it in seq]


# --------------------------------------------------------------------------
# AST -> XPath text
# --------------------------------------------------------------------------
def _q(s: str) -> str:
    return '"' + s.replace('"', '""') + '"'


def render(n) -> str:
    t = n[0]
    if t == 'int':
        return str(n[1]) if n[1] >= 0 else f'(-{-n[1]})'
    if t == 'dec':
        s = n[1]
        if '.' not in s:
            s += '.0'
        return s if not s.startswith('-') else f'(-{s[1:]})'
    if t == 'dbl':
        s = n[1]
        if s in ('INF', '-INF', 'NaN'):
            return f"xs:double('{s}')"
        return f'{s}e0' if not s.startswith('-') else f'(-{s[1:]}e0)'
    if t == 'flt':
        return f"xs:float('{n[1]}')"
    if t == 'str':
        return _q(n[1])
    if t == 'bool':
        return 'true()' if n[1] else 'false()'
    if t == 'unt':
        return f'xs:untypedAtomic({_q(n[1])})'
    if t == 'empty':
        return '()'
    if t == 'uri':
        return f'xs:anyURI({_q(n[1])})'
    if t == 'instance':
        return f'({render(n[1])} instance of {n[2]})'
    if t == 'step':
        return n[1]
    if t == 'nodes':
        return DOC_PATHS[n[1]][0]
    if t == 'seq':
        return '(' + ', '.join(render(e) for e in n[1:]) + ')'
    if t == 'to':
        return f'({render(n[1])} to {render(n[2])})'
    if t == 'neg':
        return f'(-{render(n[1])})'
    if t in ('arith', 'vcmp', 'gcmp'):
        return f'({render(n[2])} {n[1]} {render(n[3])})'
    if t in ('and', 'or'):
        return f'({render(n[1])} {t} {render(n[2])})'
    if t == 'if':
        return f'(if ({render(n[1])}) then {render(n[2])} else {render(n[3])})'
    if t in ('for', 'let'):
        sep = ' in ' if t == 'for' else ' := '
        return f'({t} ' + ', '.join(f'${v}{sep}{render(e)}' for v, e in n[1]) + f' return {render(n[2])})'
    if t in ('some', 'every'):
        return f'({t} ' + ', '.join(f'${v} in {render(e)}' for v, e in n[1]) + f' satisfies {render(n[2])})'
    if t == 'var':
        return '$' + n[1]
    if t == 'ctx':
        return '.'
    if t == 'pos':
        return 'position()'
    if t == 'last':
        return 'last()'
    if t == 'map':
        return f'({render(n[1])} ! {render(n[2])})'
    if t == 'filter':
        return f'{_primary(n[1])}[{render(n[2])}]'
    if t == 'call':
        return f'{n[1]}(' + ', '.join(render(a) for a in n[2]) + ')'
    if t == '?':
        return '?'
    if t == 'inline':
        ps = ', '.join('$' + p if isinstance(p, str) else f'${p[0]} as {p[1]}' for p in n[1])
        return f'function({ps})' + (f' as {n[3]}' if len(n) > 3 else '') + ' { ' + render(n[2]) + ' }'
    if t == 'ref':
        return f'{n[1]}#{n[2]}'
    if t == 'dyn':
        return f'{_primary(n[1])}(' + ', '.join(render(a) for a in n[2]) + ')'
    if t == 'array':
        return '[' + ', '.join(render(m) for m in n[1]) + ']'
    if t == 'mapc':
        return 'map { ' + ', '.join(f'{render(k)}: {render(v)}' for k, v in n[1]) + ' }'
    if t == 'lookup':
        return f'{_primary(n[1])}?{n[2]}'
    if t == 'arrow':
        # ArrowFunctionSpecifier ::= EQName | VarRef | ParenthesizedExpr
        target = n[2][1] if n[2][0] == 'ref' else render(n[2]) if n[2][0] == 'var' else f'({render(n[2])})'
        return f'({render(n[1])} => {target}(' + ', '.join(render(a) for a in n[3:]) + '))'
    raise ValueError(f'unknown AST node {t!r}')


_POSTFIX_OK = ('var', 'call', 'filter', 'dyn', 'str', 'array', 'empty', 'ctx', 'uri', 'mapc', 'lookup')


def _primary(n) -> str:
    """render n so that a postfix ([..] or (..)) applies to all of it"""
    s = render(n)
    if n[0] in _POSTFIX_OK or (s.startswith('(') and _balanced_outer(s)):
        return s
    return f'({s})'


def _balanced_outer(s: str) -> bool:
    """True if s is '(' ... ')' with the first parenthesis closing at the very end"""
    if not (s.startswith('(') and s.endswith(')')):
        return False
    depth, i, in_str = 0, 0, None
    while i < len(s):
        c = s[i]
        if in_str:
            if c == in_str:
                if i + 1 < len(s) and s[i + 1] == in_str:
                    i += 1
                else:
                    in_str = None
        elif c in '"\'':
            in_str = c
        elif c == '(':
            depth += 1
        elif c == ')':
            depth -= 1
            if depth == 0 and i != len(s) - 1:
                return False
        i += 1
    return True


def features(n, acc=None):
    """set of AST tags / function names used (for version gating and class histograms)"""
    if acc is None:
        acc = set()
    if isinstance(n, list) and n and isinstance(n[0], str):
        acc.add(n[0])
        if n[0] in ('call', 'ref'):
            acc.add('fn:' + n[1])
        if n[0] in ('str', 'dec', 'dbl', 'flt', 'unt', 'nodes', 'var', 'int', 'bool'):
            return acc
        for c in n[1:]:
            features(c, acc)
    elif isinstance(n, list):
        for c in n:
            features(c, acc)
    return acc


# --------------------------------------------------------------------------
# self-test on W3C worked examples (F&O 3.1 and XPath 3.1 text) - no elementpath involved
# --------------------------------------------------------------------------
def _I(*xs):
    return ['seq', *[['int', x] for x in xs]] if len(xs) != 1 else ['int', xs[0]]


def _S(*xs):
    return ['seq', *[['str', x] for x in xs]]


def self_test():
    def val(ast, version='31'):
        return canon_seq(evaluate(ast, version)[0])

    def ints(*xs):
        return [['i', x] for x in xs]

    def strs(*xs):
        return [['s', x] for x in xs]

    def err(ast):
        try:
            evaluate(ast)
        except XPError as e:
            return e.code
        return None
    abc = _S('a', 'b', 'c')
    # F&O 14.1
    assert val(['call', 'insert-before', [abc, ['int', 0], ['str', 'z']]]) == strs('z', 'a', 'b', 'c')
    assert val(['call', 'insert-before', [abc, ['int', 2], ['str', 'z']]]) == strs('a', 'z', 'b', 'c')
    assert val(['call', 'insert-before', [abc, ['int', 3], ['str', 'z']]]) == strs('a', 'b', 'z', 'c')
    assert val(['call', 'insert-before', [abc, ['int', 4], ['str', 'z']]]) == strs('a', 'b', 'c', 'z')
    assert val(['call', 'remove', [abc, ['int', 0]]]) == strs('a', 'b', 'c')
    assert val(['call', 'remove', [abc, ['int', 1]]]) == strs('b', 'c')
    assert val(['call', 'remove', [abc, ['int', 6]]]) == strs('a', 'b', 'c')
    assert val(['call', 'remove', [['empty'], ['int', 3]]]) == []
    assert val(['call', 'reverse', [abc]]) == strs('c', 'b', 'a')
    assert val(['call', 'head', [['to', ['int', 1], ['int', 5]]]]) == ints(1)
    assert val(['call', 'tail', [['to', ['int', 1], ['int', 5]]]]) == ints(2, 3, 4, 5)
    assert val(['call', 'tail', [['str', 'a']]]) == []
    seq5 = _S('i1', 'i2', 'i3', 'i4', 'i5')
    assert val(['call', 'subsequence', [seq5, ['int', 4]]]) == strs('i4', 'i5')
    assert val(['call', 'subsequence', [seq5, ['int', 3], ['int', 2]]]) == strs('i3', 'i4')
    # XPath/F&O notes on subsequence: -INF start with INF length is empty; start 0 length 2 -> first item
    assert val(['call', 'subsequence', [seq5, ['dbl', '-INF'], ['dbl', 'INF']]]) == []
    assert val(['call', 'subsequence', [seq5, ['int', 0], ['int', 2]]]) == strs('i1')
    assert val(['call', 'subsequence', [seq5, ['dec', '1.5'], ['dec', '1.5']]]) == strs('i2', 'i3')
    assert val(['call', 'subsequence', [seq5, ['dbl', '-INF']]]) == strs('i1', 'i2', 'i3', 'i4', 'i5')
    assert val(['call', 'subsequence', [seq5, ['dbl', 'NaN']]]) == []
    # F&O 14.2
    assert val(['call', 'index-of', [_I(10, 20, 30, 40), ['int', 35]]]) == []
    assert val(['call', 'index-of', [_I(10, 20, 30, 30, 20, 10), ['int', 20]]]) == ints(2, 5)
    assert val(['call', 'index-of', [_S('a', 'sport', 'and', 'a', 'pastime'), ['str', 'a']]]) == ints(1, 4)
    dv = val(['call', 'distinct-values', [['seq', ['int', 1], ['dec', '2.0'], ['int', 3], ['int', 2]]]])
    assert [x[1] for x in dv] in ([1, '2/1', 3],) and len(dv) == 3
    # F&O 14.3 / 14.4
    assert err(['call', 'zero-or-one', [_I(1, 2)]]) == 'FORG0003'
    assert err(['call', 'one-or-more', [['empty']]]) == 'FORG0004'
    assert err(['call', 'exactly-one', [['empty']]]) == 'FORG0005'
    assert val(['call', 'count', [_I(3, 4, 5)]]) == ints(3)
    assert val(['call', 'count', [['empty']]]) == ints(0)
    assert val(['call', 'avg', [_I(3, 4, 5)]]) == [['d', '4/1']]
    assert val(['call', 'avg', [['empty']]]) == []
    assert val(['call', 'avg', [['seq', ['flt', 'INF'], ['flt', '-INF']]]]) == [['f', 'NaN']]
    assert val(['call', 'avg', [['seq', ['int', 3], ['int', 4], ['int', 5], ['flt', 'NaN']]]]) == [['f', 'NaN']]
    assert err(['call', 'avg', [['seq', ['int', 3], ['str', 'a']]]]) == 'FORG0006'
    assert val(['call', 'max', [_I(3, 4, 5)]]) == ints(5)
    assert val(['call', 'max', [['seq', ['int', 5], ['dbl', '5.0']]]]) == [['D', '5.0']]
    assert err(['call', 'max', [['seq', ['int', 3], ['str', 'Zero']]]]) == 'FORG0006'
    assert val(['call', 'max', [_S('a', 'b', 'c')]]) == strs('c')
    assert val(['call', 'min', [['seq', ['int', 5], ['dbl', '5.0']]]]) == [['D', '5.0']]
    assert val(['call', 'min', [['seq', ['dbl', '0.0'], ['dbl', 'NaN'], ['int', 3]]]]) == [['D', 'NaN']]
    assert val(['call', 'sum', [_I(3, 4, 5)]]) == ints(12)
    assert val(['call', 'sum', [['empty']]]) == ints(0)
    assert val(['call', 'sum', [['empty'], ['empty']]]) == []
    assert val(['call', 'sum', [['seq', ['int', 1], ['dec', '2.5']]]]) == [['d', '7/2']]
    assert err(['call', 'sum', [['seq', ['int', 1], ['str', 'a']]]]) == 'FORG0006'
    assert val(['call', 'sum', [['seq', ['int', 1], ['unt', '2']]]]) == [['D', '3.0']]
    assert val(['call', 'string-join', [_S('Now', 'is', 'the'), ['str', ' ']]]) == strs('Now is the')
    assert val(['call', 'string-join', [['to', ['int', 1], ['int', 3]]]]) == strs('123')
    assert val(['call', 'string-join', [['empty'], ['str', 'x']]]) == strs('')
    assert err(['call', 'string-join', [['to', ['int', 1], ['int', 3]], ['str', '']]]) is None
    try:
        evaluate(['call', 'string-join', [_I(1, 2), ['str', '']]], version='30')
        raise AssertionError('string-join 3.0 must reject integers')
    except XPError as e:
        assert e.code == 'XPTY0004'
    # fn:round: ties toward positive infinity (F&O 4.4.4)
    assert val(['call', 'round', [['dec', '2.5']]]) == [['d', '3/1']]
    assert val(['call', 'round', [['dec', '-2.5']]]) == [['d', '-2/1']]
    assert val(['call', 'round', [['dbl', '2.4999']]]) == [['D', '2.0']]
    assert val(['call', 'round', [['dbl', '-7.5']]]) == [['D', '-7.0']]
    # XPath 3.1 3.3.1/3.3.2 range and filter examples
    assert val(['seq', ['int', 10], ['to', ['int', 1], ['int', 4]]]) == ints(10, 1, 2, 3, 4)
    assert val(['to', ['int', 15], ['int', 10]]) == []
    assert val(['call', 'reverse', [['to', ['int', 10], ['int', 15]]]]) == ints(15, 14, 13, 12, 11, 10)
    assert val(['filter', ['to', ['int', 1], ['int', 100]],
                ['gcmp', '=', ['arith', '*', ['ctx'], ['int', 0]], ['int', 1]]]) == []
    assert val(['filter', ['filter', ['to', ['int', 21], ['int', 29]], ['vcmp', 'gt', ['ctx'], ['int', 24]]],
                ['int', 2]]) == ints(26)
    assert val(['filter', ['to', ['int', 1], ['int', 5]], ['vcmp', 'eq', ['pos'], ['last']]]) == ints(5)
    assert val(['filter', _I(4, 5, 6), ['dec', '1.5']]) == []
    assert val(['filter', _I(4, 5, 6), ['dbl', '2.0']]) == ints(5)
    assert err(['filter', _I(4, 5, 6), _I(1, 2)]) == 'FORG0006'
    # 3.9 for / 3.11 quantified / 3.17 simple map
    assert val(['for', [['i', _I(10, 20)], ['j', _I(1, 2)]], ['arith', '+', ['var', 'i'], ['var', 'j']]]) == \
        ints(11, 12, 21, 22)
    assert val(['some', [['x', _I(1, 2, 3)], ['y', _I(2, 3, 4)]],
                ['gcmp', '=', ['arith', '+', ['var', 'x'], ['var', 'y']], ['int', 4]]]) == [['b', True]]
    assert val(['every', [['x', _I(1, 2, 3)], ['y', _I(2, 3, 4)]],
                ['gcmp', '=', ['arith', '+', ['var', 'x'], ['var', 'y']], ['int', 4]]]) == [['b', False]]
    assert val(['every', [['x', ['empty']]], ['bool', False]]) == [['b', True]]
    assert val(['map', ['to', ['int', 1], ['int', 3]], ['arith', '*', ['ctx'], ['pos']]]) == ints(1, 4, 9)
    assert val(['call', 'sum', [['nodes', 'a']]]) == [['D', '5.0']]
    assert val(['call', 'index-of', [['nodes', 'a'], ['str', '2']]]) == ints(2, 3)
    assert val(['call', 'index-of', [['nodes', 'a'], ['int', 2]]]) == []
    # closures, partial application, HOFs (XPath 3.1 3.1.5-3.1.7, F&O 16.2)
    clo = ['map', ['for', [['i', _I(1, 2)]], ['inline', [], ['var', 'i']]], ['dyn', ['ctx'], []]]
    assert val(clo) == ints(1, 2)
    assert render(clo) == '((for $i in (1, 2) return function() { $i }) ! .())'
    add = ['inline', ['a', 'b'], ['arith', '+', ['var', 'a'], ['var', 'b']]]
    assert val(['call', 'fold-left', [['to', ['int', 1], ['int', 5]], ['int', 0], add]]) == ints(15)
    catp = ['inline', ['a', 'b'], ['call', 'concat', [['str', '$f('], ['var', 'a'], ['str', ', '],
                                                        ['call', 'concat', [['var', 'b'], ['str', ')']]]]]]
    assert val(['call', 'fold-left', [['to', ['int', 1], ['int', 3]], ['str', '$zero'], catp]]) == \
        strs('$f($f($f($zero, 1), 2), 3)')
    assert val(['call', 'fold-right', [['to', ['int', 1], ['int', 3]], ['str', '$zero'], catp]]) == \
        strs('$f(1, $f(2, $f(3, $zero)))')
    assert val(['call', 'for-each', [['to', ['int', 1], ['int', 3]],
                                     ['inline', ['x'], ['arith', '*', ['var', 'x'], ['var', 'x']]]]]) == ints(1, 4, 9)
    assert val(['call', 'for-each-pair', [_I(1, 2, 3), _I(10, 20), add]]) == ints(11, 22)
    assert val(['call', 'filter', [['to', ['int', 1], ['int', 6]],
                                   ['inline', ['x'], ['vcmp', 'gt', ['var', 'x'], ['int', 4]]]]]) == ints(5, 6)
    assert val(['call', 'apply', [['ref', 'concat', 3], ['array', [['str', 'a'], ['str', 'b'], ['str', 'c']]]]]) == \
        strs('abc')
    assert val(['dyn', ['call', 'concat', [['str', 'a'], ['?'], ['str', 'c']]], [['str', 'b']]]) == strs('abc')
    assert val(['call', 'sort', [_I(1, -2, 5, 10, -10, 10, 8), ['empty'], ['ref', 'abs', 1]]]) == \
        ints(1, -2, 5, 8, 10, -10, 10)
    assert val(['call', 'sort', [_I(1, 4, 6, 5, 3)]]) == ints(1, 3, 4, 5, 6)
    # F&O 4.2.5 / 4.2.6 / 5.4.3 examples
    assert val(['arith', 'idiv', ['int', -7], ['int', 2]]) == ints(-3) == val(['arith', 'idiv', ['int', 7], ['int', -2]])
    assert val(['arith', 'mod', ['int', 10], ['int', 3]]) == ints(1) and val(['arith', 'mod', ['int', -7], ['int', 2]]) == ints(-1)
    assert val(['call', 'substring', [['str', 'motor car'], ['int', 6]]]) == strs(' car')
    assert val(['call', 'substring', [['str', 'metadata'], ['int', 4], ['int', 3]]]) == strs('ada')
    assert val(['call', 'substring', [['str', '12345'], ['dec', '1.5'], ['dec', '2.6']]]) == strs('234')
    assert val(['call', 'substring', [['str', '12345'], ['int', 0], ['int', 3]]]) == strs('12')
    assert val(['call', 'substring', [['str', '12345'], ['int', 5], ['int', -3]]]) == strs('')
    assert val(['call', 'substring', [['str', '12345'], ['dbl', '-INF'], ['dbl', 'INF']]]) == strs('')
    ipx = Interp()
    ipx.run(clo)
    assert ipx.stale_calls == {'inline': 1} and ipx.multi_created == 1
    assert val(['arrow', _I(1, 2, 3), ['ref', 'count', 1]]) == ints(3)
    assert render(['arrow', _I(1, 2), ['ref', 'subsequence', 2], ['int', 2]]) == '((1, 2) => subsequence(2))'
    assert val(['arrow', _I(1, 2), ['ref', 'subsequence', 2], ['int', 2]]) == ints(2)
    assert val(['map', ['map', _I(5, 6, 7), ['ref', 'position', 0]], ['dyn', ['ctx'], []]]) == ints(1, 2, 3)
    assert val(['map', ['map', _I(5, 6), ['ref', 'string', 0]], ['dyn', ['ctx'], []]]) == strs('5', '6')
    assert val(['instance', ['bool', True], 'xs:boolean']) == [['b', True]] and val(['instance', ['int', 1], 'xs:boolean']) == [['b', False]]
    assert val(['instance', ['int', 1], 'xs:decimal']) == [['b', True]] and val(['instance', ['flt', '1.0'], 'xs:double']) == [['b', False]]
    assert val(['call', 'xs:integer', [['bool', True]]]) == ints(1) and val(['call', 'xs:integer', [['dec', '-1.5']]]) == ints(-1)
    assert val(['map', ['nodes', 'r'], ['call', 'count', [['step', 'a']]]]) == ints(3)
    assert val(['map', ['nodes', 'a'], ['call', 'name', []]]) == strs('a', 'a', 'a')
    assert val(['call', 'sort', [['seq', ['uri', 'b'], ['str', 'a'], ['unt', 'c']]]]) == [['s', 'a'], ['a', 'b'], ['u', 'c']]
    assert val(['call', 'array:sort', [['array', [['int', 3], ['int', 1], ['int', 2]]]]]) == [['A', [[['i', 1]], [['i', 2]], [['i', 3]]]]]
    m = ['mapc', [[['str', 'k'], _I(1, 2)], [['int', 5], ['str', 'x']]]]
    lk = ['dyn', ['var', 'm'], [['str', 'k']]]
    assert val(['let', [['m', m]], ['seq', ['seq', lk, ['int', 3]], ['call', 'count', [lk]]]]) == ints(1, 2, 3, 2)
    assert val(['let', [['m', m]], ['seq', ['lookup', ['var', 'm'], 'k'], ['lookup', ['var', 'm'], 5],
                                    ['call', 'map:get', [['var', 'm'], ['str', 'zz']]]]]) == [['i', 1], ['i', 2], ['s', 'x']]
    arr = ['array', [_I(1, 2), ['int', 5]]]
    assert val(['seq', ['dyn', arr, [['int', 1]]], ['lookup', arr, 2], ['call', 'array:get', [arr, ['int', 2]]]]) == ints(1, 2, 5, 5)
    assert err(['dyn', arr, [['int', 3]]]) == 'FOAY0001'
    assert val(['call', 'apply', [arr, ['array', [['int', 2]]]]]) == ints(5) and err(['call', 'apply', [arr, ['array', [['int', 1], ['int', 2]]]]]) == 'FOAP0001'
    assert val(['call', 'for-each', [_I(2, 1), arr]]) == ints(5, 1, 2)
    assert val(['call', 'function-arity', [m]]) == ints(1)
    assert val(['dyn', ['dyn', arr, [['?']]], [['int', 2]]]) == ints(5)
    assert render(['lookup', ['var', 'm'], 'k']) == '$m?k' and render(['dyn', m, [['str', 'k']]]).startswith('map { "k": (1, 2), 5: "x" }(')
    mixed = _S('b', 'A', 'a', 'B', '_', 'Z')
    assert val(['call', 'sort', [mixed]]) == strs('A', 'B', 'Z', '_', 'a', 'b')
    assert val(['call', 'sort', [mixed, ['str', COLLATION_HTML_ASCII]]]) == strs('_', 'A', 'a', 'b', 'B', 'Z')
    ipc = Interp(default_collation=COLLATION_HTML_ASCII)
    assert canon_seq(ipc.run(['call', 'sort', [mixed, ['empty'], ['inline', ['x'], ['var', 'x']]]])) == strs('_', 'A', 'a', 'b', 'B', 'Z')
    assert canon_seq(ipc.run(['call', 'sort', [mixed, ['str', COLLATION_CODEPOINT]]])) == strs('A', 'B', 'Z', '_', 'a', 'b')
    assert matches_type([FnItem(2, None)], 'function(xs:string?, xs:double) as xs:string')
    assert not matches_type([FnItem(3, None)], 'function(item()*, xs:double) as item()*')
    assert render(['arrow', ['int', 2], ['dyn', ['var', 'a'], [['?']]]]) == '(2 => ($a(?))())'
    assert render(['filter', ['var', 'x'], ['int', 1]]) == '$x[1]'
    assert render(['filter', ['int', 3], ['int', 1]]) == '(3)[1]'
    assert render(['dyn', ['inline', [], ['int', 1]], []]) == '(function() { 1 })()'
    assert render(['filter', ['arith', '+', ['seq', ['int', 1]], ['seq', ['int', 2]]], ['int', 1]]) == '((1) + (2))[1]'
