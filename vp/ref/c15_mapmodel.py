"""C15 reference model: XDM maps and arrays as plain python values, written from
XPath and XQuery Functions and Operators 3.1, sections 17.1 (maps: op:same-key, map:*),
17.3 (arrays: array:*), 15.3.1 (fn:deep-equal) and XPath 3.1 section 3.11 (constructors, lookup).

Nothing in this file imports elementpath.

Values
    value  = tuple of items                       (an XDM sequence; singleton == item)
    item   = ('a', type, lexical)                 atomic value
           | ('n', address)                       node of the fixed test document
           | ('m', ((key_atom, value), ...))      map, entries in insertion order
           | ('A', (value, ...))                  array, members are sequences
    error  = raise XErr({codes})                  any of the codes is acceptable
"""
from __future__ import annotations

import base64
import binascii
import datetime as _dt
import math
import re
import struct
from fractions import Fraction
from functools import lru_cache

NUMERIC = ('integer', 'decimal', 'double', 'float')
STRINGY = ('string', 'anyURI', 'untypedAtomic')
DATETIMES = ('dateTime', 'date', 'time', 'gYear', 'gYearMonth', 'gMonth', 'gMonthDay', 'gDay')
DURATIONS = ('duration', 'yearMonthDuration', 'dayTimeDuration')
BINARIES = ('hexBinary', 'base64Binary')


class XErr(Exception):
    def __init__(self, *codes):
        super().__init__(','.join(sorted(codes)))
        self.codes = set(codes)


class NoVerdict(Exception):
    """The specification leaves the result open (or this model does not decide it)."""


# --------------------------------------------------------------------------
# atoms
# --------------------------------------------------------------------------

def atom(t, lex):
    return ('a', t, lex)


def _f32(x: float) -> float:
    if math.isnan(x) or math.isinf(x):
        return x
    try:
        return struct.unpack('f', struct.pack('f', x))[0]
    except OverflowError:
        return math.copysign(math.inf, x)


def _num_value(t, lex):
    """exact value of a numeric atom: 'NaN' | 'INF' | '-INF' | Fraction ; plus negative-zero flag"""
    s = lex.strip()
    if t in ('integer', 'decimal'):
        return Fraction(s), False
    if s in ('NaN', 'nan'):
        return 'NaN', False
    if s in ('INF', '+INF', 'inf'):
        return 'INF', False
    if s in ('-INF', '-inf'):
        return '-INF', False
    x = float(s)
    if t == 'float':
        x = _f32(x)
    if math.isinf(x):
        return ('INF' if x > 0 else '-INF'), False
    return Fraction(x), (x == 0 and math.copysign(1.0, x) < 0)


_TZ = re.compile(r'(Z|[+-]\d\d:\d\d)$')


def _split_tz(lex):
    m = _TZ.search(lex)
    if not m:
        return lex, None
    z = m.group(1)
    if z == 'Z':
        off = 0
    else:
        off = (int(z[1:3]) * 60 + int(z[4:6])) * (1 if z[0] == '+' else -1)
    return lex[:m.start()], off


def _dt_value(t, lex):
    """(has_tz, normalised starting instant) of a date/time atom; F&O 10.4 (comparison of
    date/time values uses the starting instant; reference date 1972-12-31 for xs:time,
    XSD reference components for the g* types)."""
    body, off = _split_tz(lex.strip())
    y, mo, d, h, mi, s = 1972, 12, 31, 0, 0, Fraction(0)
    if t == 'dateTime':
        m = re.fullmatch(r'(-?\d{4,})-(\d\d)-(\d\d)T(\d\d):(\d\d):(\d\d(?:\.\d+)?)', body)
        y, mo, d, h, mi, s = int(m[1]), int(m[2]), int(m[3]), int(m[4]), int(m[5]), Fraction(m[6])
    elif t == 'date':
        m = re.fullmatch(r'(-?\d{4,})-(\d\d)-(\d\d)', body)
        y, mo, d = int(m[1]), int(m[2]), int(m[3])
    elif t == 'time':
        m = re.fullmatch(r'(\d\d):(\d\d):(\d\d(?:\.\d+)?)', body)
        h, mi, s = int(m[1]), int(m[2]), Fraction(m[3])
    elif t == 'gYear':
        m = re.fullmatch(r'(-?\d{4,})', body)
        y, mo, d = int(m[1]), 1, 1
    elif t == 'gYearMonth':
        m = re.fullmatch(r'(-?\d{4,})-(\d\d)', body)
        y, mo, d = int(m[1]), int(m[2]), 1
    elif t == 'gMonth':
        m = re.fullmatch(r'--(\d\d)', body)
        mo, d = int(m[1]), 1
    elif t == 'gMonthDay':
        m = re.fullmatch(r'--(\d\d)-(\d\d)', body)
        mo, d = int(m[1]), int(m[2])
    elif t == 'gDay':
        m = re.fullmatch(r'---(\d\d)', body)
        d = int(m[1])
    else:
        raise ValueError(t)
    if not 1 <= y <= 9000:
        raise ValueError('model handles years 1..9000 only')
    base = _dt.datetime(y, mo, d, h, mi, 0)
    if off is not None:
        base = base - _dt.timedelta(minutes=off)
    return off is not None, (base.isoformat(), str(s))


_DUR = re.compile(r'(-)?P(?:(\d+)Y)?(?:(\d+)M)?(?:(\d+)D)?(?:T(?:(\d+)H)?(?:(\d+)M)?(?:(\d+(?:\.\d+)?)S)?)?')


def _dur_value(lex):
    m = _DUR.fullmatch(lex.strip())
    if not m or lex.strip() in ('P', '-P') or lex.strip().endswith('T'):
        raise ValueError(lex)
    sign = -1 if m[1] else 1
    months = int(m[2] or 0) * 12 + int(m[3] or 0)
    secs = int(m[4] or 0) * 86400 + int(m[5] or 0) * 3600 + int(m[6] or 0) * 60 + Fraction(m[7] or 0)
    return sign * months, sign * secs


def _bin_value(t, lex):
    if t == 'hexBinary':
        return binascii.unhexlify(lex.strip())
    return base64.b64decode(lex.strip(), validate=True)


@lru_cache(maxsize=4096)
def keyclass(a):
    """Canonical representative of the op:same-key equivalence class of an atom (F&O 3.1, 17.1.1):
    same_key(a, b)  <=>  keyclass(a) == keyclass(b)."""
    _, t, lex = a
    if t in STRINGY:
        return ('s', lex)
    if t in NUMERIC:
        v, _neg = _num_value(t, lex)
        return ('num', str(v))
    if t in DATETIMES:
        has_tz, inst = _dt_value(t, lex)
        return ('dt', t, has_tz, inst)
    if t == 'boolean':
        return ('bool', lex.strip() in ('true', '1'))
    if t in BINARIES:
        return ('bin', t, _bin_value(t, lex).hex())
    if t in DURATIONS:
        mo, se = _dur_value(lex)
        return ('dur', mo, str(se))
    if t == 'QName':
        uri, _prefix, local = lex.split('|')
        return ('qn', uri, local)
    raise ValueError(f'unknown atom type {t}')


def same_key(a, b):
    return keyclass(a) == keyclass(b)


@lru_cache(maxsize=4096)
def ident(a):
    """Identity of an atomic *value* (type + point in the value space): what must be preserved
    when a function only moves values around."""
    _, t, lex = a
    if t in ('double', 'float'):
        v, neg = _num_value(t, lex)
        return (t, str(v), neg)
    return (t,) + keyclass(a)


@lru_cache(maxsize=4096)
def is_nan(a):
    return a[1] in ('double', 'float') and _num_value(a[1], a[2])[0] == 'NaN'


# --------------------------------------------------------------------------
# canonical forms for comparison
# --------------------------------------------------------------------------

def canon_item(it, loose=False):
    k = it[0]
    if k == 'a':
        return ('a',) + (keyclass(it) if loose else ident(it))
    if k == 'n':
        return it
    if k == 'm':
        ents = [(canon_item(key, loose), canon(val, loose)) for key, val in it[1]]
        return ('m', tuple(sorted(ents, key=repr)))
    if k == 'A':
        return ('A', tuple(canon(v, loose) for v in it[1]))
    return it          # observer markers ('bad', ...), ('f', ...)


def canon(value, loose=False):
    return tuple(canon_item(it, loose) for it in value)


def canon_bag(value, loose=False):
    return tuple(sorted((canon_item(it, loose) for it in value), key=repr))


# --------------------------------------------------------------------------
# maps (F&O 3.1 section 17.1)
# --------------------------------------------------------------------------

def _ents(m):
    if m[0] != 'm':
        raise XErr('XPTY0004')
    return m[1]


def map_ctor(pairs):
    """XPath 3.1 3.11.1: a key of type xs:untypedAtomic is converted to xs:string;
    XQDY0137 if two keys are the same key."""
    out = []
    for k, v in pairs:
        if k[1] == 'untypedAtomic':
            k = ('a', 'string', k[2])
        if any(same_key(k, k2) for k2, _ in out):
            raise XErr('XQDY0137')
        out.append((k, tuple(v)))
    return ('m', tuple(out))


def map_lookup(m, k):
    for k2, v in _ents(m):
        if same_key(k, k2):
            return v
    return None


def map_get(m, k):
    v = map_lookup(m, k)
    return () if v is None else v


def map_contains(m, k):
    return map_lookup(m, k) is not None


def map_size(m):
    return len(_ents(m))


def map_keys(m):
    return tuple(k for k, _ in _ents(m))


def map_put(m, k, v):
    ents = [(k2, v2) for k2, v2 in _ents(m) if not same_key(k, k2)]
    ents.append((k, tuple(v)))
    return ('m', tuple(ents))


def map_remove(m, keys):
    return ('m', tuple((k2, v2) for k2, v2 in _ents(m) if not any(same_key(k, k2) for k in keys)))


def map_entry(k, v):
    return ('m', ((k, tuple(v)),))


MERGE_POLICIES = ('reject', 'use-first', 'use-last', 'use-any', 'combine')


def map_merge(maps, policy='use-first'):
    """-> (map, info) ; info['cross_type_dup'] when duplicates of different atomic identity were
    met (which key object survives is then compared loosely), raises NoVerdict for use-any."""
    if policy not in MERGE_POLICIES:
        raise XErr('FOJS0005')
    ents: list = []
    info = {'dups': 0, 'cross_type_dup': False}
    for m in maps:
        for k, v in _ents(m):
            for i, (k2, v2) in enumerate(ents):
                if same_key(k, k2):
                    info['dups'] += 1
                    if ident(k) != ident(k2):
                        info['cross_type_dup'] = True
                    if policy == 'reject':
                        raise XErr('FOJS0003')
                    if policy == 'use-last':
                        ents[i] = (k, v)
                    elif policy == 'combine':
                        ents[i] = (k2, v2 + v)
                    elif policy == 'use-any':
                        info['any'] = True
                    break
            else:
                ents.append((k, v))
    if info.get('any'):
        raise NoVerdict('use-any with duplicates')
    return ('m', tuple(ents)), info


def map_find(value, key):
    """17.1.12 map:find - result members compared as a bag (entry order is implementation-dependent)."""
    out = []

    def walk(seq):
        for it in seq:
            if it[0] == 'A':
                for mem in it[1]:
                    walk(mem)
            elif it[0] == 'm':
                for k, v in it[1]:
                    if same_key(k, key):
                        out.append(v)
                for k, v in it[1]:
                    walk(v)
    walk(value)
    return ('A', tuple(out))


# --------------------------------------------------------------------------
# arrays (F&O 3.1 section 17.3)
# --------------------------------------------------------------------------

def _mem(a):
    if a[0] != 'A':
        raise XErr('XPTY0004')
    return a[1]


def arr(members):
    return ('A', tuple(tuple(v) for v in members))


def arr_curly(value):
    return ('A', tuple((it,) for it in value))


def arr_size(a):
    return len(_mem(a))


def arr_get(a, i):
    mem = _mem(a)
    if not 1 <= i <= len(mem):
        raise XErr('FOAY0001')
    return mem[i - 1]


def arr_put(a, i, v):
    mem = _mem(a)
    if not 1 <= i <= len(mem):
        raise XErr('FOAY0001')
    return ('A', mem[:i - 1] + (tuple(v),) + mem[i:])


def arr_append(a, v):
    return ('A', _mem(a) + (tuple(v),))


def arr_insert_before(a, i, v):
    mem = _mem(a)
    if not 1 <= i <= len(mem) + 1:
        raise XErr('FOAY0001')
    return ('A', mem[:i - 1] + (tuple(v),) + mem[i - 1:])


def arr_remove(a, positions):
    mem = _mem(a)
    for p in positions:
        if not 1 <= p <= len(mem):
            raise XErr('FOAY0001')
    return ('A', tuple(v for j, v in enumerate(mem, 1) if j not in positions))


def arr_subarray(a, start, length=None):
    mem = _mem(a)
    n = len(mem)
    if length is None:
        if not 1 <= start <= n + 1:
            raise XErr('FOAY0001')
        return ('A', mem[start - 1:])
    codes = set()
    if not 1 <= start <= n + 1:
        codes.add('FOAY0001')
    if length < 0:
        codes.add('FOAY0002')
    elif start + length > n + 1:
        codes.add('FOAY0001')
    if codes:
        raise XErr(*codes)
    return ('A', mem[start - 1:start - 1 + length])


def arr_head(a):
    mem = _mem(a)
    if not mem:
        raise XErr('FOAY0001')
    return mem[0]


def arr_tail(a):
    mem = _mem(a)
    if not mem:
        raise XErr('FOAY0001')
    return ('A', mem[1:])


def arr_reverse(a):
    return ('A', tuple(reversed(_mem(a))))


def arr_join(arrays):
    out = ()
    for a in arrays:
        out += _mem(a)
    return ('A', out)


def flatten(value):
    out = []
    for it in value:
        if it[0] == 'A':
            for mem in it[1]:
                out.extend(flatten(mem))
        else:
            out.append(it)
    return tuple(out)


# --------------------------------------------------------------------------
# lookup (XPath 3.1 section 3.11.3) and dynamic function call on maps/arrays
# --------------------------------------------------------------------------

def lookup(seq, keyspec):
    """E?K : keyspec = ('name', s) | ('int', n) | ('paren', [atoms]) | ('star',)
    -> (value, unordered) ; unordered when a map wildcard makes the order implementation-dependent"""
    out = []
    unordered = False
    for it in seq:
        if it[0] == 'm':
            if keyspec[0] == 'star':
                if len(it[1]) > 1:
                    unordered = True
                for _, v in it[1]:
                    out.extend(v)
            elif keyspec[0] == 'name':
                out.extend(map_get(it, atom('string', keyspec[1])))
            elif keyspec[0] == 'int':
                out.extend(map_get(it, atom('integer', str(keyspec[1]))))
            else:
                for k in keyspec[1]:
                    out.extend(map_get(it, k))
        elif it[0] == 'A':
            if keyspec[0] == 'star':
                for v in it[1]:
                    out.extend(v)
            elif keyspec[0] == 'name':
                raise XErr('XPTY0004')
            elif keyspec[0] == 'int':
                out.extend(arr_get(it, keyspec[1]))
            else:
                for k in keyspec[1]:
                    if k[1] != 'integer':
                        raise XErr('XPTY0004')
                    out.extend(arr_get(it, int(k[2])))
        else:
            raise XErr('XPTY0004')
    return tuple(out), unordered


# --------------------------------------------------------------------------
# fn:deep-equal restricted to pairs where the verdict does not depend on type promotion
# subtleties or the implicit timezone (those raise NoVerdict)
# --------------------------------------------------------------------------

def _atoms_deep_equal(a, b):
    ta, tb = a[1], b[1]
    if ta in NUMERIC and tb in NUMERIC:
        va, vb = _num_value(ta, a[2])[0], _num_value(tb, b[2])[0]
        if va == 'NaN' or vb == 'NaN':
            return va == vb
        if ta != tb and not (ta in ('integer', 'decimal') and tb in ('integer', 'decimal')):
            raise NoVerdict('numeric promotion')      # left to the comparison property (C07)
        if va == vb:
            return True
        if isinstance(va, str) or isinstance(vb, str):
            return False
        # different exact values: eq is false under every promotion only if they differ as floats
        if _f32(float(va)) != _f32(float(vb)):
            return False
        raise NoVerdict('numeric promotion')
    if ta in ('string', 'anyURI') and tb in ('string', 'anyURI'):
        return a[2] == b[2]
    if ta == 'untypedAtomic' or tb == 'untypedAtomic':
        if ta == tb:
            return a[2] == b[2]
        raise NoVerdict('untypedAtomic')
    if ta == tb == 'boolean':
        return keyclass(a) == keyclass(b)
    if ta in DATETIMES and tb in DATETIMES:
        if ta != tb:
            return False
        (za, ia), (zb, ib) = _dt_value(ta, a[2]), _dt_value(tb, b[2])
        if za != zb:
            raise NoVerdict('implicit timezone')
        return ia == ib
    if ta in DURATIONS and tb in DURATIONS:
        return keyclass(a) == keyclass(b)
    if ta in BINARIES and tb in BINARIES:
        if ta != tb:
            raise NoVerdict('binary cross type')
        return keyclass(a) == keyclass(b)
    if ta == tb == 'QName':
        return keyclass(a) == keyclass(b)
    fam = lambda t: ('num' if t in NUMERIC else 'str' if t in STRINGY else 'dt' if t in DATETIMES else
                     'dur' if t in DURATIONS else 'bin' if t in BINARIES else t)
    if fam(ta) != fam(tb):
        return False        # eq is not defined between the families: not deep-equal
    raise NoVerdict(f'{ta}/{tb}')


def deep_equal(v1, v2):
    if len(v1) != len(v2):
        return False
    verdict = True
    pending = None
    for x, y in zip(v1, v2):
        try:
            if not _items_deep_equal(x, y):
                return False
        except NoVerdict as e:
            pending = e
    if pending is not None:
        raise pending
    return verdict


def _items_deep_equal(x, y):
    if x[0] != y[0]:
        return False
    if x[0] == 'a':
        return _atoms_deep_equal(x, y)
    if x[0] == 'n':
        return x[1] == y[1]       # the nodes of the fixed document are pairwise not deep-equal
    if x[0] == 'A':
        if len(x[1]) != len(y[1]):
            return False
        pending = None
        for a, b in zip(x[1], y[1]):
            try:
                if not deep_equal(a, b):
                    return False
            except NoVerdict as e:
                pending = e
        if pending is not None:
            raise pending
        return True
    if x[0] == 'm':
        if len(x[1]) != len(y[1]):
            return False
        pending = None
        for k, v in x[1]:
            w = map_lookup(y, k)
            if w is None:
                return False
            try:
                if not deep_equal(v, w):
                    return False
            except NoVerdict as e:
                pending = e
        if pending is not None:
            raise pending
        return True
    raise NoVerdict(x[0])


# --------------------------------------------------------------------------
# self test: worked examples of F&O 3.1 (17.1, 17.3) and XPath 3.1 (3.11)
# --------------------------------------------------------------------------

def self_test():
    I = lambda n: atom('integer', str(n))
    S = lambda s: atom('string', s)
    D = lambda s: atom('double', s)

    def seq(*xs):
        return tuple(xs)

    def A(*members):
        return arr([m if isinstance(m, tuple) and (not m or isinstance(m[0], tuple)) else (m,) for m in members])

    # op:same-key
    assert same_key(I(1), atom('decimal', '1.0')) and same_key(I(1), D('1e0')) and same_key(I(1), atom('float', '1'))
    assert same_key(D('NaN'), atom('float', 'NaN')) and not same_key(D('NaN'), D('INF'))
    assert same_key(D('0e0'), D('-0e0')) and same_key(D('INF'), atom('float', 'INF'))
    assert same_key(S('a'), atom('anyURI', 'a')) and same_key(S('a'), atom('untypedAtomic', 'a'))
    assert not same_key(I(1), S('1')) and not same_key(I(1), atom('boolean', 'true'))
    assert not same_key(atom('decimal', '0.1'), D('0.1')) and not same_key(atom('float', '0.1'), D('0.1'))
    assert same_key(atom('float', '0.5'), D('0.5'))
    assert not same_key(atom('dateTime', '2000-01-01T12:00:00'), atom('dateTime', '2000-01-01T12:00:00Z'))
    assert same_key(atom('dateTime', '2000-01-01T12:00:00Z'), atom('dateTime', '2000-01-01T13:00:00+01:00'))
    assert not same_key(atom('date', '2000-01-01'), atom('dateTime', '2000-01-01T00:00:00'))
    assert same_key(atom('time', '12:00:00Z'), atom('time', '13:00:00+01:00'))
    assert same_key(atom('yearMonthDuration', 'P0M'), atom('dayTimeDuration', 'PT0S'))
    assert same_key(atom('dayTimeDuration', 'PT60S'), atom('duration', 'PT1M'))
    assert not same_key(atom('hexBinary', '00'), atom('base64Binary', 'AA=='))
    assert same_key(atom('QName', 'u|p|a'), atom('QName', 'u|q|a')) and not same_key(atom('QName', '||a'), S('a'))
    assert ident(D('0e0')) != ident(D('-0e0')) and ident(I(1)) != ident(atom('decimal', '1'))
    assert ident(atom('decimal', '1.0')) == ident(atom('decimal', '1.00'))

    # F&O 17.1: $week
    week = map_ctor([(I(0), seq(S('Sonntag'))), (I(1), seq(S('Montag'))), (I(2), seq(S('Dienstag'))),
                     (I(3), seq(S('Mittwoch'))), (I(4), seq(S('Donnerstag'))), (I(5), seq(S('Freitag'))),
                     (I(6), seq(S('Samstag')))])
    assert map_get(week, I(4)) == seq(S('Donnerstag')) and map_get(week, I(9)) == ()
    assert map_get(map_entry(I(7), ()), I(7)) == ()
    assert map_contains(week, I(2)) and not map_contains(week, I(9))
    assert not map_contains(map_ctor([]), S('xyz')) and map_contains(map_ctor([(S('xyz'), seq(I(23)))]), S('xyz'))
    assert map_contains(map_ctor([(S('abc'), seq(I(23))), (S('xyz'), ())]), S('xyz'))
    assert map_size(map_ctor([])) == 0 and map_size(map_ctor([(S('true'), seq(I(1))), (S('false'), seq(I(0)))])) == 2
    assert canon_bag(map_keys(map_ctor([(I(1), seq(S('yes'))), (I(2), seq(S('no')))]))) == canon_bag(seq(I(1), I(2)))
    p = map_put(week, I(6), seq(S('Sonnabend')))
    assert map_size(p) == 7 and map_get(p, I(6)) == seq(S('Sonnabend')) and map_get(week, I(6)) == seq(S('Samstag'))
    assert map_get(map_put(week, I(-1), seq(S('Unbekannt'))), I(-1)) == seq(S('Unbekannt'))
    assert map_size(map_remove(week, [I(4)])) == 6 and map_size(map_remove(week, [I(23)])) == 7
    assert canon_bag(map_keys(map_remove(week, [I(0), I(6), I(7)]))) == canon_bag(seq(I(1), I(2), I(3), I(4), I(5)))
    assert map_size(map_remove(week, [])) == 7
    m7 = map_ctor([(I(7), seq(S('Unbekannt')))])
    assert map_size(map_merge([])[0]) == 0
    assert map_size(map_merge([week, m7])[0]) == 8
    six = map_ctor([(I(6), seq(S('Sonnabend')))])
    assert map_get(map_merge([week, six], 'use-last')[0], I(6)) == seq(S('Sonnabend'))
    assert map_get(map_merge([week, six], 'use-first')[0], I(6)) == seq(S('Samstag'))
    assert map_get(map_merge([week, six])[0], I(6)) == seq(S('Samstag'))
    assert map_get(map_merge([week, six], 'combine')[0], I(6)) == seq(S('Samstag'), S('Sonnabend'))
    try:
        map_merge([week, six], 'reject')
        raise AssertionError('FOJS0003 expected')
    except XErr as e:
        assert e.codes == {'FOJS0003'}
    try:
        map_ctor([(I(1), ()), (D('1e0'), ())])
        raise AssertionError('XQDY0137 expected')
    except XErr as e:
        assert e.codes == {'XQDY0137'}
    # map:find examples
    responses = A(map_ctor([(I(0), seq(S('no'))), (I(1), seq(S('yes')))]),
                  map_ctor([(I(0), seq(S('non'))), (I(1), seq(S('oui')))]),
                  map_ctor([(I(0), seq(S('nein'))), (I(1), seq(S('ja'), S('doch')))]))
    assert map_find(seq(responses), I(0)) == A(S('no'), S('non'), S('nein'))
    assert map_find(seq(responses), I(1)) == arr([(S('yes'),), (S('oui'),), (S('ja'), S('doch'))])
    assert map_find(seq(responses), I(2)) == ('A', ())
    inv = A(map_ctor([(S('name'), seq(S('car'))), (S('id'), seq(S('QZ123')))]),
            map_ctor([(S('name'), seq(S('engine'))), (S('id'), seq(S('YW678')))]))
    assert map_find(seq(inv), S('id')) == A(S('QZ123'), S('YW678'))

    # F&O 17.3
    abcd = A(S('a'), S('b'), S('c'), S('d'))
    assert arr_size(A(S('a'), S('b'), S('c'))) == 3 and arr_size(A(S('a'), A(S('b'), S('c')))) == 2
    assert arr_size(('A', ())) == 0 and arr_size(arr([()])) == 1
    assert arr_get(A(S('a'), S('b'), S('c')), 2) == seq(S('b'))
    assert arr_put(A(S('a'), S('b'), S('c')), 2, seq(S('d'))) == A(S('a'), S('d'), S('c'))
    assert arr_put(A(S('a'), S('b'), S('c')), 2, seq(S('d'), S('e'))) == arr([(S('a'),), (S('d'), S('e')), (S('c'),)])
    assert arr_put(A(S('a')), 1, seq(A(S('d'), S('e')))) == A(A(S('d'), S('e')))
    assert arr_append(A(S('a'), S('b'), S('c')), seq(S('d'))) == abcd
    assert arr_append(A(S('a')), seq(S('d'), S('e'))) == arr([(S('a'),), (S('d'), S('e'))])
    assert arr_subarray(abcd, 2) == A(S('b'), S('c'), S('d')) and arr_subarray(abcd, 5) == ('A', ())
    assert arr_subarray(abcd, 2, 0) == ('A', ()) and arr_subarray(abcd, 2, 1) == A(S('b'))
    assert arr_subarray(abcd, 2, 2) == A(S('b'), S('c')) and arr_subarray(abcd, 5, 0) == ('A', ())
    assert arr_subarray(('A', ()), 1, 0) == ('A', ())
    for args, code in (((abcd, 6), 'FOAY0001'), ((abcd, 0), 'FOAY0001'), ((abcd, 2, 4), 'FOAY0001'),
                       ((abcd, 2, -1), 'FOAY0002')):
        try:
            arr_subarray(*args)
            raise AssertionError(code)
        except XErr as e:
            assert code in e.codes
    assert arr_remove(abcd, [1]) == A(S('b'), S('c'), S('d')) and arr_remove(abcd, [2]) == A(S('a'), S('c'), S('d'))
    assert arr_remove(A(S('a')), [1]) == ('A', ()) and arr_remove(abcd, [1, 2, 3]) == A(S('d'))
    assert arr_remove(abcd, []) == abcd
    assert arr_insert_before(abcd, 3, seq(S('x'), S('y'))) == arr([(S('a'),), (S('b'),), (S('x'), S('y')), (S('c'),), (S('d'),)])
    assert arr_insert_before(abcd, 5, seq(S('x'), S('y')))[1][4] == seq(S('x'), S('y'))
    assert arr_insert_before(abcd, 3, seq(A(S('x'), S('y'))))[1][2] == seq(A(S('x'), S('y')))
    n5678 = A(I(5), I(6), I(7), I(8))
    assert arr_head(n5678) == seq(I(5)) and arr_head(A(A(S('a'), S('b')), A(S('c'), S('d')))) == seq(A(S('a'), S('b')))
    assert arr_head(arr([(S('a'), S('b')), (S('c'), S('d'))])) == seq(S('a'), S('b'))
    assert arr_tail(n5678) == A(I(6), I(7), I(8)) and arr_tail(A(I(5))) == ('A', ())
    assert arr_reverse(abcd) == A(S('d'), S('c'), S('b'), S('a'))
    assert arr_reverse(arr([(S('a'), S('b')), (S('c'), S('d'))])) == arr([(S('c'), S('d')), (S('a'), S('b'))])
    assert arr_reverse(arr([(I(1), I(2), I(3), I(4), I(5))])) == arr([(I(1), I(2), I(3), I(4), I(5))])
    assert arr_join([]) == ('A', ()) and arr_join([A(I(1), I(2), I(3))]) == A(I(1), I(2), I(3))
    assert arr_join([A(S('a'), S('b')), A(S('c'), S('d'))]) == abcd
    assert arr_join([A(S('a'), S('b')), A(S('c'), S('d')), ('A', ())]) == abcd
    assert arr_join([A(S('a'), S('b')), A(S('c'), S('d')), A(A(S('e'), S('f')))])[1][4] == seq(A(S('e'), S('f')))
    assert flatten(seq(A(I(1), I(4), I(6), I(5), I(3)))) == seq(I(1), I(4), I(6), I(5), I(3))
    assert flatten(seq(A(I(1), I(2), I(5)), A(A(I(10), I(11)), I(12)), ('A', ()), I(13))) == \
        seq(I(1), I(2), I(5), I(10), I(11), I(12), I(13))
    assert flatten(seq(arr([(I(1), I(0))]), arr([(I(1), I(1))]), arr([(I(0), I(1))]), arr([(I(0), I(0))]))) == \
        seq(I(1), I(0), I(1), I(1), I(0), I(1), I(0), I(0))
    for f, args in ((arr_get, (abcd, 5)), (arr_get, (abcd, 0)), (arr_put, (abcd, 5, ())), (arr_insert_before, (abcd, 6, ())),
                    (arr_remove, (abcd, [5])), (arr_head, (('A', ()),)), (arr_tail, (('A', ()),))):
        try:
            f(*args)
            raise AssertionError('FOAY0001')
        except XErr as e:
            assert e.codes == {'FOAY0001'}
    # XPath 3.1 3.11.3 lookup examples
    assert lookup(seq(map_ctor([(S('first'), seq(S('Jenna'))), (S('last'), seq(S('Scott')))])), ('name', 'first'))[0] == seq(S('Jenna'))
    assert lookup(seq(A(I(4), I(5), I(6))), ('int', 2))[0] == seq(I(5))
    assert lookup(seq(A(I(1), I(2), I(5), I(7))), ('star',))[0] == seq(I(1), I(2), I(5), I(7))
    assert lookup(seq(A(A(I(1), I(2), I(3)), A(I(4), I(5), I(6)))), ('star',))[0] == seq(A(I(1), I(2), I(3)), A(I(4), I(5), I(6)))
    assert lookup(seq(A(I(1), I(2), I(3)), A(I(4), I(5), I(6))), ('int', 2))[0] == seq(I(2), I(5))
    try:
        lookup(seq(A(S('a'), S('b'))), ('name', 'foo'))
        raise AssertionError('XPTY0004')
    except XErr as e:
        assert e.codes == {'XPTY0004'}
    # deep-equal examples (F&O 15.3.1)
    assert deep_equal(seq(map_ctor([(I(1), seq(S('a'))), (I(2), seq(S('b')))])), seq(map_ctor([(I(2), seq(S('b'))), (I(1), seq(S('a')))])))
    assert deep_equal(seq(A(I(1), I(2), I(3))), seq(A(I(1), I(2), I(3))))
    assert not deep_equal(seq(I(1), I(2), I(3)), seq(A(I(1), I(2), I(3))))
    assert not deep_equal(seq(map_ctor([]), I(1)), seq(map_ctor([]), I(2)))
    assert deep_equal(seq(D('NaN')), seq(atom('float', 'NaN')))
    assert canon(seq(map_ctor([(I(1), seq(S('a'))), (I(2), ())]))) == canon(seq(map_ctor([(I(2), ()), (I(1), seq(S('a')))])))
