"""Reference model of the F&O / XPath 1.0 string functions, in code-point terms.

Transcribed from XPath 1.0 section 4.2 and XPath Functions and Operators 3.1 sections 5.2-5.5, 6
(the 2.0 / 3.0 texts define the same values for the functions modelled here).  Nothing in here
imports elementpath.  Strings are python str (sequences of code points); searching and comparing is
done with own loops over code-point lists, not with str.find / str.__lt__, so that the model shares
no shortcut with the code under test.

Numbers: xs:double arguments are python floats; rounding (fn:round, half towards +INF) is done on
exact Fractions.
"""
from __future__ import annotations

import math
from fractions import Fraction

XML_WS = (0x20, 0x9, 0xD, 0xA)

CODEPOINT_COLLATION = 'http://www.w3.org/2005/xpath-functions/collation/codepoint'
HTML_ASCII_CI_COLLATION = 'http://www.w3.org/2005/xpath-functions/collation/html-ascii-case-insensitive'


class FnError(Exception):
    """an error the specification demands (code = local name of the err: QName)"""

    def __init__(self, code):
        super().__init__(code)
        self.code = code


def is_xml_char(cp: int) -> bool:
    """XML 1.0 production [2] Char"""
    return cp in (0x9, 0xA, 0xD) or 0x20 <= cp <= 0xD7FF or 0xE000 <= cp <= 0xFFFD or 0x10000 <= cp <= 0x10FFFF


def cps(s: str) -> list[int]:
    return [ord(c) for c in s]


def from_cps(lst) -> str:
    return ''.join(chr(c) for c in lst)


# --------------------------------------------------------------------------
# fn:round on xs:double (F&O 4.4.4: nearest integer, ties towards positive infinity)
# --------------------------------------------------------------------------

def round_half_up(x: float) -> float:
    if math.isnan(x) or math.isinf(x):
        return x
    fr = Fraction(x) + Fraction(1, 2)
    n = fr.numerator // fr.denominator          # floor
    if n == 0 and (x < 0 or math.copysign(1.0, x) < 0):
        return -0.0
    return float(n)                               # exact: |x| >= 2**52 are integers already


def substring(s: str | None, start: float, length: float | None = None) -> str:
    """F&O 5.4.3: characters at positions p (1-based) with round(start) <= p [< round(start) + round(length)];
    arithmetic and comparisons follow xs:double (IEEE) rules, so NaN compares false and -INF + INF = NaN."""
    if s is None:
        return ''
    rs = round_half_up(start)
    out = []
    if length is None:
        for p, c in enumerate(s, 1):
            if float(p) >= rs:
                out.append(c)
        return ''.join(out)
    rl = round_half_up(length)
    if math.isinf(rs) and math.isinf(rl) and (rs > 0) != (rl > 0):
        end = math.nan
    else:
        end = _dsum(rs, rl)
    for p, c in enumerate(s, 1):
        if float(p) >= rs and float(p) < end:
            out.append(c)
    return ''.join(out)


def _dsum(a: float, b: float) -> float:
    """IEEE double addition (python float addition is IEEE binary64)"""
    return a + b


# --------------------------------------------------------------------------
# searching under the Unicode code point collation (each code point = one collation unit)
# --------------------------------------------------------------------------

def _find(a: list, b: list) -> int:
    """index of the first occurrence of b in a (own loop), -1 if none; the empty list is found at 0"""
    n, m = len(a), len(b)
    for i in range(0, n - m + 1):
        k = 0
        while k < m and a[i + k] == b[k]:
            k += 1
        if k == m:
            return i
    return -1


def _key(s: str | None, collation: str = CODEPOINT_COLLATION) -> list[int]:
    """collation units as a list of comparable keys, one per code point"""
    lst = cps(s or '')
    if collation == CODEPOINT_COLLATION:
        return lst
    if collation == HTML_ASCII_CI_COLLATION:
        # F&O 3.1 5.3.4: A-Z are mapped to a-z, every other code point is itself; then code point order
        return [c + 32 if 0x41 <= c <= 0x5A else c for c in lst]
    raise ValueError(collation)


def contains(s, t, collation=CODEPOINT_COLLATION) -> bool:
    """F&O 5.5.1 (empty $arg2 -> true; empty sequence = zero-length string)"""
    return _find(_key(s, collation), _key(t, collation)) >= 0


def starts_with(s, t, collation=CODEPOINT_COLLATION) -> bool:
    a, b = _key(s, collation), _key(t, collation)
    return len(b) <= len(a) and a[:len(b)] == b


def ends_with(s, t, collation=CODEPOINT_COLLATION) -> bool:
    a, b = _key(s, collation), _key(t, collation)
    return len(b) <= len(a) and a[len(a) - len(b):] == b


def substring_before(s, t, collation=CODEPOINT_COLLATION) -> str:
    """F&O 5.5.4: part of $arg1 before the first occurrence of $arg2; '' if $arg2 is empty or not contained"""
    s = s or ''
    i = _find(_key(s, collation), _key(t, collation))
    return '' if i < 0 else from_cps(cps(s)[:i])


def substring_after(s, t, collation=CODEPOINT_COLLATION) -> str:
    """F&O 5.5.5: part after the first occurrence; $arg1 itself if $arg2 is empty; '' if not contained"""
    s = s or ''
    b = _key(t, collation)
    i = _find(_key(s, collation), b)
    return '' if i < 0 else from_cps(cps(s)[i + len(b):])


def compare(a, b, collation=CODEPOINT_COLLATION):
    """F&O 5.3.6: -1, 0, 1; empty sequence if either operand is the empty sequence"""
    if a is None or b is None:
        return None
    x, y = _key(a, collation), _key(b, collation)
    for p, q in zip(x, y):
        if p != q:
            return -1 if p < q else 1
    return 0 if len(x) == len(y) else (-1 if len(x) < len(y) else 1)


def codepoint_equal(a, b):
    if a is None or b is None:
        return None
    return cps(a) == cps(b)


# --------------------------------------------------------------------------
# fn:translate, fn:normalize-space, fn:string-length, fn:concat
# --------------------------------------------------------------------------

def translate(s, map_string: str, trans_string: str) -> str:
    """F&O 5.4.9 / XPath 1.0: the FIRST occurrence of a character in $mapString decides; characters of
    $mapString without a counterpart in $transString are removed; excess $transString is ignored."""
    if s is None:
        return ''
    m, t = cps(map_string), cps(trans_string)
    out = []
    for c in cps(s):
        idx = -1
        for i, x in enumerate(m):
            if x == c:
                idx = i
                break
        if idx < 0:
            out.append(c)
        elif idx < len(t):
            out.append(t[idx])
    return from_cps(out)


def normalize_space(s) -> str:
    """F&O 5.4.5: strip leading/trailing whitespace, collapse internal runs to one #x20;
    whitespace = XML S = (#x20 | #x9 | #xD | #xA)+ only."""
    if s is None:
        return ''
    out, pending, started = [], False, False
    for c in cps(s):
        if c in XML_WS:
            pending = started
        else:
            if pending:
                out.append(0x20)
                pending = False
            out.append(c)
            started = True
    return from_cps(out)


def string_length(s) -> int:
    return 0 if s is None else len(cps(s))


def string_to_codepoints(s) -> list[int]:
    return [] if s is None else cps(s)


def codepoints_to_string(lst) -> str:
    """F&O 5.2.1: FOCH0001 if a code point is not a legal XML character"""
    for c in lst:
        if not is_xml_char(c):
            raise FnError('FOCH0001')
    return from_cps(lst)


# --------------------------------------------------------------------------
# case mapping (F&O 5.4.7 / 5.4.8)
# --------------------------------------------------------------------------
#: characters whose lower-case mapping is context sensitive in SpecialCasing.txt (Final_Sigma) or
#: whose handling F&O leaves to "the Unicode standard" without saying whether conditional mappings apply
LOWER_CONTEXT_SENSITIVE = {0x3A3}


def upper_case(s) -> str:
    """per-character full (SpecialCasing, unconditional) upper-case mapping as implemented by str.upper()"""
    return '' if s is None else ''.join(c.upper() for c in s)


def lower_case(s):
    """per-character unconditional lower-case mapping; None (no verdict) when a context-sensitive character occurs"""
    if s is None:
        return ''
    if any(ord(c) in LOWER_CONTEXT_SENSITIVE for c in s):
        return None
    return ''.join(c.lower() for c in s)


# --------------------------------------------------------------------------
# URI escaping (F&O 6.1 - 6.3)
# --------------------------------------------------------------------------
_HEX = '0123456789ABCDEF'
_UNRESERVED = set(cps('ABCDEFGHIJKLMNOPQRSTUVWXYZabcdefghijklmnopqrstuvwxyz0123456789-_.~'))
_IRI_INVALID_ASCII = set(cps('<>" {}|\\^`'))


def _utf8(cp: int) -> list[int]:
    """UTF-8 octets of one code point (RFC 3629), own encoder"""
    if cp < 0x80:
        return [cp]
    if cp < 0x800:
        return [0xC0 | cp >> 6, 0x80 | cp & 0x3F]
    if cp < 0x10000:
        return [0xE0 | cp >> 12, 0x80 | (cp >> 6) & 0x3F, 0x80 | cp & 0x3F]
    return [0xF0 | cp >> 18, 0x80 | (cp >> 12) & 0x3F, 0x80 | (cp >> 6) & 0x3F, 0x80 | cp & 0x3F]


def _escape(s, keep) -> str:
    out = []
    for c in cps(s):
        if keep(c):
            out.append(chr(c))
        else:
            for b in _utf8(c):
                out.append('%' + _HEX[b >> 4] + _HEX[b & 15])
    return ''.join(out)


def encode_for_uri(s) -> str:
    """6.1: everything except the RFC 3986 unreserved characters is escaped"""
    return '' if s is None else _escape(s, lambda c: c in _UNRESERVED)


def iri_to_uri(s) -> str:
    """6.2: x20-x7E stay, except < > " space { } | \\ ^ ` ; everything else is percent-encoded"""
    return '' if s is None else _escape(s, lambda c: 0x20 <= c <= 0x7E and c not in _IRI_INVALID_ASCII)


def escape_html_uri(s) -> str:
    """6.3: everything except printable ASCII (32..126) is escaped"""
    return '' if s is None else _escape(s, lambda c: 32 <= c <= 126)


# --------------------------------------------------------------------------
# self test: worked examples of XPath 1.0 section 4.2 and F&O 3.1
# --------------------------------------------------------------------------

def self_test():
    inf, nan = math.inf, math.nan
    assert substring('motor car', 6) == ' car'
    assert substring('metadata', 4, 3) == 'ada'
    assert substring('12345', 1.5, 2.6) == '234'
    assert substring('12345', 0, 3) == '12'
    assert substring('12345', 5, -3) == ''
    assert substring('12345', -3, 5) == '1'
    assert substring('12345', nan, 3) == ''
    assert substring('12345', 1, nan) == ''
    assert substring(None, 1, 3) == ''
    assert substring('12345', -42, inf) == '12345'
    assert substring('12345', -inf, inf) == ''
    assert substring('12345', 2) == '2345'            # XPath 1.0 4.2
    assert substring('12345', 2, 3) == '234'
    assert substring('12345', 2.5) == '345' and substring('12345', -0.5, 1.5) == '1'   # round(-0.5) = -0, round(1.5) = 2: p < 2
    assert round_half_up(2.5) == 3.0 and round_half_up(-2.5) == -2.0 and round_half_up(2.4999) == 2.0
    assert math.copysign(1, round_half_up(-0.4)) < 0 and round_half_up(0.49999999999999994) == 0.0
    assert contains('tattoo', 't') and not contains('tattoo', 'ttt') and contains('', None) and contains('x', '')
    assert starts_with('tattoo', 'tat') and not starts_with('tattoo', 'att') and starts_with(None, None)
    assert ends_with('tattoo', 'tattoo') and not ends_with('tattoo', 'atto') and ends_with(None, None)
    assert substring_before('tattoo', 'attoo') == 't' and substring_before('tattoo', 'tatto') == ''
    assert substring_before(None, None) == '' and substring_before('1999/04/01', '/') == '1999'
    assert substring_after('tattoo', 'tat') == 'too' and substring_after('tattoo', 'tattoo') == ''
    assert substring_after(None, None) == '' and substring_after('1999/04/01', '/') == '04/01'
    assert substring_after('1999/04/01', '19') == '99/04/01' and substring_after('abc', '') == 'abc'
    assert compare('abc', 'abc') == 0 and compare('a', 'b') == -1 and compare('b', 'a') == 1 and compare(None, 'a') is None
    assert compare('ab', 'a') == 1 and compare('\U00010000', '￿') == 1     # code point order, not UTF-16 order
    assert codepoint_equal('abcd', 'abcd') and not codepoint_equal('abcd', 'abcd ') and codepoint_equal('', '')
    assert codepoint_equal(None, 'a') is None
    assert translate('bar', 'abc', 'ABC') == 'BAr' and translate('--aaa--', 'abc-', 'ABC') == 'AAA'
    assert translate('abcdabc', 'abc', 'AB') == 'ABdAB' and translate('abc', 'aa', 'xy') == 'xbc'
    assert normalize_space(' The    wealthy curled darlings   of    our    nation. ') == 'The wealthy curled darlings of our nation.'
    assert normalize_space(None) == '' and normalize_space('a\xa0 \t\r\nb ') == 'a\xa0 b '
    assert string_length('Harp not on that string, madam; that is past.') == 45 and string_length(None) == 0
    assert string_length('a\U0001F600') == 2
    assert string_to_codepoints('Thérèse') == [84, 104, 233, 114, 232, 115, 101]
    assert codepoints_to_string([2309, 2358, 2378, 2325]) == 'अशॊक' and codepoints_to_string([]) == ''
    try:
        codepoints_to_string([0])
        raise AssertionError('FOCH0001 expected')
    except FnError as e:
        assert e.code == 'FOCH0001'
    assert upper_case('abCd0') == 'ABCD0' and lower_case('ABc!D') == 'abc!d' and upper_case('ß') == 'SS'
    assert encode_for_uri('http://www.example.com/00/Weather/CA/Los%20Angeles#ocean') == \
        'http%3A%2F%2Fwww.example.com%2F00%2FWeather%2FCA%2FLos%2520Angeles%23ocean'
    assert encode_for_uri('~bébé') == '~b%C3%A9b%C3%A9' and encode_for_uri('100% organic') == '100%25%20organic'
    assert iri_to_uri('http://www.example.com/00/Weather/CA/Los%20Angeles#ocean') == \
        'http://www.example.com/00/Weather/CA/Los%20Angeles#ocean'
    assert iri_to_uri('http://www.example.com/~bébé') == 'http://www.example.com/~b%C3%A9b%C3%A9'
    assert escape_html_uri('http://www.example.com/00/Weather/CA/Los Angeles#ocean') == \
        'http://www.example.com/00/Weather/CA/Los Angeles#ocean'
    assert escape_html_uri("javascript:if (navigator.browserLanguage == 'fr') window.open('http://www.example.com/~bébé');") == \
        "javascript:if (navigator.browserLanguage == 'fr') window.open('http://www.example.com/~b%C3%A9b%C3%A9');"
    assert _utf8(0x1F600) == list('\U0001F600'.encode('utf-8')) and _utf8(0x7FF) == list('߿'.encode('utf-8'))
    # html-ascii-case-insensitive: only A-Z/a-z fold
    assert compare('ABC', 'abc', HTML_ASCII_CI_COLLATION) == 0 and compare('É', 'é', HTML_ASCII_CI_COLLATION) == -1
    assert substring_after('xAby', 'aB', HTML_ASCII_CI_COLLATION) == 'y'
