"""C20 - schema-aware evaluation assigns sound XSD types and never changes node selection."""
from __future__ import annotations

import base64
import copy
import math
from decimal import Decimal


from vp.core import Disc, Recorder, canon, derive_seed, escape_bucket, h64, hyp_collect, hyp_shrink
from vp.gen import c20_schema as G

PROPERTY = 'C20'
LEVEL = 'exploration'
RULE = ('one hypothesis example = one generated XSD schema spec (built-in atomic types, named/anonymous restrictions '
        'with enumeration/range/pattern/length facets, list, union, simple-content extensions with required/optional/'
        'defaulted/fixed attributes, nested element-only content, nillable, default/fixed, optional target namespace, '
        'qualified/unqualified local elements, XSD 1.0 and 1.1) rendered to XSD text and compiled by xmlschema, 3 '
        'instances generated from the spec by construction (checked with xmlschema validation), 16 path expressions '
        'over the schema names; ElementTree and lxml trees with and without document node. typed/instance-of/arith: '
        'one evaluation per typed element or attribute node; non-trivial = node whose type is a list, union, user '
        'restriction, derived built-in, xsi:type substitution, or whose value comes from a default/fixed constraint; '
        'select: non-trivial = path selecting >= 1 node on an instance with such a node, or with a value predicate; '
        'reapply: one history per instance (no schema -> schema -> None -> same schema on one context, and '
        'apply_schema() on an already iterated node tree), non-trivial = the instance has typed non-union nodes; '
        'distinct by (schema hash, instance hash, node path | path expression + parser | history).')
ASSUMPTIONS = [
    'xmlschema (validator and simple-type decoder) is the trusted schema processor: numbers, booleans, strings, '
    'anyURI and QName values are compared with what it decodes from the same text via canonical lexical forms',
    'xmlschema decodes dates, durations and binaries INTO elementpath datatypes, so for those the reference value is '
    'own code: lexical forms are generated already canonical and compared with the string form of the typed value '
    '(hexBinary upper-cased, base64Binary with whitespace removed)',
    'datatype class of a type = class registered in elementpath.datatypes for its nearest built-in ancestor '
    '(reference table transcribed from the XSD hierarchy; XSD 1.0 schemas use the *10 date classes)',
    'selection invariance is judged modulo the PSVI: attributes and element content supplied by default/fixed value '
    'constraints are part of the schema-validated data model (XDM 3.1 section 3.3.1), so the schema-less run is done '
    'on the instance with those defaults written out; on such instances text()/node() steps give no verdict',
    'value predicates only compare nodes whose typed and untyped comparison with the literal provably agree '
    '(numeric types with small integer literals, xs:string, xs:boolean, xs:date; never nillable, list or union '
    'typed names); parsers 2.0/3.0/3.1 are rotated over (path, instance) pairs',
    'negative instance-of tests use a built-in type of a different primitive family only; positive tests: the nearest '
    'named type, its base and one further ancestor, xs:anySimpleType/xs:anyAtomicType/xs:anyType on a sample of nodes; '
    'nilled elements must fail element(*, T) and match element(*, T?)',
    'arithmetic on union-typed nodes is only probed with one `eq` expression (a known finding makes every operator on '
    'them fail statically); document order between a defaulted attribute node and the element children is not judged',
    'substitution groups, wildcards, mixed content, assertions, identity constraints, ID/IDREF are not generated',
    'a nilled element of a complex type whose simple content is a union or list type is not tested against '
    'element(*, <that simple type>?) (xmlschema is_derived() is not reliable there); xsi:nil is spelled true, 1 and with '
    'surrounding whitespace (valid for xmlschema), explicit false/0 on non-nilled elements',
    'an exception that reaches the harness outside an evaluation call with an elementpath frame in its traceback is '
    'reported as a discrepancy (escape-outside-evaluation), one without such a frame is a harness error',
]
FLOORS = {
    'instance:valid': (0.99, 'instance'),
    'schema:compiled': (0.99, 'schema'),
    'schema:same-name-different-type': (0.10, 'schema'),
    'schema:nested': (0.15, 'schema'),
    'instance:xsi-type': (0.05, 'instance'),
    'instance:defaulted-attr': (0.05, 'instance'),
    'instance:defaulted-elem': (0.03, 'instance'),
    'instance:nil': (0.02, 'instance'),
    'node:list': (0.03, 'node'),
    'node:union': (0.02, 'node'),
    'node:restriction': (0.08, 'node'),
    'node:attr': (0.10, 'node'),
    'node:xsi-type-complex': (0.005, 'node'),
    'node:xsi-type-simple': (0.005, 'node'),
    'path:nonempty': (0.18, 'path'),
    'path:value-pred': (0.05, 'path'),
    'path:attr': (0.10, 'path'),
    'path:attr-context': (0.10, 'path'),
    'node:date-time': (0.10, 'node'),
    'node:date-time-xsd11': (0.04, 'node'),
    'node:date-time-special-year': (0.01, 'node'),
    'schema:xsd1.1': (0.35, 'schema'),
    'history:twin-shared-name': (0.50, 'history:twin'),
    'history:twin-valid': (0.99, 'history:twin'),
    'node:nil-1': (0.005, 'node'),
    'node:nil-padded': (0.003, 'node'),
    'instance:nil-false': (0.02, 'instance'),
    'instance:doc-level-comment-pi': (0.25, 'instance'),
}

XS, XSI = G.XS, G.XSI

# --------------------------------------------------------------------------
# reference tables
# --------------------------------------------------------------------------
# built-in type -> name of the class in elementpath.datatypes (or python class) its values must be instances of
_CLASS = {
    'string': str, 'boolean': bool, 'decimal': Decimal, 'double': float, 'float': 'Float',
    'normalizedString': 'NormalizedString', 'token': 'XsdToken', 'language': 'Language', 'Name': 'Name',
    'NCName': 'NCName', 'NMTOKEN': 'NMToken', 'integer': 'Integer', 'long': 'Long', 'int': 'Int', 'short': 'Short',
    'byte': 'Byte', 'nonNegativeInteger': 'NonNegativeInteger', 'positiveInteger': 'PositiveInteger',
    'nonPositiveInteger': 'NonPositiveInteger', 'negativeInteger': 'NegativeInteger',
    'unsignedLong': 'UnsignedLong', 'unsignedInt': 'UnsignedInt', 'unsignedShort': 'UnsignedShort',
    'unsignedByte': 'UnsignedByte', 'time': 'Time', 'gMonth': 'GregorianMonth', 'gMonthDay': 'GregorianMonthDay',
    'gDay': 'GregorianDay', 'duration': 'Duration', 'dayTimeDuration': 'DayTimeDuration',
    'yearMonthDuration': 'YearMonthDuration', 'dateTimeStamp': 'DateTimeStamp', 'anyURI': 'AnyURI',
    'QName': 'QName', 'hexBinary': 'HexBinary', 'base64Binary': 'Base64Binary',
}
_CLASS_BY_VERSION = {
    '1.0': {'date': 'Date10', 'dateTime': 'DateTime10', 'gYear': 'GregorianYear10', 'gYearMonth': 'GregorianYearMonth10'},
    '1.1': {'date': 'Date', 'dateTime': 'DateTime', 'gYear': 'GregorianYear', 'gYearMonth': 'GregorianYearMonth'},
}
_OWN_REFERENCE = ('date', 'dateTime', 'time', 'gYear', 'gYearMonth', 'gMonth', 'gMonthDay', 'gDay', 'duration',
                  'dayTimeDuration', 'yearMonthDuration', 'dateTimeStamp', 'hexBinary', 'base64Binary')


def class_of(builtin: str, xsd: str):
    import elementpath.datatypes as dt
    c = _CLASS_BY_VERSION[xsd].get(builtin) or _CLASS[builtin]
    return getattr(dt, c) if isinstance(c, str) else c


def wrong_version_class(builtin: str, xsd: str):
    """the class of the OTHER XSD version for the version-dependent types (the *10 classes are subclasses of the
    XSD 1.1 classes, so an isinstance test alone cannot tell a 1.0 value in a 1.1 schema), else None"""
    import elementpath.datatypes as dt
    if xsd == '1.1' and builtin in _CLASS_BY_VERSION['1.0']:
        return getattr(dt, _CLASS_BY_VERSION['1.0'][builtin])
    return None


def collapse(s: str) -> str:
    return ' '.join(s.split())


def canon_py(v) -> str:
    """canonical lexical form of a python/elementpath atomic value"""
    if isinstance(v, bool):
        return 'true' if v else 'false'
    if isinstance(v, int):
        return str(int(v))
    if isinstance(v, Decimal):
        if not v.is_finite():
            return 'NaN' if v.is_nan() else ('INF' if v > 0 else '-INF')
        if v == v.to_integral_value():
            return str(int(v))
        s = format(v, 'f')
        return s.rstrip('0') if '.' in s else s
    if isinstance(v, float):
        if math.isnan(v):
            return 'NaN'
        if math.isinf(v):
            return 'INF' if v > 0 else '-INF'
        return repr(float(v))
    if isinstance(v, str):
        return v
    if hasattr(v, 'local_name') and hasattr(v, 'uri'):
        return '{%s}%s' % (v.uri or '', v.local_name)
    return str(v)


def canon_safe(v) -> str:
    """canon_py that never raises: a value that cannot be rendered is a value that differs"""
    try:
        return canon_py(v)
    except Exception as e:      # e.g. str() of a half-built date object
        return f'<{type(v).__name__}: {type(e).__name__}>'


def ref_canon(builtin: str, lexical: str, decoded) -> str:
    """reference canonical form of one atomic item: own code for the types xmlschema decodes into elementpath
    datatypes, xmlschema's decoded value for the rest"""
    if builtin in _OWN_REFERENCE:
        s = collapse(lexical)
        if builtin == 'hexBinary':
            bytes.fromhex(s)
            return s.upper()
        if builtin == 'base64Binary':
            s = ''.join(s.split())
            base64.b64decode(s, validate=True)
            return s
        return s
    if builtin == 'QName':
        return decoded if decoded.startswith('{') else '{}' + decoded
    return canon_py(decoded)


def type_class(res: dict) -> str:
    """how the item type is derived (bucket component)"""
    if res['variety'] == 'atomic':
        prim = res['builtin'] in G.PRIMITIVES
        if res['user']:
            return 'restriction-of-primitive' if prim else 'restriction-of-derived-builtin'
        return 'builtin-primitive' if prim else 'builtin-derived'
    return res['variety']


# --------------------------------------------------------------------------
# building instances and node records
# --------------------------------------------------------------------------
_SCHEMA_CACHE: dict = {}


def compile_schema(spec):
    import xmlschema
    key = canon(spec)
    got = _SCHEMA_CACHE.get(key)
    if got is None:
        if len(_SCHEMA_CACHE) > 8:
            _SCHEMA_CACHE.clear()
        cls = xmlschema.XMLSchema11 if spec['xsd'] == '1.1' else xmlschema.XMLSchema10
        try:
            got = cls(G.render_xsd(spec))
        except Exception as e:     # a generator bug (counted, floored), never a verdict
            got = e
        _SCHEMA_CACHE[key] = got
    return got


def validate(schema, tree, ns):
    """True/False from the trusted validator; None when the validator itself fails (xmlschema lets an OverflowError
    of a date class escape while trying union members, e.g. '100000000000000000000' against xs:gYear): such
    instances are counted (class instance:validator-error) and not judged"""
    try:
        return schema.is_valid(tree, namespaces=ns)
    except (OverflowError, ArithmeticError):
        return None


def namespaces_of(spec) -> dict:
    ns = {'xs': XS, 'xsi': XSI}
    if spec['tns']:
        ns['t'] = spec['tns']
    return ns


def _qualified(spec, p) -> bool:
    return bool(spec['tns']) and (not p or spec['efd'] == 'qualified')


def _typeref_qname(spec, t: str) -> str:
    if t.startswith('xs:'):
        return '{%s}%s' % (XS, t[3:])
    return ('{%s}%s' % (spec['tns'], t)) if spec['tns'] else t


def _typeref_prefixed(spec, t: str) -> str:
    if t.startswith('xs:'):
        return t
    return ('t:' + t) if spec['tns'] else t


class Built:
    """one instance materialised as a tree, with addresses and typed-node records"""

    def __init__(self, spec, inst, tree_kind: str, materialize: bool):
        if tree_kind.startswith('lxml'):
            import lxml.etree as mod
            self.root = mod.Element(self._tag(spec, inst), nsmap=namespaces_of(spec))
        else:
            import xml.etree.ElementTree as mod
            self.root = mod.Element(self._tag(spec, inst))
        self.mod = mod
        self.spec = spec
        self.materialize = materialize
        self.addr: dict = {}         # element object -> address tuple
        self.records: list = []      # typed node records
        self.flags: set = set()
        self.n_attrs = 0
        self._fill(self.root, inst, (), '/' + self._step(spec, inst))
        if tree_kind in ('lxml-before-doc', 'lxml-both-doc', 'lxml-sib'):
            self.root.addprevious(mod.Comment(' before '))
            self.root.addprevious(mod.ProcessingInstruction('pi', 'x="1"'))
        if tree_kind in ('lxml-after-doc', 'lxml-both-doc', 'lxml-sib'):
            self.root.addnext(mod.ProcessingInstruction('after', 'y'))
            self.root.addnext(mod.Comment('after'))
        self.tree = mod.ElementTree(self.root) if tree_kind.endswith('-doc') else self.root

    @staticmethod
    def _tag(spec, node) -> str:
        d = G.decl_at(spec, node['p'])
        return ('{%s}' % spec['tns'] if _qualified(spec, node['p']) else '') + d['name']

    @staticmethod
    def _step(spec, node) -> str:
        d = G.decl_at(spec, node['p'])
        return ('t:' if _qualified(spec, node['p']) else '') + d['name']

    def _fill(self, elem, node, addr, xpath):
        spec = self.spec
        self.addr[elem] = addr
        decl = G.decl_at(spec, node['p'])
        t = node['xsi'] if node['xsi'] else G.decl_type(spec, decl)
        res = G.resolve(spec, t)
        if node['xsi']:
            self.flags.add('xsi-type')
            elem.set('{%s}type' % XSI, _typeref_prefixed(spec, node['xsi']))
        if node['nil']:
            self.flags.add('nil')
            spelling = 'true' if node['nil'] is True else node['nil']
            elem.set('{%s}nil' % XSI, spelling)
            if spelling != spelling.strip():
                self.flags.add('nil-padded')
            elif spelling == '1':
                self.flags.add('nil-1')
        elif node.get('nilattr'):
            self.flags.add('nil-false')
            elem.set('{%s}nil' % XSI, node['nilattr'])
        # attributes
        present = dict((k, v) for k, v in node['attrs'])
        declared = res['attrs'] if res['variety'] in ('sc', 'eo') else []
        for name, value in node['attrs']:
            elem.set(name, value)
        for a in declared:
            source = 'text'
            if a['name'] in present:
                value = present[a['name']]
            else:
                value = a['default'] if a['default'] is not None else a['fixed']
                if value is None:
                    continue
                source = 'default' if a['default'] is not None else 'fixed'
                self.flags.add('defaulted-attr')
                if self.materialize:
                    elem.set(a['name'], value)
            self.n_attrs += 1
            self.records.append({'kind': 'attr', 'xpath': f'{xpath}/@{a["name"]}', 'addr': addr + ('@' + a['name'],),
                                 'res': G.resolve(spec, a['type']), 'lexical': value, 'source': source,
                                 'typeref': a['type'] if isinstance(a['type'], str) else None,
                                 'p': node['p'], 'attr': a['name'], 'xsi': node['xsi'], 'nil': False})
        # content
        if res['variety'] == 'eo':
            self.records.append({'kind': 'elem', 'xpath': xpath, 'addr': addr, 'res': res, 'lexical': None,
                                 'source': 'nil' if node['nil'] else 'element-only', 'typeref': None, 'p': node['p'],
                                 'attr': None, 'xsi': node['xsi'], 'nil': node['nil'],
                                 'nil_padded': isinstance(node['nil'], str) and node['nil'] != node['nil'].strip()})
            counts: dict = {}
            for i, k in enumerate(node['kids']):
                child = self.mod.SubElement(elem, self._tag(spec, k))
                step = self._step(spec, k)
                counts[step] = counts.get(step, 0) + 1
                self._fill(child, k, addr + (i,), f'{xpath}/{step}[{counts[step]}]')
            return
        text, source = node['text'], 'text'
        if node['nil']:
            source = 'nil'
        elif text is None:
            vc = decl.get('default') if decl.get('default') is not None else decl.get('fixed')
            if vc is not None:
                source = 'default' if decl.get('default') is not None else 'fixed'
                self.flags.add('defaulted-elem')
                lexical = vc
                if self.materialize:
                    text = vc
            else:
                source = 'empty'
        elem.text = text
        lexical = None if node['nil'] else (node['text'] if node['text'] is not None else
                                            (decl.get('default') if decl.get('default') is not None
                                             else decl.get('fixed') if decl.get('fixed') is not None else ''))
        self.records.append({'kind': 'elem', 'xpath': xpath, 'addr': addr, 'res': res, 'lexical': lexical,
                             'source': source, 'typeref': t if isinstance(t, str) else None, 'p': node['p'],
                             'attr': None, 'xsi': node['xsi'], 'nil': node['nil'],
                             'nil_padded': isinstance(node['nil'], str) and node['nil'] != node['nil'].strip()})


def xs_component(schema, spec, rec):
    """xmlschema simple type component of a record, found by OWN navigation (particle indexes of the spec)"""
    if rec['xsi']:
        t = schema.maps.types[_typeref_qname(spec, rec['xsi'])]
    else:
        xe = schema.elements[spec['root']['name']] if not spec['tns'] else \
            schema.maps.elements['{%s}%s' % (spec['tns'], spec['root']['name'])]
        for i in rec['p']:
            xe = xe.type.content[i]
        t = xe.type
    if rec['kind'] == 'attr':
        return t.attributes[rec['attr']].type
    return t if t.is_simple() else t.content


def expected_items(schema, spec, rec):
    """[(builtin of the item, canonical reference value, item class)] or None for nilled; raises on generator bugs"""
    if rec['nil']:
        return []
    res = G.simple_of(rec['res'])
    comp = xs_component(schema, spec, rec)
    ns = namespaces_of(spec)
    lexical = rec['lexical']

    def atomic(res, comp, lex):
        dec = comp.decode(lex, namespaces=ns)
        return (res['builtin'], ref_canon(res['builtin'], lex, dec), type_class(res))

    def one(res, comp, lex):
        if res['variety'] == 'atomic':
            return [atomic(res, comp, lex)]
        if res['variety'] == 'list':
            item_comp = comp
            while not hasattr(item_comp, 'item_type'):
                item_comp = item_comp.base_type
            item_comp = item_comp.item_type
            return [x for it in lex.split() for x in one(res['item'], item_comp, it)]
        # union: the first member type, in order, for which the text is valid (XSD Part 2, 2.5.1.3)
        for i, (ref, m) in enumerate(zip(res['refs'], res['members'])):
            mc = schema.maps.types[_typeref_qname(spec, ref)]
            if mc.is_valid(lex, namespaces=ns):
                pos = 'first-member/' if i == 0 else 'later-member/'      # see union_slot()
                return [(b, c, pos + k) for b, c, k in one(m, mc, lex)]
        raise AssertionError(f'no union member accepts {lex!r}')

    return one(res, comp, lexical)


# --------------------------------------------------------------------------
# evaluation helpers
# --------------------------------------------------------------------------
_PARSERS = None


def parser_classes():
    global _PARSERS
    if _PARSERS is None:
        from elementpath import XPath2Parser
        from elementpath.xpath30 import XPath30Parser
        from elementpath.xpath31 import XPath31Parser
        _PARSERS = [('2.0', XPath2Parser), ('3.0', XPath30Parser), ('3.1', XPath31Parser)]
    return _PARSERS


class Evaluator:
    """parsers bound / not bound to the schema proxy, tokens cached per expression text"""

    def __init__(self, spec, schema):
        self.ns = namespaces_of(spec)
        self.xsd = spec['xsd']       # the schema-less parser casts untyped text by the same XSD version
        self.proxy = schema.xpath_proxy if schema is not None else None
        self.parsers: dict = {}
        self.tokens: dict = {}

    def token(self, expr: str, pidx: int, with_schema: bool):
        key = (expr, pidx, with_schema)
        tok = self.tokens.get(key)
        if tok is None:
            pk = (pidx, with_schema)
            parser = self.parsers.get(pk)
            if parser is None:
                cls = parser_classes()[pidx][1]
                parser = cls(namespaces=self.ns, schema=self.proxy) if with_schema else \
                    cls(namespaces=self.ns, xsd_version=self.xsd)
                self.parsers[pk] = parser
            tok = self.tokens[key] = parser.parse(expr)
        return tok

    def context(self, tree, with_schema: bool):
        from elementpath import XPathContext
        if with_schema:
            return XPathContext(tree, namespaces=self.ns, schema=self.proxy)
        return XPathContext(tree, namespaces=self.ns)

    def results(self, tree, expr: str, pidx: int, with_schema: bool):
        return self.token(expr, pidx, with_schema).get_results(self.context(tree, with_schema))

    def nodes(self, tree, expr: str, pidx: int, with_schema: bool):
        return list(self.token(expr, pidx, with_schema).select(self.context(tree, with_schema)))


def err_code(e: BaseException) -> str:
    code = getattr(e, 'code', None)
    if isinstance(code, str):
        return code.rsplit(':', 1)[-1]
    return type(e).__name__


def esc_bucket(check: str, e: BaseException) -> str:
    b = escape_bucket('C20', e)           # C20/escape/<Type>@<site>
    code = getattr(e, 'code', None)
    return b.replace('C20/escape/', f'C20/{check}/escape/') + (f'/{err_code(e)}' if isinstance(code, str) else '')


# --------------------------------------------------------------------------
# sub-check: typed values, instance of, arithmetic (per typed node)
# --------------------------------------------------------------------------

def _literal_for(builtin: str, canonical: str) -> str | None:
    """XPath literal/constructor denoting the reference value"""
    fam = G.family_of(builtin)
    if fam == 'int':
        return canonical if not canonical.startswith('-') else f'({canonical})'
    if fam == 'decimal':
        return f"xs:decimal('{canonical}')"
    if fam in ('double', 'float'):
        return f"xs:{fam}('{canonical}')"
    if fam == 'boolean':
        return f'{canonical}()'
    if builtin in G.DATE_TIME_TYPES or builtin in ('duration', 'dayTimeDuration', 'yearMonthDuration'):
        # built by the same parser, i.e. with the XSD version of the schema
        return f"xs:{builtin}('{canonical}')"
    if builtin in G.STRING_FAMILY + G.NAME_FAMILY + ('language', 'NMTOKEN'):
        if "'" in canonical:
            return None
        return "'" + canonical + "'"
    return None


def _negative_type(prims: set) -> str:
    """a built-in type of a primitive family none of the (possible) item types belongs to"""
    for cand, p in (('xs:boolean', 'boolean'), ('xs:date', 'date'), ('xs:hexBinary', 'hexBinary'),
                    ('xs:duration', 'duration')):
        if p not in prims:
            return cand
    return 'xs:gDay'


def judge_nodes(case, rec: Recorder | None = None) -> list[Disc]:
    """typed value, instance-of and arithmetic checks on every typed node of every instance"""
    spec = case['spec']
    discs: list[Disc] = []
    schema = compile_schema(spec)
    if isinstance(schema, Exception):
        if rec is not None:
            rec.cls('schema')
            rec.notes.append('schema does not compile: ' + str(schema)[:200])
        return discs
    ev = Evaluator(spec, schema)
    ns = ev.ns
    xsd = spec['xsd']
    shash = h64(spec) if rec is not None else 0
    if rec is not None:
        rec.cls('schema')
        rec.cls('schema:compiled')
        for c in schema_classes(spec):
            rec.cls(c)
    for ii, inst in enumerate(case['instances']):
        b = Built(spec, inst, case['tree'], False)
        valid = validate(schema, b.tree, ns)
        if rec is not None:
            rec.cls('instance')
            rec.cls('instance:valid' if valid else 'instance:invalid' if valid is False else 'instance:validator-error')
            if case['tree'] in ('lxml-before-doc', 'lxml-after-doc', 'lxml-both-doc', 'lxml-sib'):
                rec.cls('instance:doc-level-comment-pi')
            for f in b.flags:
                rec.cls('instance:' + f)
        if valid is None:
            continue
        if not valid:
            if rec is not None and len(rec.notes) < 5:
                rec.notes.append('invalid instance (generator bug): ' +
                                 str(next(schema.iter_errors(b.tree, namespaces=ns)).reason)[:200])
            continue
        ihash = h64(inst) if rec is not None else 0
        pidx = ii % 3
        for r in b.records:
            res = r['res']
            sres = G.simple_of(res)
            classes = ['node', 'node:' + r['kind']]
            nontrivial = r['source'] in ('default', 'fixed', 'nil') or bool(r['xsi'])
            if sres is not None:
                if sres['variety'] == 'atomic':
                    classes.append('type:' + sres['builtin'])
                dt_item = sres if sres['variety'] == 'atomic' else sres['item'] if sres['variety'] == 'list' else None
                if (dt_item is not None and dt_item['builtin'] in G.DATE_TIME_TYPES) or (
                        sres['variety'] == 'union' and any(m['variety'] == 'atomic' and m['builtin'] in G.DATE_TIME_TYPES
                                                           for m in sres['members'])):
                    classes.append('node:date-time')
                    if xsd == '1.1':
                        classes.append('node:date-time-xsd11')
                    lex = (r['lexical'] or '').strip()
                    if lex.startswith(('-0', '-1', '0000', '1000', '1234')) and not lex.startswith(('--', '-0-')):
                        classes.append('node:date-time-special-year')
                if sres['variety'] in ('list', 'union'):
                    classes.append('node:' + sres['variety'])
                    nontrivial = True
                elif sres['user']:
                    classes.append('node:restriction')
                    nontrivial = True
                elif sres['builtin'] not in G.PRIMITIVES:
                    nontrivial = True
                if res['variety'] == 'sc':
                    classes.append('node:simple-content')
                    if r['xsi'] and r['kind'] == 'elem':
                        classes.append('node:xsi-type-complex')
                elif r['xsi'] and r['kind'] == 'elem':
                    classes.append('node:xsi-type-simple')
            if r['source'] in ('default', 'fixed'):
                classes.append('node:value-constraint')
            ds = _judge_node(ev, b, spec, schema, r, pidx, xsd)
            if r.get('nil_padded'):
                # xsi:nil spelled with surrounding whitespace (' true ', '1 '): a class of its own
                classes.append('node:nil-padded')
                try:
                    seen_nilled = ev.results(b.tree, f'nilled({r["xpath"]})', pidx, True)
                except Exception as e:
                    seen_nilled = repr(e)
                if seen_nilled != [True] and seen_nilled is not True:
                    # the padded spelling is not recognised at all: that is the failure, whatever else follows
                    for d in ds:
                        d.bucket = d.bucket.replace('C20/', 'C20/nil-padded/', 1)
                    ds.append(Disc('C20/nil-padded/nilled-function', True, repr(seen_nilled),
                                   f'nilled({r["xpath"]}) with xsi:nil={r["nil"]!r}'))
            elif r['nil'] == '1':
                classes.append('node:nil-1')
            discs.extend(ds)
            if rec is not None:
                rec.case([shash, ihash, r['xpath']], nontrivial=nontrivial, classes=classes,
                         sample={'check': 'nodes', 'xpath': r['xpath'], 'type': short_type(r), 'source': r['source'],
                                 'lexical': r['lexical']})
    return discs


def union_slot(sres, exp) -> str:
    """container slot of a bucket; unions whose text is rejected by an earlier member (the valid member is not the
    first one) are a class of their own (known finding: members are tried by python constructor only)"""
    if sres['variety'] == 'union' and exp and exp[0][2].startswith('later-member/'):
        return 'union-later'
    return sres['variety']


def _src(r) -> str:
    """where the lexical value comes from, as a bucket component (text and value constraints behave alike)"""
    return r['source'] if r['source'] in ('nil', 'empty') else 'value'


def short_type(r) -> str:
    res = G.simple_of(r['res'])
    if res is None:
        return 'element-only'
    if res['variety'] == 'atomic':
        return ('restriction of ' if res['user'] else '') + 'xs:' + res['builtin']
    if res['variety'] == 'list':
        return 'list of ' + ('xs:' + res['item']['builtin'])
    return 'union'


def _judge_node(ev, b, spec, schema, r, pidx, xsd) -> list[Disc]:
    from elementpath.datatypes import UntypedAtomic
    discs: list[Disc] = []
    res = r['res']
    sres = G.simple_of(res)
    tc = type_class(sres) if sres is not None else 'element-only'
    where = f'{r["kind"]} {r["xpath"]} type={short_type(r)} source={r["source"]} lexical={r["lexical"]!r} ' \
            f'xsi={r["xsi"]} tree={type(b.tree).__module__.split(".")[0]} parser={parser_classes()[pidx][0]}'
    kind_fn = 'element' if r['kind'] == 'elem' else 'attribute'

    # ---- (1)+(2) typed value: class and value -------------------------------------------------------
    exp = None
    if sres is not None:
        exp = expected_items(schema, spec, r)
        try:
            got = ev.results(b.tree, f'data({r["xpath"]})', pidx, True)
        except Exception as e:
            discs.append(Disc(esc_bucket(f'typed/{union_slot(sres, exp)}', e) + f'/{_src(r)}/{tc}', [c for _, c, _ in exp],
                              repr(e), where))
            got = None
        if got is not None:
            if not isinstance(got, list):
                got = [got]
            container = union_slot(sres, exp)
            if len(got) != len(exp):
                discs.append(Disc(f'C20/typed/{container}/count/{_src(r)}/{tc}', [c for _, c, _ in exp],
                                  [repr(x) for x in got], where))
            else:
                for (bi, cv, k), g in zip(exp, got):
                    cls = class_of(bi, xsd)
                    other = wrong_version_class(bi, xsd)
                    # version-dependent classes: the metaclass makes isinstance() true across versions, use the MRO
                    is_inst = cls in type(g).__mro__ if bi in _CLASS_BY_VERSION['1.0'] else isinstance(g, cls)
                    ok_cls = is_inst and not (cls is not bool and isinstance(g, bool)) \
                        and not isinstance(g, UntypedAtomic) and not (other is not None and other in type(g).__mro__)
                    if not ok_cls:
                        discs.append(Disc(f'C20/typed/{container}/class/{k}',
                                          f'instance of {cls.__name__} (xs:{bi}, XSD {xsd})',
                                          f'{type(g).__name__} {g!r}', where))
                    gc = canon_safe(g)
                    if gc != cv:
                        discs.append(Disc(f'C20/typed/{container}/value/{k}/{G.builtin_primitive(bi)}',
                                          cv, gc, where))

    # ---- (3) instance of element(*, T) / attribute(*, T) ------------------------------------------------
    batch: list = []     # (expression, expected, tag, (check, slot, item class, class_first)): one evaluation per node
    tests: list = []     # (sequence type text, expected bool, tag)
    chain = list(res['chain']) if res['variety'] != 'eo' else []
    hsel = h64([r['xpath'], r['lexical'], chain])

    names = G.types_by_name(spec)

    def tagged(t, tag):
        if not t.startswith('xs:') and not spec['tns']:
            return tag + '@unprefixed-type'
        if not t.startswith('xs:') and names[t][0] in ('sc', 'scext'):
            return tag + '@complex-type'
        if t == 'xs:NMTOKENS':
            return tag + '@builtin-list-type'
        if not t.startswith('xs:') and not G._qname_free(G.resolve(spec, t)):
            return tag + '@qname-derived-type'
        if not t.startswith('xs:'):
            rt = G.resolve(spec, t)
            if rt['variety'] == 'atomic' and rt['facet'] is not None and rt['facet'][0] == 'pattern':
                return tag + '@pattern-type'
        return tag

    named = [t for t in chain if t not in ('xs:anyAtomicType', 'xs:anySimpleType')]
    if named:
        tests.append((named[0], True, tagged(named[0], 'nearest-named')))
        if len(named) > 1:
            tests.append((named[1], True, tagged(named[1], 'base')))
        if len(named) > 2:
            t = named[2 + hsel % (len(named) - 2)]
            tests.append((t, True, tagged(t, 'base')))
    if res['variety'] != 'eo':
        if hsel % 4 == 0:
            tests.append(('xs:anySimpleType', True, 'anySimpleType'))
        if sres['variety'] == 'atomic' and hsel % 4 == 1:
            tests.append(('xs:anyAtomicType', True, 'anyAtomicType'))
    if r['kind'] == 'elem' and (hsel % 5 == 0 or res['variety'] == 'eo'):
        tests.append(('xs:anyType', True, 'ur-type@anyType'))
    if sres is not None and exp is not None:
        prims = {G.builtin_primitive(bi) for bi, _, _ in exp}
        if sres['variety'] == 'union':
            prims |= {G.builtin_primitive(m['builtin']) for m in sres['members'] if m['variety'] == 'atomic'}
        if sres['variety'] == 'list':
            prims.add(G.builtin_primitive(sres['item']['builtin']))
        if exp or sres['variety'] == 'atomic':
            tests.append((_negative_type(prims), False, 'unrelated'))
    if tests:
        def st_text(t, opt=False):
            return f'{kind_fn}(*, {_typeref_prefixed(spec, t)}{"?" if opt else ""})'
        exprs = []
        for t, want, tag in tests:
            if r['nil']:
                # a nilled element matches element(*, T?) only (XPath 3.1 section 2.5.5.3)
                exprs.append((f'{r["xpath"]} instance of {st_text(t)}', False, tag + '/nilled'))
                if want and res['variety'] == 'sc' and sres['variety'] != 'atomic' and \
                        not (not t.startswith('xs:') and names[t][0] in ('sc', 'scext')) and t != 'xs:anyType':
                    # no verdict: the derivation of a complex type from the union/list type of its simple content is
                    # decided by xmlschema's is_derived(), which loses it after two extension steps
                    continue
                if want:
                    exprs.append((f'{r["xpath"]} instance of {st_text(t, True)}', True, tag + '/nilled-optional'))
            else:
                exprs.append((f'{r["xpath"]} instance of {st_text(t)}', want, tag))
        batch += [(e, want, tag, ('instance-of', union_slot(sres, exp) if sres is not None else 'element-only', tc, False))
                  for e, want, tag in exprs]

    # ---- (4) arithmetic / comparison use the typed value ---------------------------------------------------
    if sres is not None and exp and not r['nil']:
        exprs = []
        x = r['xpath']
        if sres['variety'] == 'list':
            bi, cv, k = exp[hsel % len(exp)]
            lit = _literal_for(bi, cv)
            if lit is not None and cv != 'NaN':
                exprs.append((f'{x} = {lit}', True, 'general-eq'))
            exprs.append((f'count(data({x})) = {len(exp)}', True, 'count'))
        elif sres['variety'] == 'union':
            # any operator on a union-typed node is rejected statically (known finding): one canary expression
            bi, cv, k = exp[0]
            lit = _literal_for(bi, cv)
            if lit is not None and cv != 'NaN':
                exprs.append((f'{x} eq {lit}', True, 'value-eq'))
        elif len(exp) == 1:
            bi, cv, k = exp[0]
            lit = _literal_for(bi, cv)
            fam = G.family_of(bi)
            if lit is not None:
                nan = cv == 'NaN'
                exprs.append((f'{x} = {lit}', not nan, 'general-eq'))
                exprs.append((f'{x} eq {lit}', not nan, 'value-eq'))
                exprs.append((f'{x} != {lit}', nan, 'general-ne'))
                if fam in ('int', 'decimal'):
                    exprs.append((f'{x} lt {lit} + 1', True, 'value-lt'))
                    exprs.append((f'({x} + 1) eq ({lit} + 1)', True, 'plus-one'))
                    exprs.append((f'({x} + 1) instance of xs:{"integer" if fam == "int" else "decimal"}', True,
                                  'plus-one-type'))
                    if fam == 'decimal':
                        exprs.append((f'({x} + 1) instance of xs:double', False, 'plus-one-not-double'))
                if fam in ('double', 'float') and not nan:
                    exprs.append((f'({x} + 1) eq ({lit} + 1)', True, 'plus-one'))
                    exprs.append((f'({x} + 1) instance of xs:{fam}', True, 'plus-one-type'))
                if fam == 'date':
                    exprs.append((f"({x} + xs:dayTimeDuration('P1D')) gt {lit}", True, 'date-plus'))
                if fam == 'string' or bi in G.STRING_FAMILY + G.NAME_FAMILY + ('language', 'NMTOKEN'):
                    exprs.append((f'string-length({x}) = {len(cv)}', True, 'string-length'))
        if exprs:
            k = exp[0][2] + '/' + G.builtin_primitive(exp[0][0])
            batch += [(e, want, tag, ('arith', union_slot(sres, exp), k, True)) for e, want, tag in exprs]
    if batch:
        _run_boolean_batch(ev, b, batch, pidx, discs, where)
    return discs


def _run_boolean_batch(ev, b, exprs, pidx, discs, where):
    """evaluate `(e1, e2, ...)` in one go; on an exception evaluate one by one to attribute it.

    bucket = C20/<check>/<container or root-cause class>/<failure kind>/<item type class>/<test tag>
    (class_first: C20/<check>/<container>/<item type class>/<primitive>/<failure kind>/<test tag>)"""
    batch = '(' + ', '.join(f'({x[0]})' for x in exprs) + ')'
    try:
        got = ev.results(b.tree, batch, pidx, True)
        if not isinstance(got, list):
            got = [got]
        if len(got) != len(exprs):
            raise ValueError('batch result length')
    except Exception:
        got = []
        for e, want, tag, meta in exprs:
            try:
                g = ev.results(b.tree, e, pidx, True)
                got.append(g[0] if isinstance(g, list) and len(g) == 1 else g)
            except Exception as ex:
                got.append(ex)
    for (e, want, tag, (check, slot, tc, class_first)), g in zip(exprs, got):
        if '@' in tag:       # root-cause class of the tested type overrides the container slot
            head, _, rest = tag.partition('@')
            cls, sep, tail = rest.partition('/')
            slot, tag = cls, head + sep + tail
        if isinstance(g, BaseException):
            bucket = esc_bucket(f'{check}/{slot}/{tc}' if class_first else f'{check}/{slot}', g) + \
                (f'/{tag}' if class_first else f'/{tc}/{tag}')
            discs.append(Disc(bucket, want, repr(g), f'{e} :: {where}'))
        elif g is not want:
            kind = f'expected-{str(want).lower()}'
            bucket = f'C20/{check}/{slot}/{tc}/{kind}/{tag}' if class_first else f'C20/{check}/{slot}/{kind}/{tc}/{tag}'
            discs.append(Disc(bucket, want, repr(g), f'{e} :: {where}'))


def schema_classes(spec) -> list[str]:
    out = []
    by_name: dict = {}
    depth = 0
    for p, d in G._walk_decls(spec):
        depth = max(depth, len(p))
        by_name.setdefault(d['name'], set()).add(canon(G.decl_type(spec, d)))
    if any(len(v) > 1 for v in by_name.values()):
        out.append('schema:same-name-different-type')
    if depth >= 2:
        out.append('schema:nested')
    if spec['tns']:
        out.append('schema:tns-' + spec['efd'])
    out.append('schema:xsd' + spec['xsd'])
    return out


# --------------------------------------------------------------------------
# sub-check: selection invariance
# --------------------------------------------------------------------------

def _address(b: Built, node):
    from elementpath.xpath_nodes import AttributeNode, DocumentNode, ElementNode, TextNode
    if isinstance(node, DocumentNode):
        return ('#document',)
    if isinstance(node, ElementNode):
        return b.addr[node.value]
    if isinstance(node, AttributeNode):
        return b.addr[node.parent.value] + ('@' + node.name,)
    if isinstance(node, TextNode):
        sibs = [c for c in node.parent.children if isinstance(c, TextNode)]
        idx = next(i for i, c in enumerate(sibs) if c is node)
        return b.addr[node.parent.value] + (f'#text{idx}',)
    # comments / processing instructions (document level or inside elements): position among the parent's children
    parent = node.parent
    base = ('#document',) if parent is None or isinstance(parent, DocumentNode) else b.addr[parent.value]
    idx = next((i for i, c in enumerate(parent.children) if c is node), -1) if parent is not None else -1
    return base + (f'#{type(node).__name__}{idx}',)


def _kind_of_addr(a) -> str:
    last = a[-1] if a else 0
    if isinstance(last, str):
        return 'attribute' if last.startswith('@') else 'text' if last.startswith('#text') else 'other'
    return 'element'


def judge_select(case, rec: Recorder | None = None) -> list[Disc]:
    spec = case['spec']
    discs: list[Disc] = []
    schema = compile_schema(spec)
    if isinstance(schema, Exception):
        return discs
    ev = Evaluator(spec, schema)
    ns = ev.ns
    shash = h64(spec) if rec is not None else 0
    for ii, inst in enumerate(case['instances']):
        A = Built(spec, inst, case['tree'], False)      # evaluated with the schema
        if not validate(schema, A.tree, ns):
            continue
        B = Built(spec, inst, case['tree'], True)       # defaults written out, evaluated without the schema
        ihash = h64(inst) if rec is not None else 0
        inst_nontrivial = bool(A.flags) or any(
            (G.simple_of(r['res']) or {}).get('variety') in ('list', 'union') or (G.simple_of(r['res']) or {}).get('user')
            for r in A.records)
        for pi, (path, feats) in enumerate(case['paths']):
            pidx = (pi + ii) % 3
            if 'text-step' in feats and 'defaulted-elem' in A.flags:
                if rec is not None:
                    rec.cls('path:skipped-text-on-defaulted')
                continue
            ra = rb = None
            try:
                ra = [_address(A, n) for n in ev.nodes(A.tree, path, pidx, True)]
            except Exception as e:
                ea = e
            try:
                rb = [_address(B, n) for n in ev.nodes(B.tree, path, pidx, False)]
            except Exception as e:
                eb = e
            vp = 'no-value-pred' if 'value-pred' not in feats else \
                'value-pred-boolean' if 'true()' in path or 'false()' in path else 'value-pred'
            # class of the known defect "a leading wildcard step skips the root element of a document-less tree"
            ctx = 'elem-root-leading-wildcard' if not case['tree'].endswith('-doc') and \
                path.startswith(('//*', '/*')) else 'general'
            pname = parser_classes()[pidx][0]
            where = f'path={path} parser={pname} tree={case["tree"]} instance#{ii}'
            if ra is None and rb is None:
                if err_code(ea) != err_code(eb):
                    discs.append(Disc(f'C20/select/{ctx}/different-error/{vp}', repr(eb), repr(ea), where))
            elif ra is None:
                discs.append(Disc(esc_bucket(f'select/{ctx}', ea) + f'/{vp}', rb, repr(ea), where))
            elif rb is None:
                discs.append(Disc(f'C20/select/{ctx}/error-only-without-schema/{vp}/{err_code(eb)}', repr(eb), ra, where))
            elif ra != rb:
                sa, sb = set(ra), set(rb)
                if sa == sb:
                    kind, nk = 'order-or-duplicates', _kind_of_addr(ra[0])
                else:
                    extra, missing = sorted(sa - sb, key=repr), sorted(sb - sa, key=repr)
                    kind = 'extra' if extra and not missing else 'missing' if missing and not extra else 'both'
                    nk = _kind_of_addr((extra + missing)[0])
                discs.append(Disc(f'C20/select/{ctx}/{kind}/{vp}/{nk}', rb, ra, where))
            if rec is not None:
                classes = ['path'] + ['path:' + f for f in feats]
                if 'attr-step' in feats or 'attr-pred' in feats:
                    classes.append('path:attr')
                nonempty = bool(rb)
                if nonempty:
                    classes.append('path:nonempty')
                rec.case([shash, ihash, path, pname],
                         nontrivial=(nonempty and inst_nontrivial) or 'value-pred' in feats, classes=classes,
                         sample={'check': 'select', 'path': path, 'parser': pname, 'selected': len(rb or [])})
    return discs


# --------------------------------------------------------------------------
# sub-check: re-applying / removing the schema on a context that was already used
# --------------------------------------------------------------------------

def _proxy_across_build(spec, b, ns, pidx, probe, all_nodes):
    import xmlschema
    from elementpath import XPathContext
    cls = xmlschema.XMLSchema11 if spec['xsd'] == '1.1' else xmlschema.XMLSchema10
    pcls = parser_classes()[pidx][1]
    schema2 = cls(G.render_xsd(spec), build=False)
    proxy = schema2.xpath_proxy
    try:
        pcls(namespaces=ns, schema=proxy).parse(probe).get_results(XPathContext(b.tree, namespaces=ns, schema=proxy))
    except Exception:        # whatever an unbuilt schema gives is not judged
        pass
    schema2.build()
    parser = pcls(namespaces=ns, schema=proxy)
    vals = parser.parse(probe).get_results(XPathContext(b.tree, namespaces=ns, schema=proxy))
    nodes = [_address(b, n) for n in parser.parse(all_nodes).select(XPathContext(b.tree, namespaces=ns, schema=proxy))]
    return vals, nodes


def judge_reapply(case, rec: Recorder | None = None) -> list[Disc]:
    from elementpath.datatypes import UntypedAtomic
    spec = case['spec']
    discs: list[Disc] = []
    schema = compile_schema(spec)
    if isinstance(schema, Exception):
        return discs
    ev = Evaluator(spec, schema)
    ns = ev.ns
    for ii, inst in enumerate(case['instances'][:2]):
        b = Built(spec, inst, case['tree'], False)
        if not validate(schema, b.tree, ns):
            continue
        pidx = ii % 3
        # nodes with a non-empty typed value of a non-union type (unions and empty values have their own buckets
        # in the 'nodes' sub-check and would only abort the probe expression here)
        typed = [r for r in b.records if G.simple_of(r['res']) is not None and not r['nil'] and
                 (G.simple_of(r['res'])['variety'] == 'atomic' or
                  (G.simple_of(r['res'])['variety'] == 'list' and r['lexical'].split()))]
        probe = '(' + ', '.join(['0'] + [f"'|', data({r['xpath']})" for r in typed]) + ')'
        all_nodes = '(//* | //@*)'
        where = f'tree={case["tree"]} instance#{ii} parser={parser_classes()[pidx][0]}'

        def run(ctx, with_schema, expr):
            return ev.token(expr, pidx, with_schema).get_results(ctx)

        def addrs(ctx, with_schema):
            return [_address(b, n) for n in ev.token(all_nodes, pidx, with_schema).select(ctx)]

        try:
            fresh = ev.results(b.tree, probe, pidx, True)
            fresh_nodes = [_address(b, n) for n in ev.nodes(b.tree, all_nodes, pidx, True)]
            plain = ev.results(b.tree, probe, pidx, False)
            plain_nodes = [_address(b, n) for n in ev.nodes(b.tree, all_nodes, pidx, False)]
            # history: no schema (touch all lazy attributes) -> set schema -> remove schema -> set again
            ctx = ev.context(b.tree, False)
            h0 = run(ctx, False, probe)
            n0 = addrs(ctx, False)
            ctx.schema = ev.proxy
            h1 = run(ctx, True, probe)
            n1 = addrs(ctx, True)
            ctx.schema = None
            h2 = run(ctx, False, probe)
            n2 = addrs(ctx, False)
            ctx.schema = ev.proxy
            h3 = run(ctx, True, probe)
            n3 = addrs(ctx, True)
            # history: node tree built and fully iterated (lazy attribute nodes exist, untyped), then the public
            # apply_schema() of the root node, then evaluation on a context made from that node tree
            from elementpath import XPathContext, get_node_tree
            root_node = get_node_tree(b.tree, namespaces=ns)
            for _ in root_node.iter():
                pass
            root_node.apply_schema(ev.proxy)
            ctx2 = XPathContext(root_node, namespaces=ns)
            h4 = run(ctx2, True, probe)
            n4 = addrs(ctx2, True)
            h5 = n5 = None
            if ii == 0:
                # history: ONE proxy object taken from a schema that is not built yet, used once (nodes come out
                # untyped: no verdict), then the schema is built and the same proxy is used again
                h5, n5 = _proxy_across_build(spec, b, ns, pidx, probe, all_nodes)
        except Exception as e:
            discs.append(Disc(esc_bucket('reapply', e), 'no exception', repr(e), where))
            if rec is not None:
                rec.case([h64(spec), h64(inst), 'reapply'], nontrivial=False, classes=['history'])
            continue

        def sig(vals):
            return [(type(v).__name__, canon_safe(v)) for v in vals]

        for tag, got, want in (('set-after-use', h1, fresh), ('set-again', h3, fresh), ('first-use', h0, plain),
                               ('removed', h2, plain), ('apply-on-iterated-tree', h4, fresh),
                               ('proxy-kept-across-build', h5, fresh)):
            if got is not None and sig(got) != sig(want):
                i = next((k for k, (x, y) in enumerate(zip(sig(got), sig(want))) if x != y), min(len(got), len(want)))
                discs.append(Disc(f'C20/reapply/values/{tag}', sig(want)[max(0, i - 1):i + 2], sig(got)[max(0, i - 1):i + 2],
                                  where + f' differs at item {i}'))
        for tag, got, want in (('set-after-use', n1, fresh_nodes), ('set-again', n3, fresh_nodes),
                               ('first-use', n0, plain_nodes), ('removed', n2, plain_nodes),
                               ('apply-on-iterated-tree', n4, fresh_nodes),
                               ('proxy-kept-across-build', n5, fresh_nodes)):
            if got is None:
                continue
            # compared as sets: document order between a defaulted attribute and the children is not judged here
            if sorted(got, key=repr) != sorted(want, key=repr):
                d = sorted(set(got) ^ set(want), key=repr)
                discs.append(Disc(f'C20/reapply/nodes/{tag}/{_kind_of_addr(d[0]) if d else "duplicates"}',
                                  want, got, where))
        if rec is not None:
            rec.case([h64(spec), h64(inst), 'reapply'], nontrivial=bool(typed) and
                     sum(1 for v in fresh if not isinstance(v, UntypedAtomic)) > len(typed) + 1,
                     classes=['history'] + (['history:defaulted-attr'] if 'defaulted-attr' in b.flags else []),
                     sample={'check': 'reapply', 'typed_nodes': len(typed), 'nodes': len(fresh_nodes)})
    return discs


# --------------------------------------------------------------------------
# module interface
# --------------------------------------------------------------------------
_STRAT = G.case()
_JUDGES = {'nodes': judge_nodes, 'select': judge_select, 'reapply': judge_reapply}


def judge_twin(case, rec: Recorder | None = None) -> list[Disc]:
    """Two schema objects in one process whose named types share {ns}name but not the base type, used alternately:
    twin, A (first instance), twin (in the `all` job A has been evaluated just before as well). Every evaluation is judged like in `nodes` (same buckets: the failing input class is the same)."""
    tw = case.get('twin')
    if not tw:
        return []
    a = {'spec': case['spec'], 'instances': case['instances'][:1], 'paths': [], 'tree': case['tree']}
    t = {'spec': tw['spec'], 'instances': tw['instances'], 'paths': [], 'tree': case['tree']}
    discs: list[Disc] = []
    for sub in (t, a, t):
        discs += judge_nodes(sub, None)
    if rec is not None:
        own = G.types_by_name(case['spec'])
        shared = [x['name'] for x in tw['spec']['types'] if x['name'] in own]
        ts = compile_schema(tw['spec'])
        ok = not isinstance(ts, Exception) and all(
            validate(ts, Built(tw['spec'], i, case['tree'], False).tree, namespaces_of(tw['spec'])) for i in tw['instances'])
        rec.case([h64(case['spec']), h64(tw), 'twin'], nontrivial=bool(shared),
                 classes=['history:twin'] + (['history:twin-shared-name'] if shared else []) +
                 (['history:twin-valid'] if ok else []),
                 sample={'check': 'twin', 'shared_type_names': shared})
    # the same discrepancy is seen twice by construction
    seen, out = set(), []
    for d in discs:
        if (d.bucket, d.detail) not in seen:
            seen.add((d.bucket, d.detail))
            out.append(d)
    return out


def _guard(name, fn, case, rec) -> list[Disc]:
    """An exception that passed through elementpath code and reached the harness outside an evaluation call is a
    discrepancy (a change in elementpath must not crash the shard); one with no elementpath frame is a harness bug
    and propagates."""
    try:
        return fn(case, rec)
    except Exception as e:
        b = escape_bucket('C20', e)
        if b.endswith('@outside'):
            raise
        return [Disc(b.replace('C20/escape/', f'C20/{name}/escape-outside-evaluation/'), 'no exception', repr(e),
                     f'tree={case["tree"]}')]


def judge_all(case, rec: Recorder | None = None) -> list[Disc]:
    discs = _guard('nodes', judge_nodes, case, rec)
    discs += _guard('select', judge_select, case, rec)
    discs += _guard('reapply', judge_reapply, case, rec)
    discs += _guard('twin', judge_twin, case, rec)
    return discs


_JUDGES['all'] = judge_all
_JUDGES['twin'] = judge_twin


def selftest():
    # reference tables and canonical forms (XSD Part 2 examples)
    assert G.builtin_chain('byte') == ['byte', 'short', 'int', 'long', 'integer', 'decimal', 'anyAtomicType',
                                       'anySimpleType']
    assert G.builtin_primitive('NCName') == 'string' and G.builtin_primitive('unsignedByte') == 'decimal'
    assert canon_py(Decimal('1.50')) == '1.5' and canon_py(Decimal('3')) == '3' and canon_py(Decimal('-0.0')) == '0'
    assert canon_py(True) == 'true' and canon_py(2) == '2' and canon_py(float('inf')) == 'INF'
    assert canon_py(10.0) == '10.0' and canon_py(' a ') == ' a '
    assert ref_canon('hexBinary', ' 0aFf ', None) == '0AFF' and ref_canon('base64Binary', 'YWJj ZGVm', None) == 'YWJjZGVm'
    assert ref_canon('int', ' 02 ', 2) == '2' and ref_canon('QName', 'xs:int', '{%s}int' % XS) == '{%s}int' % XS
    assert collapse(' a \n b ') == 'a b'
    # resolution of a small spec + rendering + validation by the trusted processor
    spec = {'xsd': '1.0', 'tns': None, 'efd': 'qualified', 'types': [
        {'name': 'T0', 'def': ['restriction', 'xs:int', ['range', 0, 10]]},
        {'name': 'T1', 'def': ['restriction', 'T0', None]},
        {'name': 'T2', 'def': ['sc', 'T1', [{'name': 'n', 'type': 'xs:boolean', 'use': 'optional', 'default': 'true',
                                             'fixed': None}]]}],
        'root': {'name': 'root', 'attrs': [], 'kids': [
            {'name': 'a', 'type': 'T2', 'min': 1, 'max': 1, 'nillable': False, 'default': None, 'fixed': None},
            {'name': 'b', 'type': ['list', 'T0'], 'min': 1, 'max': 1, 'nillable': False, 'default': None,
             'fixed': None}]}}
    r = G.resolve(spec, 'T2')
    assert r['variety'] == 'sc' and r['content']['builtin'] == 'int' and r['content']['facet'] == ['range', 0, 10]
    assert r['content']['chain'][:3] == ['T1', 'T0', 'xs:int'] and r['chain'][:3] == ['T2', 'T1', 'T0']
    schema = compile_schema(spec)
    assert not isinstance(schema, Exception), schema
    inst = {'p': [], 'text': None, 'attrs': [], 'nil': False, 'xsi': None, 'kids': [
        {'p': [0], 'text': ' 07 ', 'attrs': [], 'nil': False, 'xsi': None, 'kids': []},
        {'p': [1], 'text': '1  2', 'attrs': [], 'nil': False, 'xsi': None, 'kids': []}]}
    b = Built(spec, inst, 'et', False)
    assert schema.is_valid(b.tree)
    recs = {x['xpath']: x for x in b.records}
    assert expected_items(schema, spec, recs['/root/a[1]']) == [('int', '7', 'restriction-of-derived-builtin')]
    assert expected_items(schema, spec, recs['/root/b[1]']) == [('int', '1', 'restriction-of-derived-builtin'),
                                                                ('int', '2', 'restriction-of-derived-builtin')]
    assert expected_items(schema, spec, recs['/root/a[1]/@n']) == [('boolean', 'true', 'builtin-primitive')]
    bad = copy.deepcopy(inst)
    bad['kids'][0]['text'] = '11'
    assert not schema.is_valid(Built(spec, bad, 'et', False).tree)


def jobs(tier, seed):
    q = tier == 'quick'
    shards = 16
    n = 80 if q else 800
    return [{'check': 'all', 'shard': i, 'n': n, 'seed': derive_seed(seed, 'C20', 'all', i)} for i in range(shards)]


def run_job(job, rec: Recorder):
    chk = job['check']
    jd = _JUDGES[chk]
    hyp_collect(_STRAT, lambda case: rec.discs_of(chk, case, jd(case, rec)), job['n'], job['seed'], rec)


def shrink_job(job, bucket, budget):
    chk = job['check']
    return hyp_shrink(_STRAT, _JUDGES[chk], bucket, job['n'], job['seed'], budget)


def judge(check, case):
    return _JUDGES[check](case)
