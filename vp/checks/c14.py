"""C14 - fn:path and node path strings identify each node uniquely."""
from __future__ import annotations

from hypothesis import strategies as st

from vp.core import Disc, Recorder, derive_seed, hyp_collect, escape_bucket
from vp.gen import xml as gx
from vp.ref import xdm

PROPERTY = 'C14'
LEVEL = 'exploration'
RULE = ('one hypothesis example = one TreeSpec biased to repeated sibling names, same local name in different namespaces, '
        'default namespaces, PIs whose targets are also function/kind-test names (pi exp text data node comment x y), several '
        'PI targets among the same siblings, text/comment interleaving, namespaced attributes; judged in 3 drawn configurations '
        '(ElementTree|lxml x Element|ElementTree root x fragment None|True|False x namespaces argument). roundtrip: for EVERY '
        'node of the node tree (all seven kinds) the string of fn:path(.) - and node.path where the tree has a document on top '
        '- is parsed with the XPath 3.1 parser and evaluated against the same root: the result must be exactly [node] '
        '(identity); all strings of one tree must be pairwise distinct. iterpaths: every (elem, path) of '
        'etree_iter_paths(root) evaluated from the root element selects exactly that element/comment/PI. format: fn:path(.) equals '
        'the string F&O 3.0 section 14.1 (fn:path) prescribes, computed from the reference tree. non-trivial = node with a preceding '
        'sibling of the same kind, or a namespaced name, or a non-element kind. distinct by (spec, configuration, node address, mode).')
ASSUMPTIONS = [
    'the round trip itself is the oracle the property names (evaluation by the package under test); the format sub-check '
    'adds an independent expectation transcribed from F&O 3.0 fn:path',
    'node.path is only evaluated where "/" denotes the parent of the root element (document on top, or the implicit document '
    'of an Element root with fragment=None); for element-topped trees fn:path with its root() prefix is the evaluable form',
    'etree_iter_paths paths are relative to the element passed (they start with "."), so they are evaluated with that element '
    'as context item',
    'order among attributes / namespace nodes of one element is irrelevant here (paths name them)',
]
FLOORS = {'rt:pi': (0.03, 'rt:node'), 'rt:pos>1': (0.08, 'rt:node'), 'rt:namespaced-name': (0.05, 'rt:node'),
          'rt:text': (0.10, 'rt:node'), 'rt:name-starts-with-xpath-word/element': (0.003, 'rt:node'),
          'rt:name-starts-with-xpath-word/attribute': (0.02, 'rt:node'), 'rt:name-starts-with-xpath-word/pi': (0.005, 'rt:node'),
          'rt:name-starts-with-xpath-word/namespace': (0.01, 'rt:node'), 'rt:namespace-prefix-is-kind-test-name': (0.01, 'rt:node'), 'rt:namespace-name-begins-with-number': (0.02, 'rt:node'), 'rt:parser-with-default-namespace': (0.5, 'rt:node'),
          'fr:fragment-with-same-named-top-level-elements': (0.15, 'fr:fragment'),
          'fr:under-later-same-named-top-level-element': (0.05, 'fr:node'),
          'sc:attribute-defaulted': (0.12, 'sc:node'), 'sc:whitespace-only-text-in-element-only-content': (0.08, 'sc:node'), 'sc:default-or-fixed-attribute-set-explicitly': (0.08, 'sc:node'),
          'rt:root()-path-evaluated-from-attribute-or-namespace-focus': (0.05, 'rt:node'),
          'rt:no-namespace-step-with-default-namespace-twin': (0.0002, 'rt:node'), 'rt:comment': (0.03, 'rt:node'), 'rt:pi-function-name-target': (0.01, 'rt:node')}

FN = 'http://www.w3.org/2005/xpath-functions'
NS_ARGS = [None, {'p': 'urn:p'}, {'': 'urn:d', 'p': 'urn:p', 'q': 'urn:q'}, {'q': 'urn:q', '': 'urn:d'},
           {'for.each': 'urn:kw1', 'div-x': 'urn:kw3', 'union': 'urn:kw5', 'p': 'urn:p'}, {'if.x': 'urn:kw2', 'eq.x': 'urn:kw4', 'to1': 'urn:kw6'},
           {'node': 'urn:kw9', 'p': 'urn:p', 'namespace-node': 'urn:kw10'}, {'text': 'urn:kw11', 'comment': 'urn:kw12', 'element': 'urn:kw14'},
           {'item': 'urn:kw17', 'node': 'urn:kw9', 'map': 'urn:kw19', 'attribute': 'urn:kw15'}]

_cfg = st.fixed_dictionaries({
    'backend': st.sampled_from(['et', 'lxml']),
    'rootkind': st.sampled_from(['elem', 'doc']),
    'fragment': st.sampled_from([None, None, True, False]),
    'namespaces': st.sampled_from(NS_ARGS),
    # default element namespace in the static context of the parser that evaluates the path strings (Q{}name must ignore it)
    'defns': st.sampled_from([None, 'urn:d', 'urn:d', 'urn:p']),
})


# three quarters of the element names stay a/b (same-name siblings, default-namespace twins), the rest starts with an XPath word (for.each, div-x, if, to1 ...)
_KW = gx.KEYWORD_NAMES + gx.KIND_TEST_NAMES * 6        # the bare kind-test names get extra weight
_KWSET = frozenset(_KW)
_ELEM_POOL = ('a', 'b') * (len(_KW) * 3 // 2) + _KW
_ATTR_POOL = gx.ATTR_LOCALS * (len(_KW) // 3) + _KW
_PI_POOL = (gx.PI_TARGETS_FN + ('a', 'b')) * (len(_KW) // 12) + _KW


def _cases(max_elems):
    return st.fixed_dictionaries({
        'spec': gx.tree_specs(max_elems=max_elems, max_depth=4, max_attrs=3, pi_targets=_PI_POOL, misc_weight=4,
                              elem_locals=_ELEM_POOL, num_uris=True, attr_locals=_ATTR_POOL, kw_prefixes=True),
        'cfgs': st.lists(_cfg, min_size=3, max_size=3),
    })


_P = {}


def parser31(defns=None):
    """XPath 3.1 parser (3.0 for urn:p) whose static context has `defns` as default element namespace"""
    if 'path' not in _P:
        from elementpath.xpath31 import XPath31Parser
        _P[None] = XPath31Parser()
        _P['path'] = _P[None].parse('path(.)')
    if defns not in _P:
        from elementpath.xpath30 import XPath30Parser
        from elementpath.xpath31 import XPath31Parser
        cls = XPath30Parser if defns == 'urn:p' else XPath31Parser
        _P[defns] = cls(namespaces={'': defns, 'p': 'urn:p', 'q': 'urn:q'})
    return _P[defns]


_FUNCTION_LIKE = {'pi', 'exp', 'text', 'data', 'node', 'comment', 'div', 'if'}


def ref_path(rn, top_is_doc):
    """F&O 3.0 14.1 fn:path, from the reference tree."""
    if rn.kind == 'document':
        return '/'
    steps = []
    n = rn
    while n.parent is not None:
        par = n.parent
        if n.kind == 'element':
            uri, local = (n.name[1:].split('}') if n.name.startswith('{') else ('', n.name))
            pos = 1 + sum(1 for c in par.children[:_index(par, n)] if c.kind == 'element' and c.name == n.name)
            steps.append('Q{%s}%s[%d]' % (uri, local, pos))
        elif n.kind == 'attribute':
            if n.name.startswith('{'):
                uri, local = n.name[1:].split('}')
                steps.append('@Q{%s}%s' % (uri, local))
            else:
                steps.append('@' + n.name)
        elif n.kind == 'text':
            steps.append('text()[%d]' % (1 + sum(1 for c in par.children[:_index(par, n)] if c.kind == 'text')))
        elif n.kind == 'comment':
            steps.append('comment()[%d]' % (1 + sum(1 for c in par.children[:_index(par, n)] if c.kind == 'comment')))
        elif n.kind == 'pi':
            pos = 1 + sum(1 for c in par.children[:_index(par, n)] if c.kind == 'pi' and c.name == n.name)
            steps.append('processing-instruction(%s)[%d]' % (n.name, pos))
        elif n.kind == 'namespace':
            steps.append('namespace::' + n.name if n.name else 'namespace::*[Q{%s}local-name()=""]' % FN)
        n = par
    s = '/'.join(reversed(steps))
    if top_is_doc:
        return '/' + s
    return 'Q{%s}root()' % FN + ('/' + s if s else '')


def _index(par, n):
    if n.kind in ('attribute', 'namespace'):
        return 0
    return next(i for i, c in enumerate(par.children) if c is n)


_TARGET_CLASS = {'div': 'operator-keyword', 'if': 'operator-keyword', 'pi': 'math-function-name', 'exp': 'math-function-name',
                 'text': 'kind-test-name', 'node': 'kind-test-name', 'comment': 'kind-test-name', 'data': 'fn-function-name'}


def _pi_class(rn):
    """input class of a PI node for bucket names: what else its target means in XPath; another target before it"""
    par = rn.parent
    before = [c for c in par.children[:_index(par, rn)] if c.kind == 'pi']
    cls = 'target-' + _TARGET_CLASS.get(rn.name, 'plain')
    if any(c.name != rn.name for c in before):
        cls += '+other-target-before'
    return cls


def _defns_sensitive(rn, defns):
    """the path of rn goes through a no-namespace element that has a sibling with the same local name in `defns`"""
    n = rn
    while n is not None:
        if n.kind == 'element' and not n.name.startswith('{') and n.parent is not None and \
                any(c.kind == 'element' and c.name == '{%s}%s' % (defns, n.name) for c in n.parent.children):
            return True
        n = n.parent
    return False


def _eval(text, top, fragment, item=None, defns=None):
    """-> ('nodes', list) | ('unparsable', code) | ('error', code) | ('escape', bucket, repr)"""
    from elementpath import XPathContext, ElementPathError
    try:
        tok = parser31(defns).parse(text)
    except ElementPathError as e:
        return ('unparsable', getattr(e, 'code', None) or type(e).__name__)
    except Exception as e:
        return ('escape', escape_bucket('C14', e), repr(e))
    try:
        ctx = XPathContext(top, item=item, fragment=fragment)
        return ('nodes', list(tok.select(ctx)))
    except ElementPathError as e:
        return ('error', getattr(e, 'code', None) or type(e).__name__)
    except Exception as e:
        return ('escape', escape_bucket('C14', e), repr(e))


def _verdict(mode, res, node, rn, text, discs, detail):
    kind = rn.kind
    sub = '/' + _pi_class(rn) if kind == 'pi' else ''
    if res[0] == 'escape':
        discs.append(Disc(res[1] + f'/{mode}/{kind}', '[node]', res[2], detail))
    elif res[0] in ('unparsable', 'error'):
        discs.append(Disc(f'C14/{mode}/{res[0]}/{kind}{sub}', 'selects the node', f'{res[1]}: {text}', detail))
    else:
        got = res[1]
        if len(got) == 1 and got[0] is node:
            return
        fk = 'selects-nothing' if not got else 'selects-other-node' if len(got) == 1 else \
            'selects-several' if any(x is node for x in got) else 'selects-several-others'
        discs.append(Disc(f'C14/{mode}/{fk}/{kind}{sub}', '[node]', f'{len(got)} items for {text}', detail))


def judge_roundtrip_one(spec, cfg, rec: Recorder | None = None) -> list[Disc]:
    from elementpath import get_node_tree, XPathContext, ElementPathError
    discs: list[Disc] = []
    tc = xdm.tree_config(spec, cfg['backend'], cfg['rootkind'], cfg['fragment'], cfg['namespaces'])
    ref = xdm.ref_tree(spec, tc)
    b = gx.materialize(spec, cfg['backend'])
    root_obj = b.tree if cfg['rootkind'] == 'doc' else b.root
    fr = cfg['fragment']
    ns = None if cfg['namespaces'] is None else dict(cfg['namespaces'])
    try:
        top = get_node_tree(root_obj, namespaces=ns, fragment=fr)
    except Exception as e:
        return [Disc(escape_bucket('C14', e) + '/build', 'node tree', repr(e), f'cfg={cfg}')]
    if not xdm.adopt_all(ref, top):
        if rec is not None:
            rec.cls('rt:skip-structure-differs(C02)')
        return discs
    parser31()
    path_tok = _P['path']
    defns = cfg.get('defns')
    dn = '/parser-with-default-namespace' if defns else ''
    top_is_doc = ref.top.kind == 'document'
    path_prop_ok = top_is_doc or tc['ctx_dummy']
    xml = gx.to_xml(spec)
    seen: dict[str, tuple] = {}
    seen_prop: dict[str, tuple] = {}
    for rn in ref.nodes:
        node = xdm.ep_find(top, rn.addr)
        detail = f'node={rn.addr} {rn.kind} {rn.name} cfg={cfg} xml={xml}'
        kind = rn.kind
        # --- fn:path(.)
        try:
            p = path_tok.evaluate(XPathContext(top, item=node, fragment=fr))
        except ElementPathError as e:
            p = None
            discs.append(Disc(f'C14/fn-path/raises/{kind}', 'a string', repr(e), detail))
        except Exception as e:
            p = None
            discs.append(Disc(escape_bucket('C14', e) + f'/fn-path/{kind}', 'a string', repr(e), detail))
        if p is not None:
            if not isinstance(p, str) or not p:
                discs.append(Disc(f'C14/fn-path/no-string/{kind}', 'a non-empty string', repr(p), detail))
            else:
                _verdict('fn-path' + dn, _eval(p, top, fr, defns=defns), node, rn, p, discs, detail)
                if p.startswith('Q{%s}root()' % FN):
                    # the string must identify the node from ANY focus inside the tree: root() is the root of the tree
                    # of the context item, whatever its kind (the node itself, and one other node per case)
                    other_rn = ref.nodes[(ref.nodes.index(rn) * 7 + 3) % len(ref.nodes)]
                    for frn, fnode in ((rn, node), (other_rn, xdm.ep_find(top, other_rn.addr))):
                        _verdict(f'fn-path/focus-on-{frn.kind}-node', _eval(p, top, fr, item=fnode), node, rn, p, discs, detail)
                        if rec is not None:
                            rec.cls('rt:root()-path-evaluated-from-' + ('attribute-or-namespace' if frn.kind in ('attribute', 'namespace')
                                                                        else 'other') + '-focus')
                if p in seen:
                    discs.append(Disc(f'C14/fn-path/duplicate-path/{kind}' + ('/' + _pi_class(rn) if kind == 'pi' else ''),
                                      'distinct strings', p, f'also for node {seen[p]}; ' + detail))
                seen.setdefault(p, rn.addr)
                want = ref_path(rn, top_is_doc)
                if p != want:
                    discs.append(Disc(f'C14/format/{kind}' + ('/' + _pi_class(rn) if kind == 'pi' else ''), want, p, detail))
        # --- node.path
        try:
            pp = node.path
        except Exception as e:
            pp = None
            discs.append(Disc(escape_bucket('C14', e) + f'/path-property/{kind}', 'a string', repr(e), detail))
        if pp is not None and path_prop_ok:
            if not isinstance(pp, str) or not pp:
                discs.append(Disc(f'C14/path-property/no-string/{kind}', 'a non-empty string', repr(pp), detail))
            else:
                _verdict('path-property' + dn, _eval(pp, top, fr, defns=defns), node, rn, pp, discs, detail)
                if pp in seen_prop:
                    discs.append(Disc(f'C14/path-property/duplicate-path/{kind}' + ('/' + _pi_class(rn) if kind == 'pi' else ''),
                                      'distinct strings', pp, f'also for node {seen_prop[pp]}; ' + detail))
                seen_prop.setdefault(pp, rn.addr)
        if rec is not None:
            classes = ['rt:node', f'rt:{kind}']
            pos_gt1 = False
            if rn.parent is not None and kind not in ('attribute', 'namespace'):
                sibs = rn.parent.children[:_index(rn.parent, rn)]
                pos_gt1 = any(c.kind == kind and (kind not in ('element', 'pi') or c.name == rn.name) for c in sibs)
            if pos_gt1:
                classes.append('rt:pos>1')
            nsname = kind in ('element', 'attribute') and rn.name.startswith('{')
            if nsname:
                classes.append('rt:namespaced-name')
                if rn.name[1] in '0123456789.':
                    classes.append('rt:namespace-name-begins-with-number')
            nm = (rn.name or '').rpartition('}')[2] if kind in ('element', 'attribute', 'pi', 'namespace') else ''
            if kind == 'namespace' and nm in gx.KIND_TEST_NAMES and len(rn.parent.nss) >= 3:
                classes.append('rt:namespace-prefix-is-kind-test-name')
            if nm in _KWSET or nm in gx.KEYWORD_PREFIXES:
                classes.append('rt:name-starts-with-xpath-word')
                classes.append(f'rt:name-starts-with-xpath-word/{kind}')
            if kind == 'pi' and rn.name in _FUNCTION_LIKE:
                classes.append('rt:pi-function-name-target')
            if defns:
                classes.append('rt:parser-with-default-namespace')
                if _defns_sensitive(rn, defns):
                    classes.append('rt:no-namespace-step-with-default-namespace-twin')
            rec.case([spec, cfg, list(map(repr, rn.addr))], nontrivial=pos_gt1 or nsname or kind != 'element', classes=classes,
                     sample={'check': 'roundtrip', 'xml': xml, 'cfg': cfg, 'node': repr(rn.addr), 'path': p if isinstance(p, str) else None})
    return discs


def judge_roundtrip(case, rec: Recorder | None = None) -> list[Disc]:
    out = []
    for cfg in case['cfgs']:
        out.extend(judge_roundtrip_one(case['spec'], cfg, rec))
    return out


def judge_iterpaths(case, rec: Recorder | None = None) -> list[Disc]:
    from elementpath import get_node_tree
    from elementpath.etree import etree_iter_paths
    discs: list[Disc] = []
    spec = case['spec']
    xml = gx.to_xml(spec)
    for cfg in case['cfgs']:
        b = gx.materialize(spec, cfg['backend'])
        # the function takes an element: paths are relative to it; evaluate on the element-topped tree
        top = get_node_tree(b.root, fragment=True)
        ref = xdm.RefTree(spec, 'element', False, 'lxml' if cfg['backend'] == 'lxml' else {})
        try:
            pairs = list(etree_iter_paths(b.root))
        except Exception as e:
            discs.append(Disc(escape_bucket('C14', e) + '/iterpaths', 'pairs', repr(e), f'xml={xml}'))
            continue
        want_objs = [b.by_addr[a] for a in sorted(b.by_addr) if b.in_fragment(a)]
        if [id(o) for o, _ in pairs] != [id(o) for o in want_objs]:
            discs.append(Disc('C14/iterpaths/objects', f'{len(want_objs)} objects in document order', f'{len(pairs)} pairs',
                              f'{cfg["backend"]} xml={xml}'))
        seen = {}
        for obj, p in pairs:
            a = b.obj_addr.get(id(obj))
            if a is None:
                continue
            rn = ref.by_addr[a[1:]]
            node = top.tree.elements.get(obj)
            detail = f'node={a[1:]} {rn.kind} {rn.name} {cfg["backend"]} xml={xml}'
            if node is None:
                continue
            dfn = cfg.get('defns')
            _verdict('iterpaths' + ('/parser-with-default-namespace' if dfn else ''), _eval(p, top, True, item=top, defns=dfn),
                     node, rn, p, discs, detail)
            if p in seen:
                discs.append(Disc(f'C14/iterpaths/duplicate-path/{rn.kind}', 'distinct strings', p, detail))
            seen[p] = a
            if rec is not None:
                rec.case([spec, cfg['backend'], 'iterpaths', list(map(repr, a))], nontrivial=rn.kind != 'element' or '[1]' not in p[-3:],
                         classes=['ip:node', f'ip:{rn.kind}'], sample={'check': 'iterpaths', 'xml': xml, 'path': p})
    return discs


# --------------------------------------------------------------------------
# multi-rooted document nodes (fn:parse-xml-fragment)
# --------------------------------------------------------------------------

def _frag_cases(max_elems):
    half = gx.tree_specs(max_elems=max(3, max_elems // 2), max_depth=3, max_attrs=2, pi_targets=('x', 'y', 'pi', 'a'), misc_weight=3,
                         elem_locals=('a', 'a', 'a', 'b'), doc_misc=False, min_elems=3, num_uris=True)

    def join(t):
        # the CONTENT of the two generated root elements (text, elements, comments, PIs with their tails) is the fragment
        s1, s2 = t
        root = dict(s1['root'], c=s1['root']['c'] + s2['root']['c'])
        return {'root': root, 'pre': [], 'post': []}
    return st.fixed_dictionaries({
        'spec': st.tuples(half, half).map(join),
        'backend': st.sampled_from(['et', 'lxml']),
        'defns': st.sampled_from([None, 'urn:d']),
    })


def _strip_xml_id(e):
    e['a'] = [a for a in e['a'] if not (a[0] == gx.XML_NS and a[1] == 'id')]      # xml:id must be an NCName for parsers
    for c in e['c']:
        if c['k'] == 'e':
            _strip_xml_id(c)


def fragment_text(spec):
    """(xml text, [clark names of the top-level elements in order])"""
    import copy
    root = copy.deepcopy(spec['root'])
    _strip_xml_id(root)
    esc = lambda t: (t or '').replace('&', '&amp;').replace('<', '&lt;')
    out, names = [esc(root['t'])], []
    for c in root['c']:
        if c['k'] == 'e':
            e = gx.normalize({'root': dict(c, tl=None), 'pre': [], 'post': []})['root']
            out.append(gx.serialize(e))
            names.append(gx.clark(e['ns'], e['n']))
        elif c['k'] == 'c':
            out.append('<!--%s-->' % c['v'])
        else:
            out.append('<?%s%s?>' % (c['tg'], ' ' + c['v'] if c['v'] else ''))
        out.append(esc(c['tl']))
    return ''.join(out), names


def judge_fragment(case, rec: Recorder | None = None) -> list[Disc]:
    from elementpath import XPathContext, ElementPathError
    import xml.etree.ElementTree as ET
    discs: list[Disc] = []
    text, names = fragment_text(case['spec'])
    if case['backend'] == 'lxml':
        from lxml import etree as L
        dummy = L.Element('dummy')
    else:
        dummy = ET.Element('dummy')
    parser31()
    if 'frag' not in _P:
        _P['frag'] = _P[None].parse('parse-xml-fragment($s)')
    try:
        doc = _P['frag'].evaluate(XPathContext(dummy, variables={'s': text}))
    except ElementPathError as e:
        if getattr(e, 'code', '').endswith('FODC0006'):
            raise RuntimeError(f'harness produced an ill-formed fragment: {text!r}: {e}')
        return [Disc(f'C14/fragment/parse-xml-fragment-raises/{getattr(e, "code", "?")}', 'a document node', repr(e), text)]
    if getattr(doc, 'node_kind', None) != 'document':
        return [Disc('C14/fragment/not-a-document-node', 'document node', repr(doc), text)]
    tops = [c for c in doc.children if c.node_kind == 'element']
    if [c.name for c in tops] != names:
        return [Disc(f'C14/fragment/top-level-elements/{case["backend"]}', names, [c.name for c in tops], text)]
    defns = case.get('defns')
    dn = '/parser-with-default-namespace' if defns else ''
    seen = {}
    path_tok = _P['path']
    # expected path of the k-th top-level element: /Q{uri}local[position among the same-named top-level elements]
    counts, want_top = {}, {}
    for c in tops:
        counts[c.name] = counts.get(c.name, 0) + 1
        uri, local = (c.name[1:].split('}') if c.name.startswith('{') else ('', c.name))
        want_top[id(c)] = '/Q{%s}%s[%d]' % (uri, local, counts[c.name])

    class R:        # minimal stand-in for the reference node used by _verdict
        def __init__(self, n):
            self.kind = {'processing-instruction': 'pi'}.get(n.node_kind, n.node_kind)
            self.name = getattr(n, 'name', None)
    for node in doc.iter():
        rn = R(node)
        below = node
        while below.parent is not None and below.parent is not doc:
            below = below.parent
        k = tops.index(below) if below in tops else -1
        where = 'document' if node is doc else 'top-level' if node.parent is doc else \
            'under-first-of-its-name' if k >= 0 and want_top[id(below)].endswith('[1]') else 'under-later-same-named-top-level-element'
        detail = f'{rn.kind} {rn.name} {where} backend={case["backend"]} fragment={text}'
        for mode, get in (('path-property', lambda: node.path),
                          ('fn-path', lambda: path_tok.evaluate(XPathContext(doc, item=node)))):
            try:
                p = get()
            except Exception as e:
                discs.append(Disc(escape_bucket('C14', e) + f'/fragment/{mode}/{rn.kind}', 'a string', repr(e), detail))
                continue
            if not isinstance(p, str) or not p:
                discs.append(Disc(f'C14/fragment/{mode}/no-string/{rn.kind}', 'a non-empty string', repr(p), detail))
                continue
            res = _eval(p, doc, None, defns=defns)
            if rn.kind == 'pi':
                rn_pi = R(node)
                rn_pi.kind = 'pi-node'     # no sibling classification here
                _verdict(f'fragment/{mode}{dn}/{where}', res, node, rn_pi, p, discs, detail)
            else:
                _verdict(f'fragment/{mode}{dn}/{where}', res, node, rn, p, discs, detail)
            if mode == 'path-property':
                if p in seen:
                    discs.append(Disc(f'C14/fragment/duplicate-path/{rn.kind}/{where}', 'distinct strings', p, detail))
                seen.setdefault(p, True)
                if id(node) in want_top and p != want_top[id(node)]:
                    discs.append(Disc('C14/fragment/format/top-level-element', want_top[id(node)], p, detail))
        if rec is not None:
            rec.case([case['spec'], case['backend'], defns, where, rn.kind, len(seen)], nontrivial=where != 'document',
                     classes=['fr:node', f'fr:{where}', f'fr:{rn.kind}'],
                     sample={'check': 'fragment', 'fragment': text, 'backend': case['backend']})
    if rec is not None and len(set(names)) < len(names):
        rec.cls('fr:fragment-with-same-named-top-level-elements')
    if rec is not None:
        rec.cls('fr:fragment')
    return discs


# --------------------------------------------------------------------------
# schema-bound trees: defaulted / fixed attributes
# --------------------------------------------------------------------------
_XSD = [
    # 0: simple content with default, fixed and plain attributes
    """<xs:schema xmlns:xs="http://www.w3.org/2001/XMLSchema">
<xs:element name="items"><xs:complexType><xs:sequence>
 <xs:element name="item" minOccurs="0" maxOccurs="unbounded"><xs:complexType><xs:simpleContent><xs:extension base="xs:string">
   <xs:attribute name="unit" type="xs:string" default="kg"/><xs:attribute name="cur" type="xs:string" fixed="EUR"/>
   <xs:attribute name="id" type="xs:string"/>
 </xs:extension></xs:simpleContent></xs:complexType></xs:element>
</xs:sequence><xs:attribute name="version" type="xs:string" default="1"/></xs:complexType></xs:element></xs:schema>""",
    # 1: recursive element type in a target namespace, typed default, two same-named levels
    """<xs:schema xmlns:xs="http://www.w3.org/2001/XMLSchema" targetNamespace="urn:s" xmlns="urn:s" elementFormDefault="qualified">
<xs:element name="item" type="T"/>
<xs:complexType name="T"><xs:sequence><xs:element name="item" type="T" minOccurs="0" maxOccurs="unbounded"/></xs:sequence>
 <xs:attribute name="k" type="xs:int" default="0"/><xs:attribute name="f" type="xs:string" fixed="x"/>
 <xs:attribute name="unit" type="xs:string"/></xs:complexType></xs:schema>""",
]
_ATTRS = [{'unit': ('kg', 'g', 'kg'), 'cur': ('EUR',), 'id': ('a', 'b')}, {'k': ('0', '5', '0'), 'f': ('x',), 'unit': ('u',)}]

_inst_attrs0 = st.fixed_dictionaries({}, optional={k: st.sampled_from(v) for k, v in _ATTRS[0].items()})
_inst_attrs1 = st.fixed_dictionaries({}, optional={k: st.sampled_from(v) for k, v in _ATTRS[1].items()})
_inst1 = st.recursive(st.fixed_dictionaries({'a': _inst_attrs1, 'c': st.just([])}),
                      lambda ch: st.fixed_dictionaries({'a': _inst_attrs1, 'c': st.lists(ch, max_size=3)}), max_leaves=6)
_schema_cases = st.one_of(
    st.fixed_dictionaries({'schema': st.just(0), 'ws': st.booleans(), 'backend': st.sampled_from(['et', 'lxml']), 'rootkind': st.sampled_from(['elem', 'doc']),
                           'version': st.sampled_from([None, '1', '2']),
                           'items': st.lists(st.fixed_dictionaries({'a': _inst_attrs0, 't': st.sampled_from(['', '1', 'x'])}), max_size=5)}),
    st.fixed_dictionaries({'schema': st.just(1), 'ws': st.booleans(), 'backend': st.sampled_from(['et', 'lxml']), 'rootkind': st.sampled_from(['elem', 'doc']),
                           'root': _inst1}))


def _schema_proxy(i):
    key = ('xsd', i)
    if key not in _P:
        import xmlschema
        from xmlschema.xpath import XMLSchemaProxy
        _P[key] = XMLSchemaProxy(xmlschema.XMLSchema(_XSD[i]))
    return _P[key]


def _build_instance(case):
    if case['backend'] == 'lxml':
        from lxml import etree as E
    else:
        import xml.etree.ElementTree as E
    if case['schema'] == 0:
        root = E.Element('items')
        if case['version'] is not None:
            root.set('version', case['version'])
        for it in case['items']:
            e = E.SubElement(root, 'item')
            for k, v in it['a'].items():
                e.set(k, v)
            e.text = it['t']
    else:
        def mk(parent, d):
            e = E.Element('{urn:s}item') if parent is None else E.SubElement(parent, '{urn:s}item')
            for k, v in d['a'].items():
                e.set(k, v)
            for c in d['c']:
                mk(e, c)
            return e
        root = mk(None, case['root'])
    if case.get('ws'):
        # indentation: whitespace-only text nodes between the children of elements with element-only content
        for e in root.iter():
            if len(e):
                e.text = '\n  '
                for i, c in enumerate(e):
                    c.tail = '\n  ' if i + 1 < len(e) else '\n'
    return root, (E.ElementTree(root) if case['rootkind'] == 'doc' else root)


def judge_schema(case, rec: Recorder | None = None) -> list[Disc]:
    from elementpath import XPathContext, ElementPathError
    discs: list[Disc] = []
    proxy = _schema_proxy(case['schema'])
    root, root_obj = _build_instance(case)
    where = f'schema{case["schema"]}/{case["backend"]}'
    try:
        top = XPathContext(root_obj, schema=proxy).root
        nodes = list(top.iter())
    except Exception as e:
        return [Disc(escape_bucket('C14', e) + '/schema/build', 'schema-bound node tree', repr(e), str(case))]
    parser31()
    seen = {}
    for node in nodes:
        kind = node.node_kind
        if kind == 'namespace':
            continue
        detail = f'{kind} {getattr(node, "name", None)} {where} case={case}'
        if kind == 'element':
            names = [a.name for a in node.attributes]
            dup = sorted({n for n in names if names.count(n) > 1})
            if dup:
                explicit = all(d in node.value.attrib for d in dup)
                discs.append(Disc(f'C14/schema/two-attribute-nodes-with-one-name/{"set-in-instance" if explicit else "defaulted"}',
                                  'attribute names of one element are distinct', names, detail))
        addr = xdm.ep_address(node, top)
        try:
            p = node.path
        except Exception as e:
            discs.append(Disc(escape_bucket('C14', e) + f'/schema/path-property/{kind}', 'a string', repr(e), detail))
            continue
        if p in seen:
            discs.append(Disc(f'C14/schema/duplicate-path/{kind}', 'distinct strings', p, f'also {seen[p]}; ' + detail))
        seen.setdefault(p, addr)
        # evaluated on a fresh schema-bound context of the same input: the node at the same structural address, and only it
        try:
            ctx = XPathContext(root_obj, schema=proxy)
            got = [xdm.ep_address(x, ctx.root) if hasattr(x, 'node_kind') else ('?', repr(x)) for x in _P[None].parse(p).select(ctx)]
        except ElementPathError as e:
            discs.append(Disc(f'C14/schema/path-property/error/{kind}', 'selects the node', f'{e!r}: {p}', detail))
            continue
        if got != [addr]:
            fk = 'selects-nothing' if not got else 'selects-several' if len(got) > 1 else 'selects-other-node'
            defaulted = kind == 'attribute' and node.name not in node.parent.value.attrib
            wsx = '/whitespace-only' if kind == 'text' and not node.value.strip() else ''
            discs.append(Disc(f'C14/schema/path-property/{fk}/{kind}' + ('/defaulted' if defaulted else '') + wsx, [addr], got, f'path={p} ' + detail))
        # ... and on a plain context created for the SAME, already typed, tree: identity
        try:
            same = list(_P[None].parse(p).select(XPathContext(top)))
        except ElementPathError as e:
            same = None
            discs.append(Disc(f'C14/schema/path-property/same-tree/error/{kind}', 'selects the node', f'{e!r}: {p}', detail))
        if same is not None and not (len(same) == 1 and same[0] is node):
            fk = 'selects-nothing' if not same else 'selects-several' if len(same) > 1 else 'selects-other-node'
            ws = kind == 'text' and not node.value.strip()
            discs.append(Disc(f'C14/schema/path-property/same-tree/{fk}/{kind}' + ('/whitespace-only' if ws else ''), '[node]',
                              f'{len(same)} items', f'path={p} ' + detail))
        if rec is not None:
            classes = ['sc:node', f'sc:{kind}']
            if kind == 'text' and not node.value.strip() and node.value:
                classes.append('sc:whitespace-only-text-in-element-only-content')
            if kind == 'attribute':
                classes.append('sc:attribute-defaulted' if node.name not in node.parent.value.attrib else 'sc:attribute-set-in-instance')
                if node.name in ('unit', 'cur', 'k', 'f', 'version') and node.name in node.parent.value.attrib:
                    classes.append('sc:default-or-fixed-attribute-set-explicitly')
            rec.case([case, list(map(repr, addr))], nontrivial=kind == 'attribute', classes=classes,
                     sample={'check': 'schema', 'case': case, 'path': p})
    return discs


# --------------------------------------------------------------------------
# module interface
# --------------------------------------------------------------------------
_JUDGES = {'roundtrip': judge_roundtrip, 'iterpaths': judge_iterpaths, 'fragment': judge_fragment, 'schema': judge_schema}


def selftest():
    xdm.self_test()
    # F&O 3.0 fn:path examples (section 14.1): structure of the strings
    E = lambda n, c=(), a=(), t=None, tl=None, ns=None, decl=(): {'k': 'e', 'ns': ns, 'n': n, 'decl': list(decl),
                                                                 'a': [list(x) for x in a], 't': t, 'c': list(c), 'tl': tl}
    spec = gx.normalize({'root': E('p', [E('l', t='Fool', a=[(gx.XML_NS, 'id', 'a')]), E('l', t='Queen'),
                                         {'k': 'p', 'tg': 'x', 'v': 'd', 'tl': None}, {'k': 'p', 'tg': 'y', 'v': None, 'tl': None},
                                         {'k': 'p', 'tg': 'x', 'v': None, 'tl': 'z'}],
                                   ns='urn:d', a=[(None, 'author', 'w')], decl=['']), 'pre': [], 'post': []})
    t = xdm.RefTree(spec, 'document', False, 'lxml')
    get = lambda a: ref_path(t.by_addr[a], True)
    assert get(()) == '/'
    assert get((0,)) == '/Q{urn:d}p[1]'
    assert get((0, 1)) == '/Q{urn:d}p[1]/Q{}l[2]'
    assert get((0, 0, ('@', '{%s}id' % gx.XML_NS))) == '/Q{urn:d}p[1]/Q{}l[1]/@Q{http://www.w3.org/XML/1998/namespace}id'
    assert get((0, ('@', 'author'))) == '/Q{urn:d}p[1]/@author'
    assert get((0, 1, 0)) == '/Q{urn:d}p[1]/Q{}l[2]/text()[1]'
    assert get((0, 4)) == '/Q{urn:d}p[1]/processing-instruction(x)[2]'
    assert get((0, 3)) == '/Q{urn:d}p[1]/processing-instruction(y)[1]'
    assert get((0, ('ns', ''))) == '/Q{urn:d}p[1]/namespace::*[Q{http://www.w3.org/2005/xpath-functions}local-name()=""]'
    assert get((0, ('ns', 'xml'))) == '/Q{urn:d}p[1]/namespace::xml'
    t2 = xdm.RefTree(spec, 'element', False, 'lxml')
    assert ref_path(t2.by_addr[(1,)], False) == 'Q{http://www.w3.org/2005/xpath-functions}root()/Q{}l[2]'
    assert ref_path(t2.top, False) == 'Q{http://www.w3.org/2005/xpath-functions}root()'


def _strategy(job):
    if job['check'] == 'schema':
        return _schema_cases
    return _frag_cases(job['max_elems']) if job['check'] == 'fragment' else _cases(job['max_elems'])


def jobs(tier, seed):
    q = tier == 'quick'
    out = []
    nr, ni, nf = (11, 2, 2) if q else (10, 3, 2)
    per_r, per_i, per_f = (450, 1500, 1200) if q else (6000, 16000, 12000)
    me = 10 if q else 24
    for i in range(nr):
        out.append({'check': 'roundtrip', 'shard': i, 'n': per_r, 'max_elems': me, 'seed': derive_seed(seed, 'C14', 'roundtrip', i)})
    for i in range(ni):
        out.append({'check': 'iterpaths', 'shard': i, 'n': per_i, 'max_elems': me, 'seed': derive_seed(seed, 'C14', 'iterpaths', i)})
    out.append({'check': 'schema', 'shard': 0, 'n': 1500 if q else 15000, 'max_elems': me, 'seed': derive_seed(seed, 'C14', 'schema', 0)})
    for i in range(nf):
        out.append({'check': 'fragment', 'shard': i, 'n': per_f, 'max_elems': me, 'seed': derive_seed(seed, 'C14', 'fragment', i)})
    return out


def run_job(job, rec: Recorder):
    chk = job['check']
    jd = _JUDGES[chk]
    hyp_collect(_strategy(job), lambda case: rec.discs_of(chk, case, jd(case, rec)), job['n'], job['seed'], rec)


def shrink_job(job, bucket, budget):
    chk = job['check']
    return gx.find_and_minimize(_strategy(job), _JUDGES[chk], bucket, job['n'], job['seed'], min(budget, 250))


def judge(check, case):
    return _JUDGES[check](case)
