"""C17 - JSON and XML serialisation round-trip through their parsers."""
from __future__ import annotations

import json
import math
import re
from decimal import Decimal

from hypothesis import strategies as st

from vp.core import canon, Disc, Recorder, derive_seed, escape_bucket, hyp_collect, hyp_shrink

PROPERTY = 'C17'
LEVEL = 'exploration'
RULE = ('json-value: hypothesis-generated JSON-representable XDM values (strings over XML characters incl. quote, '
        'backslash, solidus, C0/C1 controls, astral; booleans; integers up to 10^25; decimals scale 0-8; finite doubles '
        'incl. exponent forms and -0; empty sequence; arrays; string-keyed maps; depth <= 4) bound through variables, '
        'serialize(json) then parse-json compared with the value by an own model, and python json.loads of the text '
        'compared with the same model. json-text: JSON texts rendered from generated values with randomised surface '
        'syntax (whitespace, \\uXXXX vs literal vs short escapes, escaped solidus, surrogate pairs, number spellings '
        'with fraction/exponent) through xml-to-json(json-to-xml(t)) with and without escape=true; json-invalid: texts '
        'that python json (strict, no constants) rejects must give FOJS0001; xml: generated trees (namespaces, '
        'attributes and text with & < > " \' ]]> CR/LF/TAB, comments, PIs, tails) built by construction as '
        'ElementTree / lxml, element or document, any element as target: parse-xml(serialize(node)) compared '
        'structurally by an own walker (expanded names, attribute sets, merged text, comments, PIs, order), and the '
        'serialised text re-parsed by the stdlib parser. non-trivial: nesting depth >= 2, a string needing '
        'escaping or a non-integer number; tree with a namespace, a non-element child or a tail. distinct by '
        'canonical case.')
ASSUMPTIONS = [
    'numbers are compared by value as xs:double (JSON number semantics; deep-equal promotes integer/decimal to double)',
    'strings of XDM values are restricted to XML 1.0 characters (an xs:string cannot hold others)',
    'json-text without escape=true: F&O 3.1 json-to-xml replaces characters that are not XML characters by U+FFFD '
    '(default fallback), so the expected denotation is t with those characters replaced; texts where that makes two '
    'keys collide, texts with duplicate keys and texts with numbers outside the finite double range give no verdict',
    'json-invalid: a text is invalid iff python json.loads(strict, NaN/Infinity rejected) rejects it AND it was built '
    'from a template that violates RFC 8259; leading U+FEFF is not generated',
    'xml: prefixes and namespace declarations are not compared (deep-equal ignores them); comments never contain '
    '"--" or end in "-", PIs never contain "?>" (well-formedness preconditions); characters are XML 1.0 Chars',
    'the stdlib XML parser (expat) is the independent parser for serialised XML; python json for JSON',
]
FLOORS = {
    'jv:depth>=2': (0.2, 'jv:case'), 'jv:string-escape': (0.2, 'jv:case'), 'jv:non-integer-number': (0.2, 'jv:case'),
    'jv:lookalike-string': (0.3, 'jv:case'), 'jv:lookalike-key-group': (0.1, 'jv:case'), 'jt:lookalike-string': (0.2, 'jt:case'),
    'jt:escape-sequence': (0.3, 'jt:case'), 'jt:invisible-astral': (0.08, 'jt:case'), 'jt:invisible-bmp': (0.1, 'jt:case'),
    'jv:invisible-astral': (0.08, 'jv:case'), 'jv:integer-beyond-2^53-inexact-as-double': (0.05, 'jv:case'), 'jt:number-frac-or-exp': (0.2, 'jt:case'),
    'xml:namespace': (0.2, 'xml:case'), 'xml:non-element-child': (0.3, 'xml:case'), 'xml:special-char': (0.3, 'xml:case'),
    'xml:inner-target-with-tail': (0.04, 'xml:case'), 'xml:doc-misc': (0.15, 'xml:case'), 'xml:doc-misc-before-and-after': (0.08, 'xml:case'), 'xh:inner-tail-then-ancestor': (0.3, 'xh:case'), 'jo:name-recurs-across-objects': (0.6, 'jo:case'), 'xh:per-item-expression-n>=2': (0.4, 'xh:case'), 'xh:ns-map-step': (0.6, 'xh:case'),
    'xh:ns-map-uri-after-another-namespace(et)': (0.05, 'xh:case'),
}

FN_NS = 'http://www.w3.org/2005/xpath-functions'

# --------------------------------------------------------------------------
# helpers shared by the sub-checks
# --------------------------------------------------------------------------


def is_xml_char(cp: int) -> bool:
    """XML 1.0 (5th ed.) production [2] Char"""
    return cp in (0x9, 0xA, 0xD) or 0x20 <= cp <= 0xD7FF or 0xE000 <= cp <= 0xFFFD or 0x10000 <= cp <= 0x10FFFF


# string content that looks like JSON syntax: numbers (with exponent), literals, brackets
_LOOKALIKE_RE = re.compile(r'\d[eE][+-]?\d|^-?\d|\b(?:true|false|null|NaN|Infinity)\b|[\[\]{}:,]')


def _has_lookalike(s: str) -> bool:
    return bool(re.search(r'\d[eE][+-]?\d|\b(?:true|false|null)\b|^-?\d+(?:\.\d+)?$|^[\[{].*[\]}]$', s))


def _str_feature(s: str) -> str:
    if any(not is_xml_char(ord(c)) for c in s):
        return 'non-xml-char'
    if '\\' in s:
        return 'backslash'
    if '"' in s:
        return 'quote'
    if '/' in s:
        return 'solidus'
    if any(ord(c) < 0x20 for c in s):
        return 'control'
    if any(0x7f <= ord(c) <= 0x9f for c in s):
        return 'c1-control'
    if any(ord(c) > 0xFFFF for c in s):
        return 'astral'
    if any(ord(c) > 0x7e for c in s):
        return 'non-ascii'
    if s == '':
        return 'empty'
    if _LOOKALIKE_RE.search(s):
        return 'syntax-lookalike'
    return 'plain'


def _num_feature(x: float) -> str:
    r = repr(float(x))
    if 'e' in r:
        return 'exponent-repr'
    if x == 0 and math.copysign(1.0, x) < 0:
        return 'negative-zero'
    if float(x).is_integer():
        return 'integral'
    return 'fraction'


def _fffd(s: str) -> str:
    return ''.join(c if is_xml_char(ord(c)) else '\ufffd' for c in s)


def py_model(v, replace=False):
    """model of a python json value: ('s', str, feature) ('b', bool) ('n', float, feature) ('e',) ('a', [...])
    ('m', {k: ...}, {k: feature}); replace=True: characters that are not XML characters become U+FFFD (F&O json-to-xml
    default fallback) while the feature still describes the original string"""
    if v is None:
        return ('e',)
    if isinstance(v, bool):
        return ('b', v)
    if isinstance(v, (int, float)):
        f = float(v)
        return ('n', f, _num_feature(f))
    if isinstance(v, str):
        return ('s', _fffd(v) if replace else v, _str_feature(v))
    if isinstance(v, list):
        return ('a', [py_model(x, replace) for x in v])
    if isinstance(v, dict):
        return ('m', {(_fffd(k) if replace else k): py_model(x, replace) for k, x in v.items()},
                {(_fffd(k) if replace else k): _str_feature(k) for k in v})
    return ('other', repr(v))


def xdm_model(v):
    """model of an elementpath result (array/map tokens, python atomics, [] for the empty sequence)"""
    from elementpath.xpath_tokens import XPathArray, XPathMap
    if v is None or (isinstance(v, list) and not v):
        return ('e',)
    if isinstance(v, list):
        if len(v) == 1:
            return xdm_model(v[0])
        return ('other', 'sequence of %d items' % len(v))
    if isinstance(v, XPathArray):
        return ('a', [xdm_model(x) for x in v.items()])
    if isinstance(v, XPathMap):
        out = {}
        for k, x in v.items():
            if not isinstance(k, str):
                return ('other', 'non-string key %r' % (k,))
            out[k] = xdm_model(x)
        return ('m', out)
    if isinstance(v, bool):
        return ('b', v)
    if isinstance(v, (int, float, Decimal)):
        f = float(v)
        return ('n', f, _num_feature(f))
    if isinstance(v, str):
        return ('s', str(v))
    return ('other', type(v).__name__)


_STR_HYPOTHESES = (
    ('solidus-double-escaped', lambda s: s.replace('/', '\\/')),
)
_ENTITY_LIKE = (('&#xFFFD;', '\ufffd', 'non-xml-as-&#xFFFD;-text'), ('&#34;', '"', 'quote-as-&#34;'))


def _str_class(want, got, feature):
    """class of a string difference: a recognised transformation, else the feature of the expected string"""
    if isinstance(got, str) and want != got:
        names, g, w = [], got, want
        for tok, ch, name in _ENTITY_LIKE:
            if got.count(tok) > want.count(tok):
                names.append(name)
            g, w = g.replace(tok, ch), w.replace(tok, ch)
        if names and g == w:
            return '+'.join(names)
        for name, f in _STR_HYPOTHESES:
            if f(want) == got:
                return name
    return feature


def diff(ref, got, ctx='top'):
    """first difference: None | (class, expected, observed)"""
    if ref[0] == 'n':
        if got[0] != 'n' or not (got[1] == ref[1]):
            return ('number/' + ref[2], ref[1], got[1] if got[0] == 'n' else got)
        return None
    if ref[0] == 'e':
        if got[0] != 'e':
            return ('empty-sequence/' + ctx, '()', got)
        return None
    if ref[0] == 's':
        if got[0] != 's' or got[1] != ref[1]:
            feature = ref[2] if len(ref) > 2 else _str_feature(ref[1])
            return ('string/' + _str_class(ref[1], got[1] if got[0] == 's' else None, feature), ref[1], got[1] if got[0] == 's' else got)
        return None
    if ref[0] == 'b':
        return None if got[:2] == ref[:2] else ('boolean', ref[1], got)
    if ref[0] == 'a':
        if got[0] != 'a':
            return ('array/not-an-array', 'array', got)
        if len(got[1]) != len(ref[1]):
            return ('array/length', len(ref[1]), len(got[1]))
        for a, b in zip(ref[1], got[1]):
            d = diff(a, b, 'array-member')
            if d:
                return d
        return None
    if ref[0] == 'm':
        if got[0] != 'm':
            return ('map/not-a-map', 'map', got)
        for k in ref[1]:
            if k not in got[1]:
                feature = ref[2][k] if len(ref) > 2 else _str_feature(k)
                cls = next((c for c in (_str_class(k, g, None) for g in got[1] if g not in ref[1]) if c), feature)
                return ('map-key/' + cls, k, sorted(got[1])[:5])
        if len(got[1]) != len(ref[1]):
            return ('map/extra-keys', sorted(ref[1])[:5], sorted(got[1])[:5])
        for k in ref[1]:
            d = diff(ref[1][k], got[1][k], 'map-value')
            if d:
                return d
        return None
    return ('harness-unknown-model', ref, got)


def _loads_strict(text):
    def const(s):
        raise ValueError('constant ' + s)
    return json.loads(text, parse_constant=const)


_ROOT = None


def _ev(expr, variables=None, root=None, item=None, namespaces=None):
    import xml.etree.ElementTree as ET
    from elementpath import XPathContext
    from elementpath.xpath31 import XPath31Parser
    global _ROOT
    if root is None:
        if _ROOT is None:
            _ROOT = ET.Element('r')
        root = _ROOT
    kw = {'variables': variables} if variables else {}
    if item is not None:
        kw['item'] = item
    if namespaces:
        kw['namespaces'] = namespaces
    if '$v' in expr:                     # generated constructor expressions: compiled per case
        tok = XPath31Parser().parse(expr)
    else:                                # fixed expressions: ONE compiled token evaluated over all documents and contexts
        key = expr if not namespaces else expr + ' ' + canon(namespaces)
        tok = _TOKEN_CACHE.get(key)
        if tok is None:
            tok = XPath31Parser(namespaces=namespaces).parse(expr)
            if len(_TOKEN_CACHE) < 400:
                _TOKEN_CACHE[key] = tok
        _TOKEN_USES[key] = _TOKEN_USES.get(key, 0) + 1
    return tok.evaluate(XPathContext(root, **kw))


_TOKEN_CACHE: dict = {}
_TOKEN_USES: dict = {}


def _cls_for(cls_fn, code):
    return cls_fn(code)


def _call(prefix, cls_fn, fn):
    """-> (value, None) | (None, Disc)   cls_fn() gives the input class for the bucket"""
    from elementpath import ElementPathError
    try:
        return fn(), None
    except ElementPathError as e:
        code = str(getattr(e, 'code', '') or '').rsplit(':', 1)[-1]
        return None, Disc(f'{prefix}/error:{code}/{_cls_for(cls_fn, code)}', 'value', repr(e)[:200])
    except Exception as e:
        return None, Disc(escape_bucket('C17', e) + '/' + prefix.split('/', 1)[1], 'value or ElementPathError', repr(e)[:200])


# --------------------------------------------------------------------------
# strings
# --------------------------------------------------------------------------
# format (Cf), line/paragraph separator (Zl, Zp) and other invisible characters, BMP and astral (tag characters of flag
# emoji sequences, musical format, shorthand format): they must survive raw and as (surrogate pair) escapes
_INVISIBLE = ['\u200b', '\u200e', '\u2028', '\u2029', '\ufeff', '\u00ad', '\u2060', '\u061c', '\U000E0001', '\U000E0020', '\U000E0067',
              '\U000E007F', '\U0001D173', '\U0001BCA0', '\U0001F3F4\U000E0067\U000E0062\U000E007F', '\U000E0037']
_INVISIBLE_ASTRAL = [c for c in ''.join(_INVISIBLE) if ord(c) > 0xFFFF and ord(c) != 0x1F3F4]
_INVISIBLE_BMP = [c for c in ''.join(_INVISIBLE) if ord(c) <= 0xFFFF]
_XML_CHARS = list('ab zA1') + ['"', '\\', '/', '\n', '\r', '\t', '\x7f', '\x80', '\x85', '\x9f', '\xa0', 'é', 'ß', 'İ',
                               '\u0301', '\u2028', '\ufffd', '\ue000', '\U0001F600', '\U0001D4B3', '\U0010FFFF', '&', '<',
                               '>', "'", '{', '}', '[', ']', ':', ',', 'u', 'n', 'q', '0', '#', ';'] + _INVISIBLE
_TOKENS = ['\\u12', '\\n', '\\"', '\\\\', '&#34;', '&amp;', '</', ']]>', '\\/', 'null', '\\u0041', '\\q', '&#xFFFD;']
_NON_XML = ['\x00', '\x01', '\x08', '\x0c', '\x1f', '\ufffe', '\uffff', '\ud800', '\udc00', '\udfff']

# strings whose CONTENT looks like JSON syntax (they must come back byte for byte), alone or inside ordinary text
_LOOKALIKES = ['1e6', '1e+20', '1E5', '1e5', '2e3', '1e-7', '0.5e3', '12E4', '1e400', '-0', '1.0', '0', '100', 'true', 'false', 'null',
               'NaN', '[1]', '[]', '{"a":1}', '{}', '\\u0041', 'a/b', '</script>', '"q"', '1,2', 'a:1', '-1.5E-3', '0x10', '1e', 'e5']
_WORDS = ['size', 'bytes', 'a', 'é', 'x', 'is', '=', '~']
_lookalike_string = st.lists(st.one_of(st.sampled_from(_LOOKALIKES), st.sampled_from(_LOOKALIKES), st.sampled_from(_WORDS)),
                             min_size=1, max_size=3).flatmap(lambda ps: st.sampled_from([' ', ' ', '', '-']).map(lambda sep: sep.join(ps)))
# pairs / groups of distinct keys that a text-level rewrite of the serialised JSON would merge or damage
_LOOKALIKE_KEY_GROUPS = [('1e5', '1E5'), ('1e5', '1e+5'), ('1e5', '100000.0'), ('true', 'True'), ('1.0', '1'), ('-0', '0'),
                         ('null', 'NULL'), ('1e5', '1E5', '1E+5'), ('[1]', '[ 1 ]'), ('a/b', 'a\\/b'), ('2e3 bytes', '2E3 bytes')]

_xml_string_plain = st.lists(st.one_of(st.sampled_from(_XML_CHARS), st.sampled_from(_XML_CHARS), st.sampled_from(_TOKENS)),
                       max_size=7).map(''.join)
_xml_string = st.one_of(_xml_string_plain, _xml_string_plain, _lookalike_string,
                        st.tuples(_xml_string_plain, _lookalike_string).map(lambda t: t[0] + ' ' + t[1]))
_any_string = st.lists(st.one_of(st.sampled_from(_XML_CHARS), st.sampled_from(_XML_CHARS), st.sampled_from(_TOKENS),
                                 st.sampled_from(_NON_XML)), max_size=7).map(''.join)

# --------------------------------------------------------------------------
# (1) JSON-representable XDM values
# --------------------------------------------------------------------------
# integers beyond 2**53 that no double represents exactly
_BIG_INTS = [2 ** 53 + 1, -(2 ** 53 + 1), 2 ** 63 - 1, 2 ** 63 + 1, -(2 ** 63) - 1, 2 ** 64 + 1, 10 ** 18 + 1, 1234567890123456789, 10 ** 30 + 7,
             -36028797018963969, 9007199254740995, -(10 ** 25) - 3]
_INTS = [0, 1, -1, 7, -42, 100, 2 ** 31, -2 ** 31, 2 ** 53, 2 ** 63, 10 ** 20, -10 ** 21, 10 ** 25, 123456789] + _BIG_INTS + _BIG_INTS
_DECS = ['0', '0.0', '1.5', '-0.5', '3.14159', '1.005', '100.00', '0.001', '0.125', '-2.50', '12345678901234567890.5',
         '0.00000001', '99.99', '1.015', '-7.123456', '1000000', '0.1', '0.07', '2.675', '123.456789']
_DBLS = [0.0, -0.0, 1.0, 1.5, 0.1, -2.5, 1e20, 1e21, 1e22, 1e-7, 1e-5, 5e-324, 1.7976931348623157e308, 1 / 3, 123456.789e3, 2.0 ** 53,
         1e16, 1e15, 123456789012345680.0, -1e-10, 6.02e23, 100.0, 0.5e-3]

_atom = st.one_of(
    _xml_string.map(lambda s: ['s', s]), _xml_string.map(lambda s: ['s', s]),
    st.booleans().map(lambda b: ['b', b]),
    st.one_of(st.sampled_from(_INTS), st.integers(-1000, 1000)).map(lambda i: ['i', i]),
    st.one_of(st.sampled_from(_DECS), st.tuples(st.integers(-99999, 99999), st.integers(0, 8)).map(
        lambda t: str(Decimal(t[0]).scaleb(-t[1])))).map(lambda d: ['d', d]),
    st.one_of(st.sampled_from(_DBLS), st.floats(allow_nan=False, allow_infinity=False, width=64)).map(lambda f: ['f', f]),
    st.just(['e']),
)


def _uniq_keys(pairs):
    seen, out = set(), []
    for k, v in pairs:
        if k not in seen:
            seen.add(k)
            out.append([k, v])
    return out


_value = st.recursive(
    _atom,
    lambda inner: st.one_of(
        st.lists(inner, max_size=4).map(lambda ms: ['a', ms]),
        st.lists(st.tuples(_xml_string, inner), max_size=4).map(lambda ps: ['m', _uniq_keys(ps)]),
        st.lists(inner, max_size=4).map(lambda ms: ['a', ms]),
        st.lists(st.tuples(_xml_string, inner), max_size=4).map(lambda ps: ['m', _uniq_keys(ps)]),
        st.tuples(st.sampled_from(_LOOKALIKE_KEY_GROUPS), st.lists(inner, min_size=3, max_size=3),
                  st.lists(st.tuples(_xml_string, inner), max_size=2)).map(
            lambda t: ['m', _uniq_keys(list(zip(t[0], t[1])) + t[2])])),
    max_leaves=10)
json_value_case = st.fixed_dictionaries({'v': _value})


def _depth(v):
    if v[0] == 'a':
        return 1 + max([_depth(m) for m in v[1]] or [0])
    if v[0] == 'm':
        return 1 + max([_depth(m) for _k, m in v[1]] or [0])
    return 0


def _leaves(v):
    if v[0] == 'a':
        for m in v[1]:
            yield from _leaves(m)
    elif v[0] == 'm':
        for k, m in v[1]:
            yield ['s', k]
            yield from _leaves(m)
    else:
        yield v


def ref_model(v):
    t = v[0]
    if t == 's':
        return ('s', v[1])
    if t == 'b':
        return ('b', v[1])
    if t == 'i':
        return ('n', float(v[1]), 'integer')
    if t == 'd':
        d = Decimal(v[1])
        scale = max(0, -d.as_tuple().exponent)
        return ('n', float(d), 'decimal-scale>2' if scale > 2 else 'decimal-scale<=2')
    if t == 'f':
        return ('n', float(v[1]), 'double-' + _num_feature(v[1]))
    if t == 'e':
        return ('e',)
    if t == 'a':
        return ('a', [ref_model(m) for m in v[1]])
    if t == 'm':
        return ('m', {k: ref_model(m) for k, m in v[1]})
    raise ValueError(v)


def _xdm_expr(v, variables):
    """XPath constructor expression for the value; every atomic value travels through a variable"""
    t = v[0]
    if t == 'e':
        return '()'
    if t == 'b':
        return 'true()' if v[1] else 'false()'
    if t in ('s', 'i', 'd', 'f'):
        name = 'v%d' % len(variables)
        variables[name] = Decimal(v[1]) if t == 'd' else float(v[1]) if t == 'f' else v[1]
        return '$' + name
    if t == 'a':
        return '[' + ', '.join(_xdm_expr(m, variables) for m in v[1]) + ']'
    parts = []
    for k, m in v[1]:
        name = 'v%d' % len(variables)
        variables[name] = k
        parts.append('$%s: %s' % (name, _xdm_expr(m, variables)))
    return 'map{' + ', '.join(parts) + '}'


def _value_class(v):
    """suspect class for error buckets: first applicable feature of the value"""
    leaves = list(_leaves(v))
    for pred, name in ((lambda x: x[0] == 'd' and ref_model(x)[2] == 'decimal-scale>2', 'decimal-scale>2'),
                       (lambda x: x[0] == 'f', 'double'), (lambda x: x[0] == 'd', 'decimal'),
                       (lambda x: x[0] == 's' and _str_feature(x[1]) not in ('plain', 'empty'), 'string-special'),
                       (lambda x: x[0] == 'e', 'empty-sequence')):
        if any(pred(x) for x in leaves):
            return name
    return 'plain'


def _inexact_integer(v, pv):
    """first (integer of the value, number in the parsed text) pair that is not numerically identical; None if all are"""
    if v[0] == 'i':
        ok = isinstance(pv, (int, Decimal)) and not isinstance(pv, bool) and Decimal(pv) == Decimal(v[1])
        return None if ok else (v[1], pv)
    if v[0] == 'a' and isinstance(pv, list):
        for m, x in zip(v[1], pv):
            r = _inexact_integer(m, x)
            if r:
                return r
    if v[0] == 'm' and isinstance(pv, dict):
        for k, m in v[1]:
            if k in pv:
                r = _inexact_integer(m, pv[k])
                if r:
                    return r
    return None


def _has_key_group(v):
    if v[0] == 'm':
        keys = {k for k, _m in v[1]}
        if any(len(keys & set(g)) >= 2 for g in _LOOKALIKE_KEY_GROUPS):
            return True
        return any(_has_key_group(m) for _k, m in v[1])
    if v[0] == 'a':
        return any(_has_key_group(m) for m in v[1])
    return False


def judge_json_value(case, rec: Recorder | None = None) -> list[Disc]:
    discs: list[Disc] = []
    v = case['v']
    variables: dict = {}
    xv = _xdm_expr(v, variables)
    ref = ref_model(v)
    pre = 'C17/json-value'
    text, d = _call(pre + '/serialize', lambda code: _value_class(v), lambda: _ev(f"serialize({xv}, map{{'method': 'json'}})", variables))
    if d:
        discs.append(d)
    elif not isinstance(text, str):
        discs.append(Disc(pre + '/serialize/not-a-string', 'xs:string', repr(text)[:100]))
    else:
        # independent parser
        try:
            pv = _loads_strict(text)
        except ValueError as e:
            discs.append(Disc(f'{pre}/independent-parser/unparsable/{_value_class(v)}', 'JSON text', text[:200], str(e)))
        else:
            df = diff(ref, py_model(pv))
            if df:
                discs.append(Disc(f'{pre}/independent-parser/{df[0]}', df[1], df[2], f'text={text[:200]!r}'))
            else:
                # xs:integer values are written exactly (Serialization 3.1: as by the cast to xs:string): the number in the
                # text, read with unlimited precision, is the integer itself - also beyond 2**53
                bad = _inexact_integer(v, json.loads(text, parse_float=Decimal))
                if bad:
                    discs.append(Disc(f'{pre}/independent-parser/integer-not-exact/' + ('beyond-2^53' if abs(bad[0]) > 2 ** 53 else 'small'),
                                      bad[0], bad[1], f'text={text[:200]!r}'))
        back, d = _call(pre + '/parse-json', lambda code: _value_class(v), lambda: _ev('parse-json($t)', {'t': text}))
        if d:
            discs.append(d)
        else:
            df = diff(ref, xdm_model(back))
            if df:
                discs.append(Disc(f'{pre}/roundtrip/{df[0]}', df[1], df[2], f'text={text[:200]!r}'))
    if rec is not None:
        leaves = list(_leaves(v))
        dep = _depth(v)
        esc = any(x[0] == 's' and _str_feature(x[1]) not in ('plain', 'empty', 'non-ascii', 'astral') for x in leaves)
        nonint = any(x[0] == 'f' or (x[0] == 'd' and ref_model(x)[2] == 'decimal-scale>2') or
                     (x[0] == 'd' and not float(Decimal(x[1])).is_integer()) for x in leaves)
        classes = ['jv:case'] + (['jv:depth>=2'] if dep >= 2 else []) + (['jv:string-escape'] if esc else []) + \
                  (['jv:non-integer-number'] if nonint else []) + (['jv:empty-sequence'] if any(x[0] == 'e' for x in leaves) else []) + \
                  (['jv:astral'] if any(x[0] == 's' and any(ord(c) > 0xFFFF for c in x[1]) for x in leaves) else []) + \
                  (['jv:invisible-astral'] if any(x[0] == 's' and any(c in x[1] for c in _INVISIBLE_ASTRAL) for x in leaves) else []) + \
                  (['jv:lookalike-string'] if any(x[0] == 's' and _has_lookalike(x[1]) for x in leaves) else []) + \
                  (['jv:lookalike-key-group'] if _has_key_group(v) else []) + \
                  (['jv:integer-beyond-2^53-inexact-as-double'] if any(x[0] == 'i' and float(x[1]) != x[1] for x in leaves) else [])
        rec.case(['jv', v], nontrivial=dep >= 2 or esc or nonint, sample={'check': 'json_value', 'xpath': xv[:120], 'v': v},
                 classes=classes)
    return discs


# --------------------------------------------------------------------------
# (2) JSON texts with randomised surface syntax
# --------------------------------------------------------------------------
_ws = st.sampled_from(['', '', '', ' ', '\n', '\t', '\r\n', '  '])
_SHORT = {'"': '\\"', '\\': '\\\\', '/': '\\/', '\b': '\\b', '\f': '\\f', '\n': '\\n', '\r': '\\r', '\t': '\\t'}


@st.composite
def _json_string_text(draw, s):
    """one of the RFC 8259 spellings of the string s (the text itself only holds XML characters)"""
    out = ['"']
    for ch in s:
        cp = ord(ch)
        if cp > 0xFFFF:
            c = cp - 0x10000
            esc = '\\u%04x\\u%04X' % (0xD800 + (c >> 10), 0xDC00 + (c & 0x3FF))
        else:
            esc = ('\\u%04x' if cp % 2 else '\\u%04X') % cp
        options = [esc]
        if ch in _SHORT:
            options += [_SHORT[ch]] * 2
        if cp >= 0x20 and ch not in '"\\' and is_xml_char(cp):
            options += [ch] * 3
        out.append(options[0] if len(options) == 1 else draw(st.sampled_from(options)))
    out.append('"')
    return ''.join(out)


@st.composite
def _json_number_text(draw):
    sign = draw(st.sampled_from(['', '', '-']))
    ip = draw(st.sampled_from(['0', '1', '7', '10', '100', '123', '9007199254740993', '100000000000000000000', '12345678901234567890123', '42']))
    frac = draw(st.sampled_from(['', '', '.0', '.5', '.25', '.000', '.125', '.10', '.123456789012345678', '.001']))
    exp = draw(st.sampled_from(['', '', '', 'e0', 'E+2', 'e2', 'e-2', 'E-10', 'e+20', 'e21', 'E300', 'e-300', 'e-7', 'E5', 'e15', 'e16']))
    return sign + ip + frac + exp


_CONFUSABLE_KEYS = [tuple(g) for g in _LOOKALIKE_KEY_GROUPS] + [('\\n', '\n'), ('\\/', '/'), ('\\u0041', 'A'), ('\\"', '"'), ('\\\\', '\\'), ('\\t', '\t'), ('a', 'A'),
                    ('\\\\n', '\\n'), ('&#34;', '"'), ('\ufffd', '&#xFFFD;')]


@st.composite
def _json_text(draw, depth=0):
    k = draw(st.integers(0, 11 if depth < 3 else 7))
    w1, w2 = draw(_ws), draw(_ws)
    if k <= 2:
        body = draw(_json_string_text(draw(_any_string if draw(st.integers(0, 4)) == 0 else _xml_string)))
    elif k <= 4:
        body = draw(_json_number_text())
    elif k == 5:
        body = draw(st.sampled_from(['true', 'false']))
    elif k in (6, 7):
        body = 'null' if k == 6 else draw(_json_number_text())
    elif k <= 9:
        items = [draw(_json_text(depth + 1)) for _ in range(draw(st.integers(0, 3)))]
        body = '[' + draw(_ws) + ','.join(items) + ']'
    else:
        n = draw(st.integers(0, 3))
        keys = []
        if draw(st.integers(0, 4)) == 0:
            # distinct keys that a sloppy escape/unescape step would identify (duplicate detection in xml-to-json)
            keys = list(draw(st.sampled_from(_CONFUSABLE_KEYS)))
        for _ in range(n):
            key = draw(_any_string if draw(st.integers(0, 5)) == 0 else _xml_string)
            if key not in keys:
                keys.append(key)
        items = [draw(_json_string_text(key)) + draw(_ws) + ':' + draw(_json_text(depth + 1)) for key in keys]
        body = '{' + draw(_ws) + ','.join(items) + '}'
    return w1 + body + w2


json_text_case = st.fixed_dictionaries({'t': _json_text()})


def _pairs_hook(dups):
    def hook(pairs):
        d = {}
        for k, v in pairs:
            if k in d:
                dups.append(k)
            d[k] = v
        return d
    return hook


def _keys_collide(v):
    if isinstance(v, list):
        return any(_keys_collide(x) for x in v)
    if isinstance(v, dict):
        return len({_fffd(k) for k in v}) != len(v) or any(_keys_collide(x) for x in v.values())
    return False


def _walk_py(v):
    if isinstance(v, list):
        for x in v:
            yield from _walk_py(x)
    elif isinstance(v, dict):
        for k, x in v.items():
            yield ('key', k)
            yield ('member', x)
            yield from _walk_py(x)
    else:
        yield ('leaf', v)


def _text_class(pv, code=None):
    """suspect class of a parsed JSON value for error buckets.  For the error codes with a known family of causes the
    class is the '+'-joined subset of that family present in the text (or 'none'); otherwise the first applicable
    feature in a fixed priority."""
    items = list(_walk_py(pv))
    strs = [x for t, x in items if t != 'member' and isinstance(x, str)]
    if code == 'FOJS0006':
        keys = [x for t, x in items if t == 'key']
        fam = [n for n, p in (
            ('null-in-map', any(t == 'member' and x is None for t, x in items)),
            ('backslash-in-key', any('\\' in k for k in keys) and len(keys) >= 2),
            ('entity-like-key', any('&#34;' in k for k in keys) and any('"' in k for k in keys)),
        ) if p]
        return '+'.join(fam) or 'none'
    if code == 'FOJS0007':
        return 'backslash' if any('\\' in s for s in strs) else 'none'
    if any(_str_feature(s) == 'non-xml-char' for s in strs):
        return 'non-xml-char'
    if any('\\' in s for s in strs):
        return 'backslash'
    if any(t == 'key' and '"' in x for t, x in items):
        return 'quote-in-key'
    if any(t == 'leaf' and isinstance(x, (int, float)) and not isinstance(x, bool) and _num_feature(float(x)) == 'exponent-repr'
           for t, x in items):
        return 'number-exponent-repr'
    if any(_str_feature(s) in ('control', 'c1-control') for s in strs):
        return 'control'
    return 'other'


def _bad_u_escape(text):
    """(kind, excerpt) of the first \\u escape that is not 4 hex digits or is half of a surrogate pair; None when all are fine"""
    i, n = 0, len(text)
    while i < n:
        if text[i] == '\\':
            if i + 1 < n and text[i + 1] == 'u':
                h = text[i + 2:i + 6]
                if len(h) < 4 or any(c not in '0123456789abcdefABCDEF' for c in h):
                    return ('not-4-hex', text[i:i + 8])
                cp = int(h, 16)
                if 0xD800 <= cp <= 0xDBFF:
                    nxt = text[i + 6:i + 12]
                    if not (nxt[:2] == '\\u' and len(nxt) == 6 and all(c in '0123456789abcdefABCDEF' for c in nxt[2:])
                            and 0xDC00 <= int(nxt[2:], 16) <= 0xDFFF):
                        return ('lone-high-surrogate', text[i:i + 12])
                    i += 12
                    continue
                if 0xDC00 <= cp <= 0xDFFF:
                    return ('lone-low-surrogate', text[i:i + 6])
                i += 6
                continue
            i += 2
            continue
        i += 1
    return None


def judge_json_text(case, rec: Recorder | None = None) -> list[Disc]:
    discs: list[Disc] = []
    t = case['t']
    dups: list = []
    pv = json.loads(t, object_pairs_hook=_pairs_hook(dups), parse_constant=lambda s: (_ for _ in ()).throw(ValueError(s)))
    leaves = [x for k, x in _walk_py(pv) if k == 'leaf']
    verdict = not dups and not _keys_collide(pv)
    for x in leaves:
        if isinstance(x, (int, float)) and not isinstance(x, bool):
            try:
                verdict = verdict and math.isfinite(float(x))
            except OverflowError:
                verdict = False
    if verdict:
        pre = 'C17/json-text'
        out, d = _call(pre, lambda code: _text_class(pv, code), lambda: _ev('xml-to-json(json-to-xml($t))', {'t': t}))
        if d:
            d.detail = f't={t[:200]!r}'
            discs.append(d)
        elif not isinstance(out, str):
            discs.append(Disc(f'{pre}/not-a-string', 'xs:string', repr(out)[:100], f't={t[:200]!r}'))
        else:
            bad = _bad_u_escape(out)
            if bad:
                discs.append(Disc(f'{pre}/malformed-u-escape/{bad[0]}', '\\uXXXX (a surrogate pair for astral characters)', bad[1], f't={t[:200]!r} out={out[:200]!r}'))
            try:
                got = _loads_strict(out)
            except ValueError as e:
                discs.append(Disc(f'{pre}/unparsable/{_text_class(pv)}', 'JSON text', out[:200], f't={t[:200]!r} {e}'))
            else:
                df = diff(py_model(pv, replace=True), py_model(got))
                if df:
                    discs.append(Disc(f'{pre}/differs/{df[0]}', df[1], df[2], f't={t[:200]!r} out={out[:200]!r}'))
    if rec is not None:
        escs = '\\' in t
        frac = any(isinstance(x, float) for x in leaves)
        nested = isinstance(pv, (list, dict)) and any(isinstance(x, (list, dict)) for x in (pv if isinstance(pv, list) else pv.values()))
        classes = ['jt:case'] + (['jt:escape-sequence'] if escs else []) + (['jt:number-frac-or-exp'] if frac else []) + \
                  (['jt:no-verdict'] if not verdict else []) + (['jt:non-xml-char'] if _text_class(pv) == 'non-xml-char' else []) + \
                  (['jt:nested'] if nested else []) + \
                  (['jt:invisible-astral'] if any(isinstance(x, str) and any(c in x for c in _INVISIBLE_ASTRAL) for k, x in _walk_py(pv) if k != 'member') else []) + \
                  (['jt:invisible-bmp'] if any(isinstance(x, str) and any(c in x for c in _INVISIBLE_BMP) for k, x in _walk_py(pv) if k != 'member') else []) + \
                  (['jt:lookalike-string'] if any(isinstance(x, str) and _has_lookalike(x) for k, x in _walk_py(pv) if k != 'member') else [])
        rec.case(['jt', t], nontrivial=verdict and (escs or frac or nested), sample={'check': 'json_text', 't': t}, classes=classes)
    return discs


# --------------------------------------------------------------------------
# (3) invalid JSON texts
# --------------------------------------------------------------------------
_INVALID = [
    ('constant', 'NaN'), ('constant', 'Infinity'), ('constant', '-Infinity'), ('constant', '[NaN]'), ('constant', '{"a": Infinity}'),
    ('constant', '[1, -Infinity]'), ('constant', ' NaN '),
    ('trailing-comma', '[1,]'), ('trailing-comma', '{"a":1,}'), ('trailing-comma', '[,]'), ('single-quote', "'a'"),
    ('single-quote', "{'a':1}"), ('unquoted-key', '{a:1}'), ('leading-zero', '01'), ('leading-zero', '-01.5'), ('leading-zero', '[00]'),
    ('number', '.5'), ('number', '1.'), ('number', '+1'), ('number', '0x10'), ('number', '1e'), ('number', '1e+'), ('number', '-'),
    ('number', '1.e2'), ('number', '--1'), ('number', '1_000'), ('comment', '[1] // c'), ('comment', '/* c */ 1'),
    ('control-in-string', '"a\nb"'), ('control-in-string', '"a\tb"'), ('control-in-string', '"\x00"'), ('control-in-string', '"\x1f"'),
    ('garbage', '1 2'), ('garbage', '[1] x'), ('garbage', '{} {}'), ('garbage', 'true false'), ('garbage', '"a" "b"'),
    ('empty', ''), ('empty', ' '), ('empty', '\n'), ('bad-escape', '"\\x41"'), ('bad-escape', '"\\u12G4"'), ('bad-escape', '"\\u123"'),
    ('bad-escape', '"\\a"'), ('bad-escape', '"\\"'), ('bad-escape', '"\\U0041"'), ('bad-escape', "\"\\'\""),
    ('literal', 'tru'), ('literal', 'True'), ('literal', 'nul'), ('literal', 'NULL'), ('literal', 'undefined'), ('literal', 'nan'),
    ('structure', '[1 2]'), ('structure', '{"a" 1}'), ('structure', '{"a":}'), ('structure', '{:1}'), ('structure', '[1'),
    ('structure', '{"a":1'), ('structure', ']'), ('structure', '{"a":1]'), ('structure', '[}'), ('structure', '{1:2}'),
    ('structure', '{"a":1,,"b":2}'), ('structure', '[[]'), ('structure', '"abc'), ('structure', '{"a"}'), ('structure', '[1,2,,3]'),
    ('structure', '{null:1}'), ('structure', '{"a":1 "b":2}'),
]


@st.composite
def _invalid_case(draw):
    kind, text = draw(st.sampled_from(_INVALID))
    wrap = draw(st.integers(0, 5))
    if wrap == 0 and kind not in ('empty', 'garbage', 'comment'):
        text = '[' + draw(_ws) + text + ']'
    elif wrap == 1 and kind not in ('empty', 'garbage', 'comment'):
        text = '{"k":' + text + draw(_ws) + '}'
    elif wrap == 2 and kind not in ('empty',):
        text = draw(_ws) + text + draw(_ws)
    elif wrap == 3 and kind not in ('empty', 'garbage', 'comment'):
        text = '[[1, {"a": [' + text + ']}], "x"]'
    return {'kind': kind, 't': text, 'fn': draw(st.sampled_from(['parse-json', 'json-to-xml', 'json-to-xml-escape', 'parse-json-escape']))}


json_invalid_case = _invalid_case()


def judge_json_invalid(case, rec: Recorder | None = None) -> list[Disc]:
    from elementpath import ElementPathError
    discs: list[Disc] = []
    t, kind, fn = case['t'], case['kind'], case['fn']
    try:
        _loads_strict(t)
        invalid = False
    except ValueError:
        invalid = True
    if invalid:
        expr = {'parse-json': 'parse-json($t)', 'json-to-xml': 'json-to-xml($t)',
                'json-to-xml-escape': "json-to-xml($t, map{'escape': true()})",
                'parse-json-escape': "parse-json($t, map{'escape': true()})"}[fn]
        try:
            r = _ev(expr, {'t': t})
            discs.append(Disc(f'C17/json-invalid/{fn}/accepted/{kind}', 'FOJS0001', repr(xdm_model(r))[:120] if fn.startswith('parse-json') else 'document', f't={t!r}'))
        except ElementPathError as e:
            code = str(getattr(e, 'code', '') or '').rsplit(':', 1)[-1]
            if code != 'FOJS0001':
                discs.append(Disc(f'C17/json-invalid/{fn}/wrong-code:{code}/{kind}', 'FOJS0001', repr(e)[:160], f't={t!r}'))
        except Exception as e:
            discs.append(Disc(escape_bucket('C17', e) + f'/json-invalid/{kind}', 'FOJS0001', repr(e)[:160], f't={t!r}'))
    if rec is not None:
        rec.case(['ji', case], nontrivial=invalid, sample={'check': 'json_invalid', **case},
                 classes=['ji:case', 'ji:' + kind] + ([] if invalid else ['ji:python-accepts(no-verdict)']))
    return discs


# --------------------------------------------------------------------------
# (4) XML trees
# --------------------------------------------------------------------------
_NS = [None, None, None, 'urn:d', 'urn:p', 'urn:q']
_PFX = {'urn:d': '', 'urn:p': 'p', 'urn:q': 'q'}
_XTEXT_CH = list('ab 1') + ['&', '<', '>', '"', "'", ']', ';', 'g', 'p', 'm', '\n', '\t', ' ', 'é', '\U0001F600', '\x85', '\u2028', '/']
_XTOK = [']]>', '&amp;', '&#10;', '<!--', '-->', '<?', '?>', '/>', ' />', 'amp;', '\r', '\r\n']
_xtext = st.one_of(st.none(), st.none(), st.just(''), st.lists(st.one_of(st.sampled_from(_XTEXT_CH), st.sampled_from(_XTEXT_CH),
                                                                   st.sampled_from(_XTOK)), min_size=1, max_size=5).map(''.join))
_xtail = st.one_of(st.none(), _xtext, st.lists(st.one_of(st.sampled_from(_XTEXT_CH), st.sampled_from(_XTOK)), min_size=1, max_size=4).map(''.join))
_xattr_val = st.lists(st.one_of(st.sampled_from(_XTEXT_CH), st.sampled_from(_XTOK)), max_size=4).map(''.join)
_comment_text = st.sampled_from(['', 'c', ' x y ', '<a>&amp;', 'a-b', '?>', ']]>', "it's \"q\"", '\n'])
_pi = st.tuples(st.sampled_from(['x', 'pi', 'xml-stylesheet', 'p.q']), st.sampled_from([None, 'v', 'a="b"', '<&>', 'x ', "?", '>'])).map(list)


@st.composite
def _xelem(draw, depth=0):
    ns = draw(st.sampled_from(_NS))
    attrs = []
    for _ in range(draw(st.sampled_from([0, 0, 1, 1, 2, 3]))):
        ans = draw(st.sampled_from([None, None, None, 'urn:p', 'urn:q', 'http://www.w3.org/XML/1998/namespace']))
        local = draw(st.sampled_from(['x', 'y', 'id', 'lang'] if ans != 'http://www.w3.org/XML/1998/namespace' else ['lang', 'space', 'id']))
        if ans == 'http://www.w3.org/XML/1998/namespace' and local == 'space':
            val = draw(st.sampled_from(['preserve', 'default']))
        elif ans == 'http://www.w3.org/XML/1998/namespace' and local == 'id':
            val = draw(st.sampled_from(['i1', 'x', 'id-2', '_a.b']))     # libxml2 rejects xml:id values that are not NCNames
        else:
            val = draw(_xattr_val)
        if not any(a[0] == ans and a[1] == local for a in attrs):
            attrs.append([ans, local, val])
    children = []
    if depth < 3:
        for _ in range(draw(st.sampled_from([0, 1, 1, 2, 2, 3]))):
            k = draw(st.integers(0, 9))
            if k < 6:
                children.append(draw(_xelem(depth + 1)))
            elif k < 8:
                children.append({'k': 'c', 'v': draw(_comment_text), 'tl': draw(_xtext)})
            else:
                tg, v = draw(_pi)
                children.append({'k': 'p', 'tg': tg, 'v': v, 'tl': draw(_xtext)})
    return {'k': 'e', 'ns': ns, 'n': draw(st.sampled_from(['a', 'b', 'c'])), 'a': attrs, 't': draw(_xtext), 'c': children,
            'tl': draw(_xtail)}


_doc_misc = st.one_of(_comment_text.map(lambda v: {'k': 'c', 'v': v}), _pi.map(lambda p: {'k': 'p', 'tg': p[0], 'v': p[1]}),
                      st.sampled_from([{'k': 'p', 'tg': 'xml-stylesheet', 'v': 'href="a.css" type="text/css"'},
                                       {'k': 'c', 'v': ' Licensed under the terms of X '}, {'k': 'c', 'v': 'end'}]))
xml_case = st.fixed_dictionaries({
    'root': _xelem(), 'backend': st.sampled_from(['et', 'et', 'lxml']), 'top': st.sampled_from(['element', 'document']),
    'fn': st.sampled_from(['parse-xml', 'parse-xml', 'parse-xml-fragment']), 'target': st.integers(0, 30),
    'pre': st.lists(_doc_misc, max_size=2), 'post': st.lists(_doc_misc, max_size=2),
    # document focus: lxml document node with comments / PIs before and after the root element as the target of serialize
    'doc_focus': st.sampled_from([False, False, True]), 'wrap': st.sampled_from(['none', 'none', 'array', 'paren'])})


def _clark(ns, local):
    return '{%s}%s' % (ns, local) if ns else local


def _build(case):
    """materialise by construction; -> (top object, [elements in document order])"""
    if case['backend'] == 'lxml':
        import lxml.etree as E
    else:
        import xml.etree.ElementTree as E
    lx = case['backend'] == 'lxml'
    elems = []

    def has_nons(e):
        return e['ns'] is None or any(has_nons(c) for c in e['c'] if c['k'] == 'e')

    # lxml does not write xmlns="" for a no-namespace element inside a default-namespace scope: use a prefix then
    pfx = dict(_PFX, **({'urn:d': 'd'} if has_nons(case['root']) else {}))

    def mk(e, parent):
        tag = _clark(e['ns'], e['n'])
        attrib = {_clark(a[0], a[1]): a[2] for a in e['a']}
        if lx:
            nsmap = {}
            if e['ns']:
                nsmap[pfx[e['ns']] or None] = e['ns']
            for a in e['a']:
                if a[0] in pfx:
                    nsmap[pfx[a[0]]] = a[0]
            el = E.Element(tag, attrib, nsmap=nsmap) if parent is None else E.SubElement(parent, tag, attrib, nsmap=nsmap)
        else:
            el = E.Element(tag, attrib) if parent is None else E.SubElement(parent, tag, attrib)
        elems.append(el)
        el.text = e['t']
        for c in e['c']:
            if c['k'] == 'e':
                ch = mk(c, el)
                ch.tail = c['tl']
            else:
                ch = E.Comment(c['v']) if c['k'] == 'c' else E.ProcessingInstruction(c['tg'], c['v'])
                ch.tail = c['tl']
                el.append(ch)
        return el

    root = mk(case['root'], None)
    if case['top'] == 'document':
        tree = E.ElementTree(root)
        if lx:
            for m in case['pre']:
                root.addprevious(E.Comment(m['v']) if m['k'] == 'c' else E.ProcessingInstruction(m['tg'], m['v']))
            for m in reversed(case.get('post', [])):
                root.addnext(E.Comment(m['v']) if m['k'] == 'c' else E.ProcessingInstruction(m['tg'], m['v']))
        return tree, elems
    return root, elems


def _merge_text(children):
    out = []
    for c in children:
        if c[0] == 't':
            if not c[1]:
                continue
            if out and out[-1][0] == 't':
                out[-1] = ('t', out[-1][1] + c[1])
                continue
        out.append(c)
    return out


def _spec_model(e):
    ch = [('t', e['t'] or '')]
    for c in e['c']:
        if c['k'] == 'e':
            ch.append(_spec_model(c))
        elif c['k'] == 'c':
            ch.append(('c', c['v']))
        else:
            ch.append(('p', c['tg'], c['v'] or ''))
        ch.append(('t', c['tl'] or ''))
    return ('e', _clark(e['ns'], e['n']), sorted((_clark(a[0], a[1]), a[2]) for a in e['a']), _merge_text(ch))


def _etree_model(el):
    """model of a parsed ElementTree / lxml element (comments and PIs are callable-tagged children)"""
    ch = [('t', el.text or '')]
    for c in el:
        if callable(c.tag):
            name = getattr(c.tag, '__name__', '')
            if 'Comment' in name:
                ch.append(('c', c.text or ''))
            else:
                target = getattr(c, 'target', None)
                text = c.text or ''
                if target is None:              # ElementTree PI: text = 'target value'
                    target, _, text = text.partition(' ')
                ch.append(('p', target, text))
        else:
            ch.append(_etree_model(c))
        ch.append(('t', c.tail or ''))
    return ('e', str(el.tag), sorted((str(k), v) for k, v in el.attrib.items()), _merge_text(ch))


def _node_model(node):
    """model of an elementpath node tree (document or element node) through its own children/attributes links;
    text nodes exactly as elementpath delivers them"""
    from elementpath.xpath_nodes import ElementNode, TextNode, CommentNode, ProcessingInstructionNode, DocumentNode
    if isinstance(node, DocumentNode):
        return ('d', [_node_model(c) for c in node.children])
    if isinstance(node, ElementNode):
        attrs = sorted((str(a.name), str(a.value)) for a in node.attributes)
        return ('e', str(node.name), attrs, [_node_model(c) for c in node.children])
    if isinstance(node, TextNode):
        return ('t', str(node.value))
    if isinstance(node, CommentNode):
        return ('c', node.string_value)
    if isinstance(node, ProcessingInstructionNode):
        return ('p', str(node.name), node.string_value)
    return ('other', type(node).__name__)


def _de_view(m):
    """what fn:deep-equal looks at (F&O 3.1 15.6.1): for element and document nodes the children $n/(*|text()),
    i.e. comments and processing instructions are skipped, text nodes are NOT re-merged"""
    if m[0] == 'd':
        return ('d', [_de_view(c) for c in m[1] if c[0] in ('e', 't')])
    if m[0] == 'e':
        return ('e', m[1], m[2], [_de_view(c) for c in m[3] if c[0] in ('e', 't')])
    return m


def _xdiff(a, b, path='/'):
    """first structural difference between two models: None | (class, expected, observed, path)"""
    if a[0] != b[0]:
        return ('node-kind', a[:2], b[:2], path)
    if a[0] == 't':
        if a[1] != b[1]:
            return ('text/' + _xtext_feature(a[1], b[1]), a[1], b[1], path)
        return None
    if a[0] == 'c':
        return None if a[1] == b[1] else ('comment', a[1], b[1], path)
    if a[0] == 'p':
        return None if (a[1], a[2]) == (b[1], b[2]) else ('pi', a[1:], b[1:], path)
    if a[0] == 'd':
        return _xdiff_children(a[1], b[1], path)
    if a[1] != b[1]:
        return ('element-name', a[1], b[1], path)
    if a[2] != b[2]:
        an, bn = [k for k, _ in a[2]], [k for k, _ in b[2]]
        if an != bn:
            return ('attribute-set', an, bn, path)
        k, va, vb = next((k, v, w) for (k, v), (_k, w) in zip(a[2], b[2]) if v != w)
        return ('attribute-value/' + _xtext_feature(va, vb), va, vb, path + '@' + k)
    return _xdiff_children(a[3], b[3], path + a[1] + '/')


def _nocr(t):
    return t.replace('\r\n', '\n').replace('\r', '\n')


def _xdiff_children(ca, cb, path):
    for i, (x, y) in enumerate(zip(ca, cb)):
        d = _xdiff(x, y, path + f'[{i}]')
        if d:
            if x[0] == 't' and y[0] == 't' and i + 1 < len(ca) and ca[i + 1][0] == 't' and \
                    _nocr(y[1]).startswith(_nocr(x[1] + ca[i + 1][1])):
                return ('text-nodes-merged(comment-or-pi-dropped)', [x[1], ca[i + 1][1]], y[1], path + f'[{i}]')
            return d
    if len(ca) != len(cb):
        extra = (ca if len(ca) > len(cb) else cb)[min(len(ca), len(cb))]
        return ('children-count/' + ('missing-' if len(ca) > len(cb) else 'extra-') + extra[0], len(ca), len(cb), path)
    return None


def _xtext_feature(want, got):
    if '\r' in want and want.replace('\r\n', '\n').replace('\r', '\n') == got:
        return 'cr-normalised'
    if want.strip() == got.strip():
        return 'whitespace-stripped'
    for ch, name in (('\t', 'tab'), ('\n', 'newline')):
        if ch in want and want.replace(ch, ' ') == got:
            return name + '-normalised'
    return 'other'


def _stdlib_parse(text):
    import xml.etree.ElementTree as ET
    p = ET.XMLParser(target=ET.TreeBuilder(insert_comments=True, insert_pis=True))
    p.feed(text)
    return p.close()


def _find_spec(e, idx, counter):
    if counter[0] == idx:
        return e
    counter[0] += 1
    for c in e['c']:
        if c['k'] == 'e':
            r = _find_spec(c, idx, counter)
            if r is not None:
                return r
    return None


def _tree_features(e, feats):
    if e['ns'] or any(a[0] for a in e['a']):
        feats.add('ns')
    for s in [e['t'], e['tl']] + [a[2] for a in e['a']] + [c.get('tl') for c in e['c']]:
        if s and any(ch in s for ch in '&<>"\']\r'):
            feats.add('special')
        if s and '\r' in s:
            feats.add('cr')
    if e['tl']:
        feats.add('tail')
    for c in e['c']:
        if c['k'] == 'e':
            _tree_features(c, feats)
        else:
            feats.add('misc')
    if e['t']:
        feats.add('text')


def _unique_xml_ids(case):
    """libxml2 rejects a document with two equal xml:id values: number them (precondition of a valid tree)"""
    import copy
    case = copy.deepcopy(case)
    n = [0]

    def walk(e):
        for a in e['a']:
            if a[0] == 'http://www.w3.org/XML/1998/namespace' and a[1] == 'id':
                n[0] += 1
                a[2] = '%s%d' % (a[2], n[0])
        for c in e['c']:
            if c['k'] == 'e':
                walk(c)
    walk(case['root'])
    return case


_SER_EXPR = {'none': 'serialize(.)', 'array': 'serialize([.])', 'paren': 'serialize((.))'}


def _ns_pollution():
    """entries of the process-wide xml.etree.ElementTree._namespace_map with a generated-looking prefix: ElementTree
    reserves ns<N> for the prefixes it invents per serialisation, so none may ever be registered globally"""
    import xml.etree.ElementTree as ET
    return {u: p for u, p in ET._namespace_map.items() if re.fullmatch(r'ns\d+', p)}


def _ns_check(prefix, discs, where):
    import xml.etree.ElementTree as ET
    bad = _ns_pollution()
    if bad:
        discs.append(Disc(f'{prefix}/etree-namespace-map-polluted', 'no ns<N> prefix in xml.etree.ElementTree._namespace_map', bad, where))
        for u in bad:                       # re-synchronise the process-wide state
            del ET._namespace_map[u]


def _roundtrip_discs(prefix, top, item, ref, pre, cls, root=None, fn='parse-xml', post=(), wrap='none'):
    """serialize(.) of one node, the text through the stdlib parser and through parse-xml, both against the model"""
    discs: list[Disc] = []
    text, d = _call(prefix + '/serialize', lambda code: 'doc-misc' if pre and code == 'SENR0001' else cls,
                    lambda: _ev(_SER_EXPR[wrap], root=top if root is None else root, item=item))
    _ns_check(prefix, discs, 'after ' + _SER_EXPR[wrap])
    if d:
        discs.append(d)
    elif not isinstance(text, str):
        discs.append(Disc(prefix + '/serialize/not-a-string', 'xs:string', repr(text)[:100]))
    else:
        where = f'serialized={text[:300]!r}'
        # independent parser on the serialised text
        try:
            r = _stdlib_parse(text)
            # stdlib TreeBuilder drops document-level comments/PIs: compare the element only
            df = _xdiff(ref, _etree_model(r))
            if df:
                discs.append(Disc(f'{prefix}/independent-parser/{df[0]}', df[1], df[2], f'at {df[3]} {where}'))
        except Exception as e:          # expat's ParseError is a SyntaxError subclass
            if type(e).__name__ != 'ParseError':
                raise
            discs.append(Disc(f'{prefix}/independent-parser/not-well-formed/{cls}', 'well-formed XML', str(e), where))
        back, d = _call(prefix + '/' + fn, lambda code: cls, lambda: _ev(fn + '($t)', {'t': text}, root=top))
        if d:
            discs.append(d)
        else:
            if isinstance(back, list) and len(back) == 1:
                back = back[0]
            full = _node_model(back)
            gm = _de_view(full)
            if gm[0] != 'd':
                discs.append(Disc(f'{prefix}/roundtrip/not-a-document', 'document-node()', gm[0], where))
            else:
                want = _de_view(('d', [ref]))
                df = _xdiff(want, gm)               # what fn:deep-equal inspects
                if df:
                    discs.append(Disc(f'{prefix}/roundtrip/{df[0]}', df[1], df[2], f'{fn}: at {df[3]} {where}'))
                else:
                    # full structure: comments and processing instructions, also next to the root element
                    df = _xdiff(('d', list(pre) + [ref] + list(post)), full)
                    if df:
                        lvl = 'document-level' if df[3].count('/') <= 1 and (pre or post) else 'inner'
                        discs.append(Disc(f'{prefix}/roundtrip-full/{lvl}/{df[0]}', df[1], df[2], f'{fn}: at {df[3]} {where}'))
    return discs


def _has_misc(e):
    return any(c['k'] != 'e' or _has_misc(c) for c in e['c'])


def _usable_fn(case, spec_e, rec, tag):
    """parse-xml-fragment on the ElementTree data model drops comments and PIs (same root cause as the repaired parse-xml
    defect, proposed/C17/fix13.diff): such draws fall back to parse-xml and are counted"""
    return case.get('fn', 'parse-xml')          # the parse-xml-fragment defect was repaired (fix13): nothing is avoided


def _doc_focus(case):
    # serialize writes a document-level PI as '<?t v?>'.replace(' ?>', '?>'): a value ending in a blank loses it (defect of
    # the fix10 code, repair proposed as proposed/C17/fix14.diff); until then such values are trimmed by construction
    trim = lambda ms: [dict(m, v=m['v'].rstrip(' ') or None) if m['k'] == 'p' and m['v'] else m for m in ms]
    case = dict(case, pre=trim(case['pre']), post=trim(case.get('post', [])))
    if case.get('doc_focus'):
        case = dict(case, backend='lxml', top='document', target=-1)
        if not case['pre'] and not case.get('post'):
            case['pre'] = [{'k': 'p', 'tg': 'xml-stylesheet', 'v': 'href="a.css"'}]
            case['post'] = [{'k': 'c', 'v': 'end'}]
    return case


def _misc_models(ms):
    return [('c', m['v']) if m['k'] == 'c' else ('p', m['tg'], m['v'] or '') for m in ms]


def judge_xml(case, rec: Recorder | None = None) -> list[Disc]:
    discs: list[Disc] = []
    case = _doc_focus(_unique_xml_ids(case))
    top, elems = _build(case)
    n = len(elems)
    idx = n if case['target'] == -1 else case['target'] % (n + 1)        # n = the top node itself
    doc_target = idx == n
    spec_e = case['root'] if doc_target else _find_spec(case['root'], idx, [0])
    ref = _spec_model(spec_e)
    lx = case['backend'] == 'lxml'
    doc_level = lx and case['top'] == 'document' and doc_target
    pre = _misc_models(case['pre']) if doc_level else []
    post = _misc_models(case.get('post', [])) if doc_level else []
    feats: set = set()
    _tree_features(spec_e, feats)
    inner_tail = (not doc_target) and idx > 0 and bool(spec_e['tl'])
    cls = 'tail' if inner_tail else 'cr' if 'cr' in feats else 'doc-misc' if pre or post else 'plain'
    prefix = f'C17/xml/{case["backend"]}'
    item = None if doc_target else elems[idx]
    fn = _usable_fn(case, spec_e, rec, 'xml')
    discs += _roundtrip_discs(prefix, top, item, ref, pre, cls, fn=fn, post=post, wrap=case.get('wrap', 'none'))
    if rec is not None:
        classes = ['xml:case', 'xml:' + case['backend'], 'xml:top-' + case['top']] + \
                  (['xml:namespace'] if 'ns' in feats else []) + (['xml:non-element-child'] if feats & {'misc', 'text'} else []) + \
                  (['xml:special-char'] if 'special' in feats else []) + (['xml:inner-target-with-tail'] if inner_tail else []) + \
                  (['xml:cr'] if 'cr' in feats else []) + (['xml:doc-misc'] if pre or post else []) + \
                  (['xml:doc-misc-before-and-after'] if pre and post else []) + (['xml:lxml-document-target'] if lx and doc_target and case['top'] == 'document' else []) + \
                  (['xml:serialize-' + case.get('wrap', 'none')])
        rec.case(['xml', case], nontrivial=bool(feats & {'ns', 'misc', 'text', 'tail'}),
                 sample={'check': 'xml', 'backend': case['backend'], 'target': idx, 'n_elements': n}, classes=classes)
    return discs


# --------------------------------------------------------------------------
# (5) serialise histories on ONE source tree: inner elements first, then ancestors / the document
# --------------------------------------------------------------------------

def _spec_index(e, depth=0, out=None):
    """[(depth, has_tail, n_descendant_elements)] of the elements in document order"""
    if out is None:
        out = []
    me = len(out)
    out.append([depth, bool(e['tl']) and depth > 0, 0])
    for c in e['c']:
        if c['k'] == 'e':
            _spec_index(c, depth + 1, out)
    out[me][2] = len(out) - me - 1
    return out


def _no_cr(e):
    """CR in text is the known stdlib-serialiser finding of the 'xml' sub-check: keep it out of the histories"""
    def fx(t):
        return t.replace('\r', '') if isinstance(t, str) else t
    e = dict(e, t=fx(e['t']), tl=fx(e['tl']), a=[[a[0], a[1], fx(a[2])] for a in e['a']])
    e['c'] = [_no_cr(c) if c['k'] == 'e' else dict(c, tl=fx(c.get('tl')), v=fx(c.get('v'))) for c in e['c']]
    return e


_xtext_nocr = st.sampled_from([None, '', 'h', 'x y', '<&>'])


@st.composite
def _xml_history_case(draw):
    root = _no_cr(draw(_xelem()))
    if not any(c['k'] == 'e' and c['tl'] for c in root['c']):
        # mixed content by construction: an inner element followed by tail text (and one nested a level deeper)
        inner = {'k': 'e', 'ns': None, 'n': 'b', 'a': [], 't': draw(_xtext_nocr), 'c': [], 'tl': draw(st.sampled_from(['t', ' x', '&', 'a;b', '>']))}
        mid = {'k': 'e', 'ns': draw(st.sampled_from(_NS)), 'n': 'c', 'a': [], 't': None, 'c': [inner], 'tl': draw(st.sampled_from(['u', ' ', 'g;&', ']]>']))}
        root['c'].insert(draw(st.integers(0, len(root['c']))), mid)
    idx = _spec_index(root)
    n = len(idx)
    k = draw(st.integers(2, 5))
    tailed = [i for i, x in enumerate(idx) if x[1]]
    picks = []
    for _ in range(k):
        if tailed and draw(st.integers(0, 2)) > 0:
            picks.append(draw(st.sampled_from(tailed)))
        else:
            picks.append(draw(st.integers(0, n)))          # n = the top node (document or root element)
    if draw(st.integers(0, 9)) < 7:
        # inner first: deepest elements first, the root and the top node last
        picks.sort(key=lambda i: (-(idx[i][0] if i < n else -1), i))
        if draw(st.booleans()):
            picks.append(0)
        if draw(st.booleans()):
            picks.append(n)
    return {'root': root, 'backend': draw(st.sampled_from(['et', 'et', 'lxml'])), 'top': draw(st.sampled_from(['element', 'document'])),
            'pre': [], 'targets': picks, 'shared_node_tree': draw(st.booleans()),
            'fn': draw(st.sampled_from(['parse-xml', 'parse-xml', 'parse-xml-fragment'])),
            # one expression that calls the parse function once per element of the tree
            'per_item': draw(st.sampled_from([None, 'for', 'bang', 'for', 'bang'])),
            # a serialize() call under a namespaces map with generated-looking prefixes (as copied from documents written by
            # ElementTree) before the first and before the last step; its own outcome is not judged
            'ns_map': draw(st.sampled_from([None, {'ns0': 'urn:p'}, {'ns0': 'urn:q', 'ns1': 'urn:p'}, {'ns1': 'urn:d'}, {'ns0': 'urn:d'},
                                            {'ns2': 'urn:q', 'ns0': 'urn:p'}, {'ns0': 'urn:q'}]))}


xml_history_case = _xml_history_case()


def _source_dump(top):
    """own canonical dump of the caller's tree: tag / attrib / text / tail of everything, plus the root's tail"""
    root = top.getroot() if hasattr(top, 'getroot') else top

    def walk(el):
        tag = el.tag if not callable(el.tag) else ('#' + getattr(el.tag, '__name__', 'misc'))
        return [str(tag), sorted((str(k), v) for k, v in el.attrib.items()) if not callable(el.tag) else [],
                el.text, el.tail, [walk(c) for c in el]]
    return walk(root)


def _dump_diff(a, b, path='/'):
    """first difference of two dumps: (kind, path, before, after)"""
    for i, name in ((0, 'tag'), (1, 'attrib'), (2, 'text'), (3, 'tail')):
        if a[i] != b[i]:
            return (name + ('-lost' if b[i] is None or b[i] == [] else '-changed'), path + a[0], a[i], b[i])
    if len(a[4]) != len(b[4]):
        return ('children-count', path + a[0], len(a[4]), len(b[4]))
    for i, (x, y) in enumerate(zip(a[4], b[4])):
        d = _dump_diff(x, y, path + a[0] + f'[{i}]/')
        if d:
            return d
    return None


def judge_xml_history(case, rec: Recorder | None = None) -> list[Disc]:
    discs: list[Disc] = []
    case = _unique_xml_ids(case)
    top, elems = _build(case)
    n = len(elems)
    idx = _spec_index(case['root'])
    prefix = f'C17/xml-history/{case["backend"]}'
    shared = None
    if case.get('shared_node_tree'):
        from elementpath import get_node_tree
        shared = get_node_tree(top)
    before = _source_dump(top)
    seen_inner_tail = False
    inner_then_ancestor = False
    for step, t in enumerate(case['targets']):
        if case.get('ns_map') and step in (0, len(case['targets']) - 1):
            from elementpath import ElementPathError
            try:
                _ev('serialize(.)', root=top, item=elems[0], namespaces=case['ns_map'])
            except (ElementPathError, ValueError):       # ElementTree refuses reserved prefixes: an error is fine here
                pass
            _ns_check(prefix, discs, f'step {step}: serialize(.) with namespaces={case["ns_map"]}')
        i = t % (n + 1)
        doc_target = i == n
        spec_e = case['root'] if doc_target else _find_spec(case['root'], i, [0])
        inner_tail = (not doc_target) and i > 0 and bool(spec_e['tl'])
        if not inner_tail and seen_inner_tail and (doc_target or idx[i][2] > 0):
            inner_then_ancestor = True
        seen_inner_tail = seen_inner_tail or inner_tail
        feats: set = set()
        _tree_features(spec_e, feats)
        cls = 'tail' if inner_tail else 'cr' if 'cr' in feats else 'plain'
        for d in _roundtrip_discs(prefix, top, None if doc_target else elems[i], _spec_model(spec_e), [], cls, root=shared,
                                  fn=_usable_fn(case, spec_e, rec, 'xh')):
            d.detail = f'step {step} target {i}: ' + d.detail
            discs.append(d)
        after = _source_dump(top)
        if after != before:
            df = _dump_diff(before, after)
            discs.append(Disc(f'{prefix}/source-tree-mutated/{df[0]}', df[2], df[3],
                              f'step {step}: serialize() of element #{i} changed the caller\'s tree at {df[1]}'))
            # re-synchronise: continue the history on a freshly built tree
            top, elems = _build(case)
            if shared is not None:
                from elementpath import get_node_tree
                shared = get_node_tree(top)
            before = _source_dump(top)
            if rec is not None:
                rec.cls('xh:resync')
    if case.get('per_item'):
        fn = _usable_fn(case, case['root'], rec, 'xh')
        expr = (f'for $e in descendant-or-self::* return {fn}(serialize($e))' if case['per_item'] == 'for'
                else f'descendant-or-self::* ! {fn}(serialize(.))')
        res, d = _call(prefix + '/per-item-' + fn, lambda code: 'n>=2' if n >= 2 else 'n=1',
                       lambda: _ev(expr, root=top if shared is None else shared, item=elems[0]))
        if d:
            d.detail = f'{expr} over {n} elements'
            discs.append(d)
        else:
            res = res if isinstance(res, list) else [res]
            if len(res) != n:
                discs.append(Disc(f'{prefix}/per-item-{fn}/count', n, len(res), expr))
            else:
                for i, back in enumerate(res):
                    df = _xdiff(_de_view(('d', [_spec_model(_find_spec(case['root'], i, [0]))])), _de_view(_node_model(back)))
                    if df:
                        discs.append(Disc(f'{prefix}/per-item-{fn}/roundtrip/{df[0]}', df[1], df[2], f'{expr}: element #{i} at {df[3]}'))
                        break
        if _source_dump(top) != before:
            discs.append(Disc(f'{prefix}/source-tree-mutated/per-item', 'unchanged', 'changed', expr))
    if rec is not None:
        if case.get('per_item'):
            rec.cls('xh:per-item-expression')
            if n >= 2:
                rec.cls('xh:per-item-expression-n>=2')
        if case.get('ns_map'):
            uris = set(case['ns_map'].values())
            used = []

            def walk(e):
                for u in [e['ns']] + [a[0] for a in e['a']]:
                    if u and u.startswith('urn:') and u not in used:
                        used.append(u)
                for c in e['c']:
                    if c['k'] == 'e':
                        walk(c)
            walk(case['root'])
            rec.cls('xh:ns-map-step')
            if any(u in uris for u in used[1:]) and case['backend'] == 'et':
                rec.cls('xh:ns-map-uri-after-another-namespace(et)')
        classes = ['xh:case', 'xh:' + case['backend']] + (['xh:inner-tail-then-ancestor'] if inner_then_ancestor else []) + \
                  (['xh:inner-tail-step'] if seen_inner_tail else []) + (['xh:shared-node-tree'] if shared is not None else [])
        rec.case(['xh', case], nontrivial=seen_inner_tail, sample={'check': 'xml_history', 'backend': case['backend'],
                                                                      'targets': case['targets'], 'n_elements': n}, classes=classes)
        rec.cls('xh:steps', len(case['targets']))
    return discs


# --------------------------------------------------------------------------
# (6) json-to-xml / parse-json with non-default options on texts whose member names recur ACROSS objects
# --------------------------------------------------------------------------
_REC_KEYS = ['id', 'tags', 'a', 'name', 'k', 'items', '1e5', 'a b']      # no solidus or backslash: escape=true re-escapes them (known, outside the statement)
_rec_atom = st.one_of(st.integers(-5, 100), st.sampled_from([None, True, False, 1.5, 'x', 'a', '', 'id', 'tags', '1e5', 'true', 'a b']))


@st.composite
def _rec_object(draw, depth, keys=None):
    if keys is None:
        keys = draw(st.lists(st.sampled_from(_REC_KEYS), min_size=1, max_size=3, unique=True))
    obj = {}
    for k in keys:
        kind = draw(st.integers(0, 9))
        if depth < 3 and kind < 3:
            # a child object that reuses the names of its parent
            obj[k] = draw(_rec_object(depth + 1, keys if draw(st.booleans()) else None))
        elif depth < 3 and kind < 5:
            obj[k] = [draw(st.one_of(_rec_atom, _rec_object(depth + 1, keys))) for _ in range(draw(st.integers(0, 3)))]
        else:
            obj[k] = draw(_rec_atom)
    return obj


@st.composite
def _records_text(draw):
    shape = draw(st.integers(0, 4))
    keys = draw(st.lists(st.sampled_from(_REC_KEYS), min_size=1, max_size=3, unique=True))
    if shape <= 1:       # array of records with one key set
        v = [draw(_rec_object(1, keys)) for _ in range(draw(st.integers(2, 4)))]
    elif shape == 2:     # a child reusing its parent's key, several levels
        v = None
        for _ in range(draw(st.integers(2, 4))):
            v = {keys[0]: v}
    elif shape == 3:     # sibling objects with equal keys
        v = {k2: draw(_rec_object(1, keys)) for k2 in draw(st.lists(st.sampled_from(['x', 'y', 'z'] + keys), min_size=2, max_size=3, unique=True))}
    else:
        v = draw(_rec_object(0))
    sep = draw(st.sampled_from([(',', ':'), (', ', ': '), (' ,\n', ' : ')]))
    return json.dumps(v, separators=sep, ensure_ascii=draw(st.booleans()))


@st.composite
def _json_options_case(draw):
    fn = draw(st.sampled_from(['json-to-xml', 'json-to-xml', 'parse-json']))
    opts = {}
    if draw(st.integers(0, 9)) < 8:
        opts['duplicates'] = draw(st.sampled_from(['use-first', 'reject', 'retain'] if fn == 'json-to-xml' else ['use-first', 'reject', 'use-last']))
    if fn == 'json-to-xml' and draw(st.integers(0, 3)) == 0 and opts.get('duplicates') != 'retain':
        opts['validate'] = True
    for k in ('liberal', 'escape'):
        if draw(st.integers(0, 4)) == 0:
            opts[k] = draw(st.booleans())
    if not opts:
        opts['duplicates'] = 'use-first'
    return {'t': draw(_records_text()), 'fn': fn, 'opts': opts}


json_options_case = _json_options_case()


def _opts_expr(opts):
    parts = []
    for k in sorted(opts):
        v = opts[k]
        parts.append("'%s': %s" % (k, ('true()' if v else 'false()') if isinstance(v, bool) else "'%s'" % v))
    return 'map{' + ', '.join(parts) + '}'


def judge_json_options(case, rec: Recorder | None = None) -> list[Disc]:
    discs: list[Disc] = []
    t, fn, opts = case['t'], case['fn'], case['opts']
    dups: list = []
    pv = json.loads(t, object_pairs_hook=_pairs_hook(dups))
    if dups:
        raise ValueError('generator produced duplicate member names inside one object')
    ocls = 'duplicates=' + str(opts.get('duplicates', 'default')) + ('+validate' if opts.get('validate') else '')
    pre = f'C17/json-options/{fn}'
    oe = _opts_expr(opts)
    if fn == 'parse-json':
        back, d = _call(pre, lambda code: ocls, lambda: _ev(f'parse-json($t, {oe})', {'t': t}))
        if d:
            d.detail = f't={t[:200]!r} options={oe}'
            discs.append(d)
        else:
            df = diff(py_model(pv), xdm_model(back))
            if df:
                discs.append(Disc(f'{pre}/differs/{df[0]}/{ocls}', df[1], df[2], f't={t[:200]!r} options={oe}'))
    else:
        out, d = _call(pre, lambda code: ocls, lambda: _ev(f'xml-to-json(json-to-xml($t, {oe}))', {'t': t}))
        if d:
            d.detail = f't={t[:200]!r} options={oe}'
            discs.append(d)
        else:
            try:
                got = _loads_strict(out)
            except (ValueError, TypeError) as e:
                discs.append(Disc(f'{pre}/unparsable/{ocls}', 'JSON text', str(out)[:200], f't={t[:200]!r} options={oe} {e}'))
            else:
                df = diff(py_model(pv), py_model(got))
                if df:
                    discs.append(Disc(f'{pre}/differs/{df[0]}/{ocls}', df[1], df[2], f't={t[:200]!r} options={oe} out={out[:200]!r}'))
    if rec is not None:
        names = [k for kind, k in _walk_py(pv) if kind == 'key']
        recur = len(names) != len(set(names))
        rec.case(['jo', case], nontrivial=recur, sample={'check': 'json_options', **case},
                 classes=['jo:case', 'jo:' + fn] + (['jo:name-recurs-across-objects'] if recur else []) +
                 (['jo:duplicates-' + opts['duplicates']] if 'duplicates' in opts else []) + (['jo:validate'] if opts.get('validate') else []))
    return discs


# --------------------------------------------------------------------------
# module interface
# --------------------------------------------------------------------------
_STRATS = {'json_value': json_value_case, 'json_text': json_text_case, 'json_invalid': json_invalid_case, 'xml': xml_case,
           'xml_history': xml_history_case, 'json_options': json_options_case}
_JUDGES = {'json_value': judge_json_value, 'json_text': judge_json_text, 'json_invalid': judge_json_invalid, 'xml': judge_xml,
           'xml_history': judge_xml_history, 'json_options': judge_json_options}


def selftest():
    # XML Char production
    assert is_xml_char(0x9) and not is_xml_char(0x8) and not is_xml_char(0xFFFE) and is_xml_char(0x10FFFF) and not is_xml_char(0xD800)
    # own models on the F&O 3.1 worked examples (17.5.3 parse-json, 17.4.x json-to-xml)
    assert diff(py_model(json.loads('{"x":1, "y":[3,4,5]}')), ('m', {'x': ('n', 1.0, ''), 'y': ('a', [('n', 3.0, ''), ('n', 4.0, ''), ('n', 5.0, '')])})) is None
    assert diff(py_model(json.loads('"abcd"')), ('s', 'abcd')) is None
    assert diff(py_model(json.loads('{"x":"\\\\", "y":"\\u0025"}')), ('m', {'x': ('s', '\\'), 'y': ('s', '%')})) is None
    assert diff(py_model([1, None]), py_model([1, []]))[0] == 'empty-sequence/array-member'
    assert diff(ref_model(['d', '3.14159']), ('n', 3.15, ''))[0] == 'number/decimal-scale>2'
    assert diff(ref_model(['m', [['a', ['e']]]]), ('m', {'a': ('a', [])}))[0] == 'empty-sequence/map-value'
    assert diff(ref_model(['i', 2 ** 53 + 1]), ('n', 9007199254740992.0, '')) is None      # promoted to double
    assert py_model({'a\x00': ['\ud800x', 1]}, True)[:2] == ('m', {'a\ufffd': ('a', [('s', '\ufffdx', 'non-xml-char'), ('n', 1.0, 'integral')])})
    assert _keys_collide([{'a\x00': 1, 'a\x01': 2}]) and not _keys_collide({'a': {'b': 1}})
    assert diff(py_model({'a"': 1}), py_model({'a&#34;': 1}))[0] == 'map-key/quote-as-&#34;'
    assert diff(py_model('\ufffd\x00"', True), py_model('\ufffd&#xFFFD;"'))[0] == 'string/non-xml-as-&#xFFFD;-text'
    v: dict = {}
    assert _xdm_expr(['m', [['k', ['a', [['e'], ['b', True], ['d', '1.5']]]]]], v) == 'map{$v0: [(), true(), $v1]}' and v == {'v0': 'k', 'v1': Decimal('1.5')}
    # XML models: spec model == model of the stdlib parse of a hand-written serialisation
    spec = {'k': 'e', 'ns': 'urn:p', 'n': 'a', 'a': [[None, 'x', 'v&']], 't': 'h', 'tl': None, 'c': [
        {'k': 'c', 'v': 'c1', 'tl': 't1'}, {'k': 'e', 'ns': None, 'n': 'b', 'a': [], 't': None, 'c': [], 'tl': 'g;&'},
        {'k': 'p', 'tg': 'pi', 'v': 'z', 'tl': None}]}
    xml = '<p:a xmlns:p="urn:p" x="v&amp;">h<!--c1-->t1<b/>g;&amp;<?pi z?></p:a>'
    assert _xdiff(_spec_model(spec), _etree_model(_stdlib_parse(xml))) is None
    assert _xdiff(_spec_model(spec), _etree_model(_stdlib_parse(xml.replace('g;&amp;', 'g;&amp'.replace('&amp', '')))))[0].startswith('text/')
    assert _merge_text([('t', 'a'), ('t', ''), ('t', 'b'), ('c', 'x'), ('t', '')]) == [('t', 'ab'), ('c', 'x')]


def jobs(tier, seed):
    q = tier == 'quick'
    plan = {'json_value': (4, 1500) if q else (4, 30000), 'json_text': (3, 1800) if q else (4, 36000),
            'json_invalid': (1, 1000) if q else (1, 20000), 'xml': (4, 1000) if q else (4, 20000),
            'xml_history': (3, 400) if q else (2, 12000), 'json_options': (1, 2000) if q else (1, 30000)}
    out = []
    for chk, (shards, n) in plan.items():
        for i in range(shards):
            out.append({'check': chk, 'shard': i, 'n': n, 'seed': derive_seed(seed, 'C17', chk, i)})
    return out


def run_job(job, rec: Recorder):
    chk = job['check']
    jd = _JUDGES[chk]
    hyp_collect(_STRATS[chk], lambda case: rec.discs_of(chk, case, jd(case, rec)), job['n'], job['seed'], rec)


def shrink_job(job, bucket, budget):
    chk = job['check']
    return hyp_shrink(_STRATS[chk], _JUDGES[chk], bucket, job['n'], job['seed'], budget)


def judge(check, case):
    return _JUDGES[check](case)
