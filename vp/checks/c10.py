"""C10 - Atomic datatypes: lexical space, canonical form and casting are coherent.

Sub-checks
  lex   : for (type T, string s, XSD version): xs:T($s) succeeds  <=>  s is in the lexical space of T after T's whiteSpace
          facet (reference: vp/ref/xsdlex.py); the datatype class constructor T.make(s) likewise; T.is_valid(s) agrees
          with T.make(s); integer subtypes at their exact bounds.
  canon : for valid s: string(xs:T(s)) is the F&O string form, re-parses to an equal value with an equal hash and
          is a fixed point.
  cast  : for (source type S, valid lexical, target type T): 'castable as', 'cast as' and xs:T(.) agree on success
          and value; success and value follow the F&O casting table / rules (reference: xsdlex.cast_ref).
  matrix: the complete source type x target type grid (44 x 44 cells, source literals that are valid literals of the
          target where possible, e.g. xs:anyURI('12') -> xs:integer): three-way agreement and table success / failure.
  decstr: xs:decimal values of tiny / huge magnitude, with python exponent representations (Decimal('1E-7'),
          Decimal('1.2E+4'), trailing zeros) and computed ones (products, round-half-to-even, casts from double) through
          xs:string / string / cast as / xs:untypedAtomic / concat / string-join / xs:token: canonical xs:decimal
          lexical without exponent that casts back to an equal value.
"""
from __future__ import annotations

import math
from decimal import Decimal
from fractions import Fraction

from hypothesis import strategies as st

from vp.core import Disc, Recorder, derive_seed, hyp_collect, hyp_shrink, escape_bucket
from vp.gen import c10_lexgen as G
from vp.ref import xsdlex as X

PROPERTY = 'C10'
LEVEL = 'exploration'
RULE = ('one hypothesis example = one 62-bit integer expanded (splitmix64) into a batch of 24 cases. lex/canon case = '
        '(type T of the 46 built-in atomic types, string s, XSD version, XPath version): s is a valid form from the XSD '
        'grammar of T (30%), a near-valid mutation of one (40%: XML / non-XML whitespace outside or inside, sign, "_", '
        'non-ASCII digit, case, deleted / doubled / swapped / appended character), a hand-picked tricky literal (15%: '
        'impossible dates, bad durations, python literal syntax, bounds) or a form valid for another type (15%). cast '
        'case = (source type S, valid lexical, target type T, versions). non-trivial = near-valid / tricky / other-type '
        'string, or a cast between different types; distinct by canonical case')
ASSUMPTIONS = [
    'reference lexical spaces: XSD 1.0 2nd edition / XSD 1.1 grammars transcribed in vp/ref/xsdlex.py; no verdict for years '
    'with more than 4 digits, second = 60, 29 February in years <= 0, > 6 fractional second digits, anyURI outside the '
    'clearly valid / invalid classes, name characters on which XML 1.0 4th / 5th edition disagree, xs:dateTimeStamp and '
    'year 0000 / +INF are judged per XSD version (1.0: rejected, 1.1: accepted)',
    'whiteSpace facet: only #x20 #x9 #xA #xD are whitespace; any other character next to a literal makes it invalid',
    'xs:QName: only unprefixed names and the statically known prefixes xs / fn / xml are generated; cast to QName from '
    'other types is not judged; xs:NOTATION and list types are excluded',
    'double / float string form: exact string demanded only when the digits are forced (<= 15 / 6 significant digits), '
    'otherwise shape + round trip',
    'double -> decimal casts are judged only when the exact decimal expansion has <= 18 digits',
    'error codes are not compared, only success / failure and the value',
    'T.is_valid() is compared with T.make() of the same class (the two code paths the property names), not with the reference',
]
FLOORS = {
    'lex:nontrivial': (0.5, 'lex:case'),
    'lex:ref-valid': (0.2, 'lex:case'),
    'lex:ref-invalid': (0.3, 'lex:case'),
    'lex:feature:non-xml-ws': (0.04, 'lex:case'),
    'lex:feature:bounds': (0.01, 'lex:case'),
    'canon:judged': (0.5, 'canon:case'),
    'cast:cross-type': (0.5, 'cast:case'),
    'cast:expected-ok': (0.2, 'cast:case'),
    'cast:expected-error': (0.2, 'cast:case'),
    'decstr:class:tiny': (0.15, 'decstr:case'),
    'decstr:class:pos-exponent': (0.08, 'decstr:case'),
    'decstr:class:long': (0.08, 'decstr:case'),
}

BATCH = 24
pool_strategy = st.fixed_dictionaries({'mix': st.integers(0, 2 ** 62)})

LEX_TYPES = [t for t in G.ALL_TYPES]
CANON_TYPES = [t for t in G.ALL_TYPES if t not in ('anyURI',)]
CAST_SOURCES = ['string', 'untypedAtomic', 'boolean', 'decimal', 'integer', 'byte', 'unsignedLong', 'long', 'double', 'float',
                'duration', 'yearMonthDuration', 'dayTimeDuration', 'dateTime', 'date', 'time', 'gYear', 'gYearMonth',
                'gMonth', 'gMonthDay', 'gDay', 'hexBinary', 'base64Binary', 'anyURI', 'token', 'NCName']
CAST_TARGETS = ['string', 'untypedAtomic', 'boolean', 'decimal', 'double', 'float', 'duration', 'yearMonthDuration',
                'dayTimeDuration', 'dateTime', 'date', 'time', 'gYear', 'gYearMonth', 'gMonth', 'gMonthDay', 'gDay',
                'hexBinary', 'base64Binary', 'anyURI', 'token', 'NCName', 'language', 'normalizedString'] + list(G.INTEGER_TYPES)


def _expand_lex(mx):
    t = mx.pick(LEX_TYPES)
    s, how = G.gen_case_string(mx, t)
    return {'t': t, 's': s, 'ver': mx.pick(['1.0', '1.1']), 'xp': mx.pick(['2.0', '3.1']), 'how': how}


def _expand_cast(mx):
    s = mx.pick(CAST_SOURCES)
    if mx.below(3) == 0:
        t = s if s in CAST_TARGETS else 'string'
    elif mx.below(2):
        # a target from the same column family, so that allowed casts are frequent
        fam = [x for x in CAST_TARGETS if X.cast_allowed(s, x)]
        t = mx.pick(fam)
    else:
        t = mx.pick(CAST_TARGETS)
    if s in ('string', 'untypedAtomic', 'token'):
        # lexical forms of the target type (valid, mutated or foreign)
        lex, how = G.gen_case_string(mx, t if t in G.ALL_TYPES else 'string')
    else:
        lex, how = G.gen_valid(mx, s), 'valid'
    return {'S': s, 'lex': lex, 'T': t, 'ver': mx.pick(['1.0', '1.1']), 'xp': mx.pick(['2.0', '3.1']), 'how': how}


DEC_SOURCES = ['$d', '$d', '$d', '-$d', 'abs($d)', '$d * $e', '$d + $e', '$d * 10', '$d * 100', 'round-half-to-even($d, -2)',
               'round-half-to-even($d, 2)', 'round-half-to-even($d, -1)', 'round($d)', 'xs:decimal($x)', '$d div 8', '$i * $d',
               'xs:decimal($d)']
DEC_PATHS = ['xs:string({E})', 'string({E})', '({E}) cast as xs:string', 'xs:untypedAtomic({E})', '({E}) cast as xs:untypedAtomic',
             "concat({E}, '')", "string-join(({E}, 'x'), '')", 'xs:token({E})', 'xs:normalizedString({E})', "concat('[', {E}, ']')"]
_DEC_DOUBLES = ['100.0', '1e2', '1.5e3', '1e20', '1e22', '0.5', '0.0009765625', '12345.0', '1e15', '7.62939453125e-06', '2.5e-1']


def _expand_decstr(mx):
    d, cls = G.gen_pydecimal(mx)
    src = mx.pick(DEC_SOURCES)
    if cls == 'long' and src not in ('$d', 'xs:decimal($d)'):
        src = '$d'            # arithmetic on more digits than the implementation's precision is implementation-defined
    e, _ = G.gen_pydecimal(mx)
    if len(e.replace('.', '').replace('-', '')) > 12:
        e = '1.5E+3'
    path = mx.pick(DEC_PATHS)
    xp = '3.1' if 'string-join' in path else mx.pick(['2.0', '3.1'])
    return {'d': d, 'e': e, 'x': mx.pick(_DEC_DOUBLES), 'i': mx.pick([3, 10, 1000, -7]), 'src': src, 'path': path,
            'cls': cls, 'ver': mx.pick(['1.0', '1.1']), 'xp': xp}


# ---- the complete source type x target type grid (finite: enumerated, not sampled) ---------------------------
MATRIX_TYPES = [t for t in G.ALL_TYPES]
#: canonical-looking sample literals per type; the grid pairs every source type S with every target type T and picks
#: source literals whose string form is (when possible) a valid literal of T
SAMPLE_LITERALS = {
    'string': ['12', 'abc'], 'normalizedString': ['12', 'a b'], 'token': ['12', 'abc'], 'language': ['en', 'P1D'],
    'NMTOKEN': ['12', '2000-01-01'], 'Name': ['abc', 'P1D'], 'NCName': ['abc', 'true'], 'ID': ['abc'], 'IDREF': ['abc'],
    'ENTITY': ['abc'], 'untypedAtomic': ['12', 'abc'], 'anyURI': ['12', 'http://example.com/a'], 'QName': ['xs:int'],
    'boolean': ['true', '0'], 'decimal': ['12', '1.5', '-3'], 'double': ['12', '1.5', 'NaN', '-3'], 'float': ['12', '0.5', 'INF', '-3'],
    'duration': ['P1Y2M3DT4H5M6S', 'P1Y', 'PT1H'], 'yearMonthDuration': ['P1Y2M'], 'dayTimeDuration': ['P1DT2H', 'PT0S'],
    'dateTime': ['2000-01-02T03:04:05Z', '1999-12-31T23:59:59.5'], 'dateTimeStamp': ['2000-01-02T03:04:05Z'],
    'date': ['2000-01-02Z', '1999-12-31'], 'time': ['03:04:05Z', '23:59:59.5'], 'gYearMonth': ['2000-01'], 'gYear': ['2000', '1999Z'],
    'gMonthDay': ['--01-02'], 'gDay': ['---02'], 'gMonth': ['--01'], 'hexBinary': ['0FB7', '12'], 'base64Binary': ['AQID', 'abcd'],
}
for _t in G.INTEGER_TYPES:
    SAMPLE_LITERALS[_t] = ['-3', '-1'] if _t in ('negativeInteger', 'nonPositiveInteger') else ['12', '1', '0'] if _t != 'positiveInteger' else ['12', '1']


def matrix_cases() -> list:
    """every (S, T) cell with up to 3 source literals, both XSD versions, both XPath versions (deterministic order)"""
    out = []
    for S in MATRIX_TYPES:
        for T in MATRIX_TYPES:
            if T == 'QName' and S != 'QName':
                continue            # cast to QName depends on the XPath version and the static namespaces
            cands = []
            for lit in SAMPLE_LITERALS[T] + SAMPLE_LITERALS[S]:
                if lit not in cands and X.is_valid(S, lit, '1.1') is True:
                    cands.append(lit)
            for k, lit in enumerate(cands[:3]):
                for ver in ('1.0', '1.1'):
                    if 'dateTimeStamp' in (S, T) and ver == '1.0':
                        continue
                    out.append({'S': S, 'lex': lit, 'T': T, 'ver': ver, 'xp': '2.0' if (k + len(out)) % 2 else '3.1', 'how': 'matrix'})
    return out


def expand(check, pool):
    mx = G.Mix(pool['mix'])
    if check == 'decstr':
        return [_expand_decstr(mx) for _ in range(BATCH)]
    if check in ('lex', 'canon'):
        out = []
        for _ in range(BATCH):
            c = _expand_lex(mx)
            if check == 'canon':
                # canonical forms need valid input: prefer valid and whitespace-padded forms
                tries = 0
                while X.is_valid(c['t'], c['s'], c['ver']) is not True and tries < 6:
                    c = _expand_lex(mx)
                    tries += 1
            out.append(c)
        return out
    return [_expand_cast(mx) for _ in range(BATCH)]


def _cases_of(check, case):
    if 'mix' in case:
        return expand(check, case)
    return case['batch'] if 'batch' in case else [case]


# --------------------------------------------------------------------------
# elementpath access
# --------------------------------------------------------------------------
_ROOT = None
_PARSER: dict = {}
_TOKENS: dict = {}


def _root():
    global _ROOT
    if _ROOT is None:
        import xml.etree.ElementTree as ET
        _ROOT = ET.Element('r')
    return _ROOT


def _parser(xp, ver):
    p = _PARSER.get((xp, ver))
    if p is None:
        from elementpath import XPath2Parser
        from elementpath.xpath31 import XPath31Parser
        cls = {'2.0': XPath2Parser, '3.1': XPath31Parser}[xp]
        p = _PARSER[(xp, ver)] = cls(xsd_version=ver)
    return p


class _Err:
    def __init__(self, code, msg):
        self.code, self.msg = code, msg

    def __repr__(self):
        return f'error {self.code}: {self.msg[:100]}'


def _xp(xp, ver, expr, **variables):
    """value | _Err ; non-elementpath exceptions propagate (escape)"""
    from elementpath import XPathContext, ElementPathError
    try:
        key = (xp, ver, expr)
        token = _TOKENS.get(key)
        if token is None:
            token = _TOKENS[key] = _parser(xp, ver).parse(expr)
        return token.get_results(XPathContext(_root(), variables=variables))
    except ElementPathError as e:
        return _Err((e.code or '').split(':')[-1], str(e))


_PY_ERRORS = (ValueError, TypeError, ArithmeticError, OverflowError)


def _py_class(t, ver):
    from elementpath import datatypes as D
    cls = D.builtin_atomic_types['xs:' + t]
    return cls


def _py_make(t, s, ver):
    """('ok', value) | ('error', exc) through the datatype class: T.make(s, xsd_version=ver)"""
    cls = _py_class(t, ver)
    try:
        return 'ok', cls.make(s, xsd_version=ver)
    except _PY_ERRORS as e:
        return 'error', e


# --------------------------------------------------------------------------
# input classes
# --------------------------------------------------------------------------
_XML_WS = ' \t\n\r'
_NUMERICISH = set(G.INTEGER_TYPES) | {'decimal', 'double', 'float'} | set(G.DATE_TYPES) | set(G.DURATION_TYPES) | \
    {'boolean', 'hexBinary', 'base64Binary'}


FAMILY = {}
for _t in G.INTEGER_TYPES:
    FAMILY[_t] = 'integer'
for _t in G.DATE_TYPES:
    FAMILY[_t] = 'datetime'
for _t in G.DURATION_TYPES:
    FAMILY[_t] = 'duration'
for _t in ('language', 'NMTOKEN', 'Name', 'NCName', 'ID', 'IDREF', 'ENTITY'):
    FAMILY[_t] = 'name'
for _t in ('string', 'normalizedString', 'token', 'untypedAtomic'):
    FAMILY[_t] = 'text'
FAMILY.update({'double': 'float', 'float': 'float', 'decimal': 'decimal', 'boolean': 'boolean', 'hexBinary': 'hexBinary',
               'base64Binary': 'base64Binary', 'anyURI': 'anyURI', 'QName': 'QName'})


def _is_other_ws(c):
    return (c.isspace() and c not in _XML_WS) or c in '\u200b\ufeff\x1c\x1d\x1e\x1f'


def feature(t, s, ver):
    """the most specific suspicious input class of s for type t (first match wins)"""
    if t in ('string', 'normalizedString', 'token', 'untypedAtomic'):
        if any(_is_other_ws(c) for c in s):
            return 'text-non-xml-ws'
        return 'text-ws' if any(c in _XML_WS for c in s) else 'text'
    if t == 'anyURI':
        bad = any(c == '%' and (len(s[i + 1:i + 3]) < 2 or any(x not in '0123456789abcdefABCDEF' for x in s[i + 1:i + 3]))
                  for i, c in enumerate(s))
        return 'uri-bad-escape' if bad else 'uri-two-fragments' if s.count('#') > 1 else 'uri'
    if any(_is_other_ws(c) for c in s):
        return 'non-xml-ws'
    core = s.strip(_XML_WS)
    if t in _NUMERICISH:
        if '_' in s:
            return 'underscore'
        if any(ord(c) > 127 and (c.isdigit() or c.isnumeric()) for c in s):
            return 'non-ascii-digit'
    inner = any(c in _XML_WS for c in core)
    if t in ('double', 'float'):
        low = core.lower()
        if low.lstrip('+-') in ('nan',) and core.lstrip('+-') == 'NaN' and core != 'NaN':
            return 'signed-nan'
        if core == '+INF':
            return 'plus-inf'
        if low.lstrip('+-') in ('inf', 'infinity', 'nan') and core not in ('INF', '-INF', 'NaN'):
            return 'special-spelling'
    if inner:
        return 'xml-ws-inner'
    if t in G.INTEGER_TYPES:
        body = core[1:] if core[:1] in '+-' else core
        if body and all(c in '0123456789' for c in body):
            if not X.in_int_bounds(t, int(core)):
                return 'bounds'
            return 'xml-ws-outer' if core != s else 'integer-literal'
    if t in G.DATE_TYPES and X.is_valid(t, core, ver) is False:
        body, ydigits = core, ''
        if t not in ('time', 'gMonthDay', 'gDay', 'gMonth'):
            sign = '-' if core.startswith('-') else ''
            rest = core[len(sign):]
            n = 0
            while n < len(rest) and rest[n] in '0123456789':
                n += 1
            ydigits = rest[:n]
            if n >= 4:
                body = sign + '9999' + rest[n:]
        shape = ''.join('9' if c in '0123456789' else c for c in body)
        if '.9' in shape:          # any number of fraction digits
            i = shape.index('.9')
            j = i + 1
            while j < len(shape) and shape[j] == '9':
                j += 1
            shape = shape[:i] + '.9' + shape[j:]
        if shape in _date_shapes(t):
            if len(ydigits) > 4 and ydigits[0] == '0':
                return 'year-leading-zero'
            if ydigits == '0000' and X.is_valid(t, core.replace('0000', '0004', 1), ver) is not False:
                return 'year-zero'
            return 'date-range'
    if t in G.DURATION_TYPES and X.is_valid('duration', core, ver) is True and X.is_valid(t, core, ver) is False:
        return 'duration-wrong-fields'
    if core != s:
        return 'xml-ws-outer'
    return 'plain'


_SHAPES: dict = {}


def _date_shapes(t):
    """digit-shapes ('9999-99-99T99:99:99' ...) of the well-formed literals of a date/time type (with optional fraction / tz)"""
    got = _SHAPES.get(t)
    if got is None:
        base = {'dateTime': '9999-99-99T99:99:99', 'dateTimeStamp': '9999-99-99T99:99:99', 'date': '9999-99-99', 'time': '99:99:99',
                'gYearMonth': '9999-99', 'gYear': '9999', 'gMonthDay': '--99-99', 'gDay': '---99', 'gMonth': '--99'}[t]
        got = set()
        for sign in ('', '-') if base.startswith('9999') else ('',):
            for frac in ('', '.9') if base.endswith('99:99:99') else ('',):
                for tz in ('', 'Z', '+99:99', '-99:99'):
                    got.add(sign + base + frac + tz)
        _SHAPES[t] = got
    return got


def _year_zero(t, core):
    if t in ('time', 'gMonthDay', 'gDay', 'gMonth'):
        return False
    return core.lstrip('-')[:4] == '0000'


# --------------------------------------------------------------------------
# lifting elementpath values into the reference value mapping
# --------------------------------------------------------------------------

def xsd_name_of(v):
    """XSD type name of an elementpath atomic value"""
    if isinstance(v, bool):
        return 'boolean'
    name = getattr(type(v), 'name', None)
    if isinstance(v, int):
        return name or 'integer'
    if isinstance(v, float):
        return name or 'double'
    if isinstance(v, Decimal):
        return 'decimal'
    if isinstance(v, str):
        return name or 'string'
    return name


def lift(v, ver):
    """(xsd type name, reference value) of an elementpath value; ('?', repr) if not liftable"""
    from elementpath import datatypes as D
    n = xsd_name_of(v)
    if isinstance(v, bool):
        return n, v
    if isinstance(v, int):
        return n, int(v)
    if isinstance(v, float):
        return n, float(v)
    if isinstance(v, Decimal):
        return n, Fraction(v)
    if isinstance(v, str):
        return n, str(v)
    if isinstance(v, D.UntypedAtomic):
        return n, v.value
    if isinstance(v, D.AnyURI):
        return n, v.value
    if isinstance(v, D.AbstractBinary):
        try:
            return n, X.parse(n, v.value.decode('ascii'), ver)
        except (X.LexError, X.NoVerdict, UnicodeError):
            return '?', repr(v)
    if isinstance(v, D.Duration):
        return n, ('D', int(v.months), Fraction(v.seconds))
    if isinstance(v, D.AbstractDateTime):
        try:
            return n, X.parse(n, str(v), ver)
        except (X.LexError, X.NoVerdict):
            return '?', str(v)
    if isinstance(v, D.AbstractQName):
        return n, ('Q', v.prefix or '', v.local_name)
    return '?', repr(v)


def _same_value(a, b):
    if isinstance(a, float) and isinstance(b, float):
        if math.isnan(a) or math.isnan(b):
            return math.isnan(a) and math.isnan(b)
        return a == b and math.copysign(1, a) == math.copysign(1, b)
    if isinstance(a, bool) != isinstance(b, bool):
        return False
    return a == b


# --------------------------------------------------------------------------
# lex
# --------------------------------------------------------------------------

def judge_lex_case(case, rec: Recorder | None = None) -> list[Disc]:
    t, s, ver, xp = case['t'], case['s'], case['ver'], case['xp']
    discs: list[Disc] = []
    ref = X.is_valid(t, s, ver)
    if t == 'dateTimeStamp' and ver == '1.0':
        ref = None
    if t == 'QName' and ref is True and X.parse('QName', s, ver)[1] not in ('', 'xs', 'fn', 'xml'):
        ref = None          # the prefix must be statically known: not a lexical question
    feat = feature(t, s, ver)
    fam = FAMILY[t]
    classes = ['lex:case', 'lex:type:' + t, 'lex:feature:' + feat, 'lex:how:' + case.get('how', '?').split(':')[0].split('+')[0]]
    classes.append('lex:ref-valid' if ref is True else 'lex:ref-invalid' if ref is False else 'lex:no-verdict')
    nontrivial = case.get('how', 'valid') != 'valid' or feat not in ('plain', 'text', 'integer-literal')
    if nontrivial:
        classes.append('lex:nontrivial')
    if rec is not None:
        rec.case(['lex', t, s, ver, xp], nontrivial=nontrivial, sample={'check': 'lex', 'case': case}, classes=classes)
    detail = f'xs:{t}({s!r}) xsd={ver} xpath={xp}'

    # 1. XPath constructor function
    xp_ok = None
    if not (t == 'dateTimeStamp' and ver == '1.0'):
        try:
            r = _xp(xp, ver, f'xs:{t}($s)', s=s)
            xp_ok = not isinstance(r, _Err)
            if ref is not None and xp_ok != ref:
                kind = 'accepts-invalid' if xp_ok else 'rejects-valid'
                discs.append(Disc(f'C10/lex/{kind}/{feat}/{fam}', 'valid' if ref else 'FORG0001', r, detail))
            # the same string as xs:untypedAtomic must behave alike
            r2 = _xp(xp, ver, f'xs:{t}(xs:untypedAtomic($s))', s=s)
            if (not isinstance(r2, _Err)) != xp_ok and t != 'QName':
                discs.append(Disc(f'C10/lex/untypedAtomic-differs-from-string/{feat}/{fam}', r, r2, detail))
        except Exception as e:
            discs.append(Disc(escape_bucket('C10', e) + f'/lex/{t}', 'value or FORG0001', repr(e), detail))

    # 2. datatype class: make() and is_valid()
    if t not in ('QName', 'untypedAtomic') and not (t == 'dateTimeStamp' and ver == '1.0'):
        try:
            st_, v = _py_make(t, s, ver)
            py_ok = st_ == 'ok'
        except Exception as e:
            discs.append(Disc(escape_bucket('C10', e) + f'/make/{t}', 'value or ValueError', repr(e), detail))
            return discs
        if ref is not None and py_ok != ref and (xp_ok is None or xp_ok == ref):
            kind = 'accepts-invalid' if py_ok else 'rejects-valid'
            discs.append(Disc(f'C10/make/{kind}/{feat}/{fam}', 'valid' if ref else 'ValueError', repr(v), detail))
        try:
            iv = _py_class(t, ver).is_valid(s)
        except Exception as e:
            discs.append(Disc(escape_bucket('C10', e) + f'/is_valid/{t}', 'bool', repr(e), detail))
            return discs
        if iv is not py_ok and ref is not None and iv is not ref and t != 'anyURI' and not (ver == '1.0' and feat in ('plus-inf', 'year-zero')):
            # is_valid has no XSD version argument: version dependent literals are not compared.  When make() is wrong
            # about the reference and is_valid() is right, the discrepancy is make()'s (reported above), not is_valid()'s
            kind = 'is_valid-true-make-fails' if iv else 'is_valid-false-make-succeeds'
            discs.append(Disc(f'C10/is_valid/{kind}/{feat}/{fam}', py_ok, iv, detail))
    return discs


# --------------------------------------------------------------------------
# canon
# --------------------------------------------------------------------------
_FLOATS = ('double', 'float')


def judge_canon_case(case, rec: Recorder | None = None) -> list[Disc]:
    t, s, ver, xp = case['t'], case['s'], case['ver'], case['xp']
    discs: list[Disc] = []
    classes = ['canon:case', 'canon:type:' + t]
    judged = False
    detail = f'xs:{t}({s!r}) xsd={ver} xpath={xp}'
    try:
        refv = X.parse(t, s, ver) if not (t == 'dateTimeStamp' and ver == '1.0') else None
        valid = refv is not None
    except (X.LexError, X.NoVerdict):
        valid = False
    if valid and t not in ('anyURI',):
        try:
            v = _xp(xp, ver, f'xs:{t}($s)', s=s)
            c = _xp(xp, ver, f'string(xs:{t}($s))', s=s)
            if isinstance(v, _Err) or isinstance(c, _Err):
                classes.append('canon:ctor-failed')      # reported by the lex check
            else:
                judged = True
                refc = X.canonical(t, refv)
                alt = None
                if t == 'float':
                    try:
                        alt = X.parse('double', s, ver)
                    except (X.LexError, X.NoVerdict):
                        alt = None
                discs += _judge_canonical_string(t, refv, refc, c, ver, detail, alt, s)
                # fixed point / re-parse
                v2 = _xp(xp, ver, f'xs:{t}($s)', s=c)
                if isinstance(v2, _Err):
                    discs.append(Disc(f'C10/canon/{t}/canonical-not-reparsable', 'a value', v2, f'{detail} canonical={c!r}'))
                else:
                    nan = isinstance(v, float) and math.isnan(v)
                    cls_ = ('datetime/' + _dt_class(refv, s)) if FAMILY[t] == 'datetime' else t
                    if not nan and not (v == v2 and v2 == v):
                        discs.append(Disc(f'C10/canon/{cls_}/reparse-not-equal', repr(v), repr(v2), f'{detail} canonical={c!r}'))
                    elif not nan:
                        try:
                            if hash(v) != hash(v2):
                                discs.append(Disc(f'C10/canon/{cls_}/hash-differs', hash(v), hash(v2), f'{detail} canonical={c!r}'))
                        except TypeError as e:
                            discs.append(Disc(f'C10/canon/{t}/unhashable', 'hashable', repr(e), detail))
                    c2 = _xp(xp, ver, f'string(xs:{t}($s))', s=c)
                    if c2 != c:
                        discs.append(Disc(f'C10/canon/{cls_}/not-a-fixed-point', c, c2, detail))
                    # python str() of the datatype classes that define their own string form
                    from elementpath import datatypes as D
                    if isinstance(v, (D.AbstractDateTime, D.Duration, D.AbstractBinary, D.AnyURI, D.AbstractQName, D.UntypedAtomic)):
                        if str(v) != c:
                            discs.append(Disc(f'C10/canon/{t}/str-differs-from-fn-string', c, str(v), detail))
        except Exception as e:
            discs.append(Disc(escape_bucket('C10', e) + f'/canon/{t}', 'canonical string', repr(e), detail))
    if judged:
        classes.append('canon:judged')
    if rec is not None:
        rec.case(['canon', t, s, ver, xp], nontrivial=judged and X.normalize(t, s) != (X.canonical(t, refv) if judged else None),
                 sample={'check': 'canon', 'case': case}, classes=classes)
    return discs


def _dt_class(refv, s_in) -> str:
    """input class of a date/time literal: hour 24, years before 0001, both, or plain"""
    lit = s_in.strip(' \t\n\r')
    h24 = 'T24:' in lit or lit.startswith('24:')
    bce = refv[2] is not None and (lit.startswith('-') and not lit.startswith('--') or lit.startswith('0000'))
    return 'hour24+year<=0' if (h24 and bce) else 'hour24' if h24 else 'year<=0' if bce else 'plain'


def _judge_canonical_string(t, refv, refc, c, ver, detail, alt=None, s_in='') -> list[Disc]:
    if not isinstance(c, str):
        return [Disc(f'C10/canon/{t}/string-type', refc, repr(c), detail)]
    if c == refc:
        return []
    if t in _FLOATS:
        prob = X.double_string_problem(refv, c, float32=(t == 'float'))
        if prob is None:
            return []
        # same value, other spelling?
        try:
            back = X.parse(t, c, ver)
            same = _same_value(back, refv)
        except (X.LexError, X.NoVerdict):
            same = False
        rng = 'special' if (math.isnan(refv) or math.isinf(refv) or refv == 0) else \
            'decimal-range' if 0.000001 <= abs(refv) < 1000000 else 'sci-range'
        kind = 'form' if same else 'value'
        if t == 'float' and not same and alt is not None:
            try:
                if _same_value(X.parse('double', c, ver), alt):
                    kind = 'float-as-double' if X.double_string_problem(alt, c) is None else 'float-as-double+form'
            except (X.LexError, X.NoVerdict):
                pass
        return [Disc(f'C10/canon/{t}/{kind}/{rng}', refc, c, detail)]
    try:
        back = X.parse(t, c, ver)
        same = _same_value(back, refv)
    except (X.LexError, X.NoVerdict):
        same = False
    if FAMILY[t] == 'datetime':
        return [Disc(f'C10/canon/datetime/{_dt_class(refv, s_in)}/{"form" if same else "value"}', refc, c, detail)]
    return [Disc(f'C10/canon/{FAMILY[t] if FAMILY[t] in ("integer", "name", "text") else t}/{"form" if same else "value"}', refc, c, detail)]


# --------------------------------------------------------------------------
# cast
# --------------------------------------------------------------------------

def _grp(t):
    """casting table class of t; derived types are marked (intD: integer subtypes, strD: string subtypes)"""
    c = X.table_class(t)
    if c == 'int' and t != 'integer':
        return 'intD'
    if c == 'str' and t != 'string':
        return 'strD'
    if t == 'dateTimeStamp':
        return 'dTS'
    return c


def _float_as_double_explains(S, lex, T, ver, observed) -> bool:
    """would the observed cast result be right if xs:float were just another name for xs:double?"""
    S2 = 'double' if S == 'float' else S
    T2 = 'double' if T == 'float' else T
    try:
        src2 = X.parse(S2, lex, ver)
        try:
            exp2 = X.cast_ref(S2, src2, T2, ver)
        except X.NoVerdict:
            if T2 == 'decimal' and isinstance(src2, float) and not (math.isnan(src2) or math.isinf(src2)):
                exp2 = Fraction(src2)
            else:
                return False
    except (X.LexError, X.NoVerdict, X.CastError):
        return False
    if _same_value(observed, exp2):
        return True
    if isinstance(exp2, str) and isinstance(observed, str) and isinstance(src2, float):
        try:
            return _same_value(X.parse('double', observed, ver), src2)
        except (X.LexError, X.NoVerdict):
            return False
    return False


def judge_cast_case(case, rec: Recorder | None = None) -> list[Disc]:
    S, lex, T, ver, xp = case['S'], case['lex'], case['T'], case['ver'], case['xp']
    discs: list[Disc] = []
    classes = ['cast:case', 'cast:S:' + S, 'cast:T:' + T]
    detail = f'xs:{S}({lex!r}) -> xs:{T} xsd={ver} xpath={xp}'
    cross = X.table_class(S) != X.table_class(T) or S != T
    if cross:
        classes.append('cast:cross-type')
    expected = None
    try:
        refsrc = X.parse(S, lex, ver)
    except (X.LexError, X.NoVerdict):
        refsrc = None
        classes.append('cast:source-not-valid')
    try:
        if refsrc is not None:
            try:
                src = _xp(xp, ver, f'xs:{S}($s)', s=lex)
            except Exception:
                src = _Err('escape', 'source constructor escaped')
            if isinstance(src, _Err):
                classes.append('cast:source-ctor-failed')
            else:
                try:
                    expected = ('ok', X.cast_ref(S, refsrc, T, ver))
                    classes.append('cast:expected-ok')
                except X.CastError as e:
                    expected = ('error', e.kind)
                    classes.append('cast:expected-error')
                    classes.append('cast:expected-error:' + e.kind)
                except X.NoVerdict:
                    expected = None
                    classes.append('cast:no-verdict')
                r_castable = _xp(xp, ver, f'$v castable as xs:{T}', v=src)
                r_cast = _xp(xp, ver, f'$v cast as xs:{T}', v=src)
                r_ctor = _xp(xp, ver, f'xs:{T}($v)', v=src)
                pair = f'{_grp(S)}->{_grp(T)}'
                ok_cast, ok_ctor = not isinstance(r_cast, _Err), not isinstance(r_ctor, _Err)
                # three-way agreement
                if isinstance(r_castable, _Err) or not isinstance(r_castable, bool):
                    discs.append(Disc(f'C10/three-way/castable-not-boolean/{pair}', 'true/false', r_castable, detail))
                elif r_castable != ok_cast:
                    discs.append(Disc(f'C10/three-way/castable-vs-cast/{pair}', f'castable={ok_cast}', f'castable={r_castable} cast={r_cast!r}', detail))
                if ok_cast != ok_ctor:
                    discs.append(Disc(f'C10/three-way/cast-vs-constructor/{pair}', repr(r_cast), repr(r_ctor), detail))
                    if expected is not None and expected[0] == 'error' and ok_ctor and X.table_class(S) not in ('str', 'uA'):
                        discs.append(Disc(f'C10/cast/constructor-accepts-{expected[1]}/{pair}', 'error', repr(r_ctor), detail))
                elif ok_cast:
                    n1, v1 = lift(r_cast, ver)
                    n2, v2 = lift(r_ctor, ver)
                    if n1 != n2 or not _same_value(v1, v2):
                        discs.append(Disc(f'C10/three-way/value/{pair}', repr(r_cast), repr(r_ctor), detail))
                # casting table (string / untypedAtomic sources are a purely lexical question: lex and canon checks)
                if expected is not None and X.table_class(S) not in ('str', 'uA'):
                    if expected[0] == 'error' and ok_cast:
                        discs.append(Disc(f'C10/cast/accepts-{expected[1]}/{pair}', 'error', repr(r_cast), detail))
                    elif expected[0] == 'ok' and not ok_cast:
                        discs.append(Disc(f'C10/cast/rejects-allowed/{pair}', repr(expected[1]), r_cast, detail))
                    elif expected[0] == 'ok':
                        n1, v1 = lift(r_cast, ver)
                        want_name = 'dateTime' if (T == 'dateTimeStamp' and False) else T
                        if n1 != want_name:
                            discs.append(Disc(f'C10/cast/result-type/{pair}', want_name, f'{n1}: {r_cast!r}', detail))
                        elif not _same_value(v1, expected[1]):
                            kind = 'value'
                            if isinstance(expected[1], str) and X.table_class(S) in ('dbl', 'flt') and isinstance(v1, str):
                                prob = X.double_string_problem(refsrc, v1, float32=(S == 'float'))
                                if prob is None:
                                    kind = None
                                else:
                                    try:
                                        kind = 'form' if _same_value(X.parse(S, v1, ver), refsrc) else 'value'
                                    except (X.LexError, X.NoVerdict):
                                        kind = 'value'
                            if kind and 'flt' in (X.table_class(S), X.table_class(T)) and \
                                    _float_as_double_explains(S, lex, T, ver, v1):
                                kind = 'float-as-double' if kind == 'value' else 'float-as-double+' + kind
                            if kind and X.table_class(S) == 'dec' and refsrc == 0 and lex.strip(' \t\n\r').startswith('-'):
                                kind = 'decimal-neg-zero+' + kind
                            if kind and X.table_class(S) in ('dT', 'dat', 'tim') and isinstance(refsrc, tuple):
                                kind = _dt_class(refsrc, lex) + '/' + kind
                            if kind:
                                discs.append(Disc(f'C10/cast/{kind}/{pair}', repr(expected[1]), repr(v1), detail))
    except Exception as e:
        discs.append(Disc(escape_bucket('C10', e) + f'/cast/{_grp(S)}->{_grp(T)}', 'value or error', repr(e), detail))
    if rec is not None:
        rec.case(['cast', S, lex, T, ver, xp], nontrivial=cross and refsrc is not None,
                 sample={'check': 'cast', 'case': case}, classes=classes)
    return discs


# --------------------------------------------------------------------------
# decstr: xs:decimal -> xs:string for small and large magnitudes and python exponent representations
# --------------------------------------------------------------------------

def _dec_class(case, v) -> str:
    """input class of the decimal that is converted (by its value and python representation)"""
    if isinstance(v, Decimal):
        if v != 0 and abs(v) < Decimal('0.000001'):
            return 'tiny'
        if v.as_tuple().exponent > 0:
            return 'pos-exponent'
        digits = v.as_tuple().digits
        if len(digits) > 18:
            return 'long'
        if digits and digits[-1] == 0 and v.as_tuple().exponent < 0:
            return 'trailing-zeros'
    return 'plain'


def judge_decstr_case(case, rec: Recorder | None = None) -> list[Disc]:
    discs: list[Disc] = []
    ver, xp, src, path = case['ver'], case['xp'], case['src'], case['path']
    variables = {'d': Decimal(case['d']), 'e': Decimal(case['e']), 'x': float(case['x']), 'i': case['i']}
    expr = path.replace('{E}', src)
    detail = f'{expr} with d={case["d"]} e={case["e"]} x={case["x"]} i={case["i"]} xsd={ver} xpath={xp}'
    classes = ['decstr:case', 'decstr:src:' + src, 'decstr:path:' + path.replace('{E}', '.')]
    cls = 'skipped'
    try:
        v = _xp(xp, ver, src, **variables)
        if isinstance(v, _Err) or isinstance(v, bool) or not isinstance(v, (Decimal, int)):
            classes.append('decstr:source-not-decimal')
        else:
            cls = _dec_class(case, v)
            fr = Fraction(v)
            want = X.decimal_to_string(fr)
            pid = path.replace('{E}', '.').replace(' ', '')
            base = f'C10/decstr/{cls}/{pid}'
            r = _xp(xp, ver, expr, **variables)
            if isinstance(r, _Err):
                discs.append(Disc(f'{base}/error/{r.code}', want, r, detail))
            else:
                from elementpath import datatypes as D
                text = r.value if isinstance(r, D.UntypedAtomic) else r
                if not isinstance(text, str):
                    discs.append(Disc(f'{base}/type', want, repr(r), detail))
                else:
                    if "string-join" in path:
                        text = text[:-1] if text.endswith('x') else text + '?'
                    elif path.startswith("concat('['"):
                        text = text[1:-1] if text[:1] == '[' and text[-1:] == ']' else text + '?'
                    if text != want:
                        try:
                            same = Fraction(Decimal(text)) == fr and 'n' not in text.lower()
                        except Exception:
                            same = False
                        discs.append(Disc(f'{base}/{"form" if same else "value"}', want, text, detail))
                    # the string must cast back to an equal xs:decimal
                    back = _xp(xp, ver, 'xs:decimal($r)', r=text)
                    if isinstance(back, _Err):
                        discs.append(Disc(f'{base}/not-castable-back', fr, back, detail + f' string={text!r}'))
                    elif not isinstance(back, (Decimal, int)) or Fraction(back) != fr:
                        discs.append(Disc(f'{base}/cast-back-not-equal', str(fr), repr(back), detail + f' string={text!r}'))
    except Exception as e:
        discs.append(Disc(escape_bucket('C10', e) + '/decstr', 'string', repr(e), detail))
    classes.append('decstr:class:' + cls)
    if rec is not None:
        rec.case(['decstr', case['d'], case['e'], case['x'], case['i'], src, path, ver, xp], nontrivial=cls not in ('plain', 'skipped'),
                 sample={'check': 'decstr', 'expr': expr, 'case': case}, classes=classes)
    return discs


# --------------------------------------------------------------------------
# module interface
# --------------------------------------------------------------------------
_CASE_JUDGES = {'lex': judge_lex_case, 'canon': judge_canon_case, 'cast': judge_cast_case, 'decstr': judge_decstr_case,
                'matrix': judge_cast_case}


def _judge(check, case, rec=None):
    out = []
    for c in _cases_of(check, case):
        ds = _CASE_JUDGES[check](c, rec)
        if rec is not None:
            rec.discs_of(check, c, ds)
        out += ds
    return out


def selftest():
    X.self_test_numeric()
    X.self_test_types()
    X.self_test_cast()
    assert feature('integer', '1_0', '1.0') == 'underscore' and feature('byte', '128', '1.0') == 'bounds'
    assert feature('double', ' 1 ', '1.0') == 'xml-ws-outer' and feature('double', '1\u2003', '1.0') == 'non-xml-ws'
    assert feature('date', '2000-02-30', '1.0') == 'date-range' and feature('date', '0000-01-01', '1.0') == 'year-zero'
    assert feature('date', '02000-01-01\n', '1.1') == 'year-leading-zero' and feature('dateTime', '0000-07-08T81:34:02Z', '1.1') == 'date-range'
    assert feature('double', '-NaN', '1.0') == 'signed-nan' and feature('float', 'inf', '1.0') == 'special-spelling'
    assert feature('dayTimeDuration', 'P1M', '1.0') == 'duration-wrong-fields' and feature('decimal', '1 .5', '1.0') == 'xml-ws-inner'
    # every generated "valid" form of the unambiguous generators is valid for the reference (generator / reference coherence)
    mx = G.Mix(12345)
    for t in G.ALL_TYPES:
        if t in ('anyURI', 'string', 'normalizedString', 'token', 'untypedAtomic', 'double', 'float', 'dateTimeStamp') or t in G.DATE_TYPES:
            continue
        for _ in range(40):
            s = G.gen_valid(mx, t)
            if t in G.INTEGER_TYPES:
                continue
            assert X.is_valid(t, s, '1.1') is not False, (t, s)


def jobs(tier, seed):
    q = tier == 'quick'
    plan = {'lex': (5, 1000 if q else 9000), 'canon': (3, 700 if q else 6000), 'cast': (4, 800 if q else 7000),
            'decstr': (2, 700 if q else 6000)}
    out = []
    for chk, (shards, n) in plan.items():
        for i in range(shards):
            out.append({'check': chk, 'shard': i, 'n': n, 'seed': derive_seed(seed, 'C10', chk, i)})
    for i in range(MATRIX_SHARDS):        # the finite S x T grid is enumerated completely in every tier
        out.append({'check': 'matrix', 'shard': i, 'of': MATRIX_SHARDS})
    return out


MATRIX_SHARDS = 2
EXHAUSTIVE_NOTE = ('sub-check matrix: the complete grid of 44 source types x 44 target types (casts to QName only from QName) is '
                   'enumerated with up to 3 source literals per cell chosen so that the string form is a valid literal of the '
                   'target where the source type allows it, x XSD 1.0/1.1; all other sub-checks are sampled')


def run_job(job, rec: Recorder):
    chk = job['check']
    if chk == 'matrix':
        for case in matrix_cases()[job['shard']::job['of']]:
            ds = judge_cast_case(case, rec)
            rec.discs_of('matrix', case, ds)
            rec.cls('matrix:cell-case')
        return
    hyp_collect(pool_strategy, lambda case: _judge(chk, case, rec), job['n'], job['seed'], rec)


def shrink_job(job, bucket, budget):
    chk = job['check']
    if chk == 'matrix':
        for case in matrix_cases()[job['shard']::job['of']]:
            for d in judge_cast_case(case):
                if d.bucket == bucket:
                    return case, d
        return None
    got = hyp_shrink(pool_strategy, lambda case: _judge(chk, case), bucket, job['n'], job['seed'], budget)
    if got is None:
        return None
    case, d = got
    best = None
    for c in _cases_of(chk, case):
        for dd in _CASE_JUDGES[chk](c):
            if dd.bucket == bucket:
                key = len(str(c.get('s', c.get('lex', ''))))
                if best is None or key < best[0]:
                    best = (key, c, dd)
    return (best[1], best[2]) if best else (case, d)


def judge(check, case):
    return _judge(check, case)
